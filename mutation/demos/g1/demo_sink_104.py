"""C09: after the client is closed no further reconnection attempts are made.

A client built by the public Thrift builder talks to one endpoint that refuses
every connect, so the resurrector keeps retrying.  After DispatcherClose() the
retries must stop.
"""
import demo_common as dc
import time
import gevent

dc.install_fake_socket(refuse=True)

from scales.thrift import Thrift
from scales.resurrector import ResurrectorSink

builder = Thrift.NewBuilder(dc.hello_iface()) \
    .SetUri('tcp://server1:1234') \
    .SetTimeout(0.2) \
    .SetOpenTimeout(1)
builder.ReplaceSink(ResurrectorSink.Builder, ResurrectorSink.Builder(
    initial_wait_interval=0.02, max_wait_interval=0.02, backoff_exponent=1.0))
client = builder.Build()

gevent.sleep(0.3)
before = len(dc.FakeSocket.OPEN_ATTEMPTS)
if before < 3:
  dc.fail('setup: expected the resurrector to be retrying, saw %d connect attempts' % before)

try:
  client.DispatcherClose()
except Exception as e:
  dc.fail('DispatcherClose() raised %r' % (e,))
at_close = len(dc.FakeSocket.OPEN_ATTEMPTS)
gevent.sleep(0.5)
after = len(dc.FakeSocket.OPEN_ATTEMPTS) - at_close

if after != 0:
  dc.fail('%d reconnection attempts in the 0.5s after the client was closed '
          '(%d before close); expected 0' % (after, at_close))
dc.ok('%d attempts before close, 0 after' % at_close)
