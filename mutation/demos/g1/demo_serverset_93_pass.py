"""serverset.py:93 -> pass (Kazoo client handed in by the application).  See demo_zkclose_common."""
import demo_zkclose_common
demo_zkclose_common.run(owned=False, close_before_open=False)
