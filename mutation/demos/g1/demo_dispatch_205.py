"""C12: once a caller has been handed TimeoutError for a call, no byte of that
call's request is written afterwards -- here for a request that was waiting for
the dispatcher to open, with the deadline falling exactly on the instant the
open completes (clock reads exactly t+T, T on the 10ms timer grid).

Real MessageDispatcher + real ClientTimeoutSink + real GLOBAL_TIMER_QUEUE; the
terminal sink stands in for the transport and records the moment the request
reaches the wire.  The clock is a controlled one so that the tie is exact and
the run is deterministic.
"""
import demo_common as dc
import gevent

import scales.timer_queue as tq
import scales.dispatch as dispatch
import scales.sink as sink
from scales.asynchronous import AsyncResult
from scales.constants import ChannelState, SinkProperties
from scales.message import TimeoutError as ScalesTimeoutError


class Clock(object):
  now = 1000.0
  def time(self):
    return Clock.now

clock = Clock()
# Controlled clock for the dispatcher, the timeout sink and the global timer queue.
dispatch.time = clock
sink.time = clock
tq.GLOBAL_TIMER_QUEUE._time_source = clock.time

state = {'ar': None, 'written': []}


class WireSink(sink.ClientMessageSink):
  """Stands in for everything below the timeout sink."""
  def __init__(self, opened):
    super(WireSink, self).__init__()
    self._opened = opened
  @property
  def state(self):
    return ChannelState.Open
  def Open(self):
    # Opening takes a hop or two, like a real stack (balancer -> node -> transport).
    return self._opened.ContinueWith(lambda _: True)
  def Close(self):
    pass
  def AsyncProcessRequest(self, sink_stack, msg, stream, headers):
    ar = state['ar']
    state['written'].append(
        (clock.time(), ar.ready(), ar.exception if ar.ready() else None))
  def AsyncProcessResponse(self, sink_stack, context, stream, msg):
    pass


class WireProvider(sink.SinkProviderBase):
  def __init__(self, opened):
    super(WireProvider, self).__init__()
    self._opened = opened
  def CreateSink(self, properties):
    return WireSink(self._opened)
  @property
  def sink_class(self):
    return WireSink


opened = AsyncResult()
timeout_provider = sink.TimeoutSinkProvider()
timeout_provider.next_provider = WireProvider(opened)
dispatcher = dispatch.MessageDispatcher(
    None, timeout_provider, 1.0, {SinkProperties.Label: 'demo'})

gevent.sleep(0.05)            # let the timer worker settle
dispatcher.Open()             # still opening
T = 1.0
ar = state['ar'] = dispatcher.DispatchMethodCall('hi', ('x',), {}, timeout=T)   # t = 1000.0
Clock.now = 1000.0 + T        # the clock reaches t+T ...
opened.set(True)              # ... at the very instant the open completes
gevent.sleep(0.3)

if not state['written']:
  # Not the interleaving this demo is about (request never dispatched); nothing to judge.
  if ar.ready() and isinstance(ar.exception, ScalesTimeoutError):
    dc.ok('request never written, caller got TimeoutError')
  dc.fail('scenario not reached: nothing written and call state ready=%r' % ar.ready())

when, was_ready, exc = state['written'][0]
if was_ready and isinstance(exc, ScalesTimeoutError):
  dc.fail('request was written to the wire at clock=%.2f AFTER the caller had already been '
          'handed %r; expected: no byte written once TimeoutError is delivered' % (when, exc))
if not (ar.ready() and isinstance(ar.exception, ScalesTimeoutError)):
  dc.fail('call did not end in TimeoutError: ready=%r exc=%r' % (ar.ready(), ar.exception))
dc.ok('request written at clock=%.2f while the call was still pending; TimeoutError delivered afterwards' % when)
