"""C09 scenario shared by demo_serverset_90_pass / 93_pass / 95:
'after the client is closed no further reconnection attempts are made'.

A client built by the public Thrift builder over a ZooKeeper server set (in
memory KazooClient) with one member that refuses every connect.
"""
import demo_common as dc
import gevent


def run(owned, close_before_open):
  dc.install_fake_socket(refuse=True)

  from scales.thrift import Thrift
  from scales.resurrector import ResurrectorSink
  from scales.loadbalancer.serverset import ZooKeeperServerSetProvider

  PATH = '/svc/hello'
  tree = dc.make_tree(PATH, [('server1', 1001)])

  builder = Thrift.NewBuilder(dc.hello_iface()).SetTimeout(0.2)
  if owned:
    # zk:// URI -> the provider creates (and owns) its Kazoo client.
    dc.FakeZk.DEFAULT_TREE = tree
    ZooKeeperServerSetProvider.KazooClient = dc.FakeZk
    builder.SetUri('zk://zkhost:2181' + PATH)
  else:
    # A Kazoo client owned by the application, handed to the provider.
    zk = dc.FakeZk(tree=tree)
    zk.start()
    builder.SetServerSetProvider(ZooKeeperServerSetProvider(zk, PATH))
  builder.ReplaceSink(ResurrectorSink.Builder, ResurrectorSink.Builder(
      initial_wait_interval=0.02, max_wait_interval=0.02, backoff_exponent=1.0))

  if close_before_open:
    # Build without waiting for the open, close at once (before the balancer's
    # open greenlet has had a chance to run).
    client = builder.SetOpenTimeout(0).Build()
  else:
    client = builder.SetOpenTimeout(1).Build()
    gevent.sleep(0.3)
    if len(dc.FakeSocket.OPEN_ATTEMPTS) < 3:
      dc.fail('setup: expected the resurrector to be retrying, saw %d connect attempts'
              % len(dc.FakeSocket.OPEN_ATTEMPTS))

  close_error = None
  try:
    client.DispatcherClose()
  except Exception as e:
    close_error = e
  at_close = len(dc.FakeSocket.OPEN_ATTEMPTS)
  gevent.sleep(0.5)
  after = len(dc.FakeSocket.OPEN_ATTEMPTS) - at_close

  if after != 0 or close_error is not None:
    dc.fail('%d connection attempts in the 0.5s after the client was closed '
            '(%d before close), DispatcherClose() raised %r; expected 0 attempts and a clean close'
            % (after, at_close, close_error))
  dc.ok('%d attempts before close, 0 after, clean close' % at_close)
