#!/bin/sh
# usage: demo_run.sh <demo.py> <file> <line> <sed-expression>
# runs demo on original, applies the one-line mutation with sed, runs again, reverts.
cd /tmp/seed/triage1
export PYTHONPATH=/tmp/seed/triage1
demo=$1; file=$2; line=$3; expr=$4
git checkout -- scales
timeout 60 /venv/bin/python $demo 2>/tmp/seed/triage1/.stderr_orig; echo "original exit=$?"
sed -i "${line}${expr}" $file
git diff --stat -- scales | tail -1; git diff -U0 -- scales | grep '^[-+]' | grep -v '^\(---\|+++\)'
timeout 60 /venv/bin/python $demo 2>/tmp/seed/triage1/.stderr_mut; echo "mutated exit=$?"
git checkout -- scales
git status --short -- scales
