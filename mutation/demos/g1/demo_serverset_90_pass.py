"""serverset.py:90 -> pass (provider owns its Kazoo client, built from a zk:// URI).  See demo_zkclose_common."""
import demo_zkclose_common
demo_zkclose_common.run(owned=True, close_before_open=False)
