"""serverset.py:95 -> pass (client closed before the balancer open greenlet ran Initialize()).  See demo_zkclose_common."""
import demo_zkclose_common
demo_zkclose_common.run(owned=False, close_before_open=True)
