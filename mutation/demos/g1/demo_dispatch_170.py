"""C01: a call issued through a client built by the public Thrift builder with
timeout T completes no later than t+T (with TimeoutError when the server never
answers).

The server accepts the connection and the request but never replies.
"""
import demo_common as dc
import time
import gevent

dc.install_fake_socket(refuse=False)

from scales.thrift import Thrift
from scales.message import TimeoutError as ScalesTimeoutError

T = 0.2
client = Thrift.NewBuilder(dc.hello_iface()) \
    .SetUri('tcp://server1:1234') \
    .SetTimeout(T) \
    .SetOpenTimeout(2) \
    .Build()

t0 = time.time()
ar = client.hi_async('hello')
ar.wait(T + 1.0)
elapsed = time.time() - t0
sent = sum(len(s.written) for s in dc.FakeSocket.INSTANCES)

if not ar.ready():
  dc.fail('call with timeout T=%.2fs is still pending %.2fs after it was issued '
          '(request frames written: %d); expected TimeoutError by t+T' % (T, elapsed, sent))
if not isinstance(ar.exception, ScalesTimeoutError):
  dc.fail('expected TimeoutError, observed %r / %r' % (ar.exception, ar.value))
if elapsed < T:
  dc.fail('TimeoutError delivered early: %.3fs < T=%.2fs' % (elapsed, T))
dc.ok('TimeoutError after %.3fs (T=%.2fs)' % (elapsed, T))
