"""Shared fakes for the demo_*.py scripts (no network).

FakeSocket  - stands in for scales.scales_socket.ScalesSocket (installed into
              scales.sink, where the public builders' transport provider looks
              it up).  Either refuses every connect, or connects and then never
              answers.
FakeZk      - a KazooClient subclass backed by an in-memory tree; never touches
              the network.  It has to be start()ed to be `connected`, like the
              real one.
"""
import json
import os
import socket
import sys

sys.path.insert(0, os.path.dirname(os.path.abspath(__file__)))

import gevent
from gevent.event import Event

import scales
assert scales.__file__.startswith(os.path.dirname(os.path.abspath(__file__))), scales.__file__

from kazoo.client import KazooClient
from kazoo.exceptions import NoNodeError
from kazoo.handlers.gevent import SequentialGeventHandler
from kazoo.protocol.states import ZnodeStat


class FakeHandle(object):
  def __init__(self, owner):
    self._owner = owner
    self._closed = Event()

  def sendall(self, buf):
    self._owner.written.append(bytes(buf))

  def recv_into(self, buf, sz):
    # The peer never answers; a close wakes the reader with EOF.
    self._closed.wait()
    return 0

  def setsockopt(self, *args):
    pass

  def close(self):
    self._closed.set()


class FakeSocket(object):
  REFUSE = False
  OPEN_ATTEMPTS = []   # (time, host, port) of every connect attempt
  INSTANCES = []

  def __init__(self, host, port):
    self.host = host
    self.port = port
    self.handle = None
    self.written = []
    FakeSocket.INSTANCES.append(self)

  def isOpen(self):
    return self.handle is not None

  def open(self):
    import time
    FakeSocket.OPEN_ATTEMPTS.append((time.time(), self.host, self.port))
    if FakeSocket.REFUSE:
      raise socket.error('connection refused (fake)')
    self.handle = FakeHandle(self)

  def close(self):
    if self.handle:
      self.handle.close()
      self.handle = None

  @classmethod
  def reset(cls, refuse):
    cls.REFUSE = refuse
    cls.OPEN_ATTEMPTS = []
    cls.INSTANCES = []


def install_fake_socket(refuse):
  import scales.sink
  FakeSocket.reset(refuse)
  scales.sink.ScalesSocket = FakeSocket


def member_json(host, port):
  return json.dumps({
    'serviceEndpoint': {'host': host, 'port': port},
    'additionalEndpoints': {},
    'status': 'ALIVE',
  }).encode('utf-8')


def _stat(czxid, nchildren=0):
  return ZnodeStat(czxid, czxid, 0, 0, 0, 0, 0, 0, 0, nchildren, czxid)


class FakeZk(KazooClient):
  """In-memory KazooClient.  `tree` maps a path to its data (bytes)."""
  INSTANCES = []
  DEFAULT_TREE = {}

  def __init__(self, hosts='fake:2181', tree=None, **kwargs):
    super(FakeZk, self).__init__(hosts=hosts, handler=SequentialGeventHandler())
    self.tree = dict(self.DEFAULT_TREE if tree is None else tree)
    self._fake_started = False
    self.start_calls = 0
    self.stop_calls = 0
    FakeZk.INSTANCES.append(self)

  # lifecycle ---------------------------------------------------------------
  def start(self, timeout=15):
    self.start_calls += 1
    self._fake_started = True

  def stop(self):
    self.stop_calls += 1
    self._fake_started = False

  @property
  def connected(self):
    return self._fake_started

  # reads -------------------------------------------------------------------
  def _children(self, path):
    prefix = path.rstrip('/') + '/'
    return sorted(p[len(prefix):] for p in self.tree
                  if p.startswith(prefix) and '/' not in p[len(prefix):])

  def exists(self, path, watch=None):
    if path in self.tree:
      return _stat(1 + sorted(self.tree).index(path), len(self._children(path)))
    return None

  def get(self, path, watch=None):
    if path not in self.tree:
      raise NoNodeError(path)
    return self.tree[path], self.exists(path)

  def get_children(self, path, watch=None, include_data=False):
    if path not in self.tree:
      raise NoNodeError(path)
    return self._children(path)


def make_tree(path, members):
  """members: list of (host, port)."""
  tree = {path: b''}
  for i, (h, p) in enumerate(members):
    tree['%s/member_%010d' % (path, i)] = member_json(h, p)
  return tree


def hello_iface():
  from test.scales.thrift.gen_py.hello import Hello
  return Hello.Iface


def fail(msg):
  sys.stdout.write('FAIL: %s\n' % msg)
  sys.stdout.flush()
  os._exit(1)


def ok(msg):
  sys.stdout.write('OK: %s\n' % msg)
  sys.stdout.flush()
  os._exit(0)
