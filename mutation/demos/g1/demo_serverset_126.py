"""C05: the set of endpoints a balancer can dispatch to equals the current
server set (here: a ZooKeeper-backed server set with two members, no
join/leave notifications at all, i.e. the empty history).

The balancer is the real HeapBalancerSink over the real
ZooKeeperServerSetProvider; ZooKeeper is an in-memory KazooClient (already
started by its owner, as for a shared client).
"""
import demo_common as dc
import gevent

from scales.constants import SinkProperties
from scales.loadbalancer.heap import HeapBalancerSink
from scales.loadbalancer.serverset import ZooKeeperServerSetProvider
from test.scales.util.mocks import MockSinkProvider

PATH = '/svc/hello'
MEMBERS = [('server1', 1001), ('server2', 1002)]

zk = dc.FakeZk(tree=dc.make_tree(PATH, MEMBERS))
zk.start()
provider = ZooKeeperServerSetProvider(zk, PATH)

lb_provider = HeapBalancerSink.Builder(server_set_provider=provider)
lb_provider.next_provider = MockSinkProvider()
balancer = lb_provider.CreateSink({SinkProperties.Label: 'demo'})
open_ar = balancer.Open()
open_ar.wait(1.0)

eligible = sorted((ep.host, ep.port) for ep in balancer._servers)
in_heap = sorted((n.endpoint.host, n.endpoint.port) for n in balancer._heap[1:])
if not open_ar.ready():
  dc.fail('balancer over a ZooKeeper server set with members %r did not open within 1s; '
          'eligible endpoints: %r (expected %r)' % (MEMBERS, eligible, sorted(MEMBERS)))
if eligible != sorted(MEMBERS) or in_heap != sorted(MEMBERS):
  dc.fail('eligible endpoints %r / heap %r, expected %r' % (eligible, in_heap, sorted(MEMBERS)))
dc.ok('balancer opened, eligible endpoints == server set == %r' % (eligible,))
