"""In-memory replacement for the gevent socket used by scales.scales_socket.

No network traffic: connect/send/recv are served from memory by a tiny framed
Thrift 'Hello' server.  The only real system call is a probe
socket.socket(family, type) + close() in the constructor, so that the kernel
itself says whether (family, type) is something a TCP endpoint can be reached
with -- exactly what the real gevent socket constructor would do.
"""
import errno
import os
import socket as _socket
import struct
import sys

from gevent.event import Event

sys.path.insert(0, os.path.join(os.path.dirname(os.path.abspath(__file__)),
                                'test', 'scales', 'thrift', 'gen_py'))

from thrift.protocol.TBinaryProtocol import TBinaryProtocol
from thrift.transport.TTransport import TMemoryBuffer

from hello import Hello  # generated test interface


class Net(object):
  def __init__(self):
    self.reachable = True
    self.connect_attempts = []   # addresses, in order
    self.sockets_created = []    # (family, type)
    self.requests = []           # test_data values seen by the server

  def install(self):
    import scales.scales_socket as ss
    net = self

    class FakeSock(object):
      def __init__(self, family, type):
        # Let the kernel validate (family, type) like the real constructor.
        probe = _socket.socket(family, type)
        probe.close()
        net.sockets_created.append((int(family), int(type)))
        self._in = b''
        self._out = bytearray()
        self._ev = Event()
        self._closed = False

      def connect(self, addr):
        net.connect_attempts.append(addr)
        if not net.reachable:
          raise ConnectionRefusedError(errno.ECONNREFUSED, 'refused (fake net)')

      def setsockopt(self, *a):
        pass

      def sendall(self, data):
        self._in += bytes(data)
        while len(self._in) >= 4:
          sz, = struct.unpack('!i', self._in[:4])
          if len(self._in) < 4 + sz:
            break
          frame, self._in = self._in[4:4 + sz], self._in[4 + sz:]
          reply = net._serve(frame)
          self._out += struct.pack('!i', len(reply)) + reply
          self._ev.set()

      def send(self, data):
        self.sendall(data)
        return len(data)

      def recv_into(self, buf, n):
        while not self._out:
          if self._closed:
            return 0
          self._ev.clear()
          self._ev.wait()
        k = min(n, len(self._out))
        buf[:k] = self._out[:k]
        del self._out[:k]
        return k

      def recv(self, n):
        b = bytearray(n)
        k = self.recv_into(memoryview(b), n)
        return bytes(b[:k])

      def close(self):
        self._closed = True
        self._ev.set()

    ss.gsocket = FakeSock
    return self

  def _serve(self, frame):
    net = self

    class Handler(object):
      def hi(self, test_data):
        net.requests.append(test_data)
        return 'hello ' + test_data

    itrans = TMemoryBuffer(frame)
    otrans = TMemoryBuffer()
    Hello.Processor(Handler()).process(TBinaryProtocol(itrans), TBinaryProtocol(otrans))
    return otrans.getvalue()
