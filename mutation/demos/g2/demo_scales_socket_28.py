"""C09: once an endpoint is reachable again the client resumes sending it
traffic within one maximum retry interval.

The endpoint refuses the first connect, then becomes reachable (in-memory fake
net, see demo_fakenet.py; the only syscall is the kernel validating
socket(family, type)).  The Thrift client built by the public builder must get
the server's reply afterwards.
"""
import sys
import gevent

from demo_fakenet import Net, Hello
from scales.thrift import Thrift
from scales.resurrector import ResurrectorSink

MAX_RETRY = 0.2

net = Net().install()
net.reachable = False

client = Thrift.NewBuilder(Hello.Iface) \
  .SetUri('tcp://127.0.0.1:9090') \
  .SetTimeout(2) \
  .ReplaceSink(ResurrectorSink.Builder, ResurrectorSink.Builder(
      initial_wait_interval=0.05, max_wait_interval=MAX_RETRY, backoff_exponent=1.2)) \
  .Build()

try:
  client.hi('while down')
  print('FAIL: call succeeded while the endpoint refused connections')
  sys.exit(2)
except Exception as e:
  print('while down: call failed as expected (%s)' % type(e).__name__)

net.reachable = True
gevent.sleep(MAX_RETRY * 5)   # several maximum retry intervals

try:
  ret = client.hi('again')
except Exception as e:
  inner = getattr(e, 'inner_exception', e)
  print('OBSERVED: endpoint reachable for %.1fs (max retry interval %.1fs) but the call still fails: %r'
        % (MAX_RETRY * 5, MAX_RETRY, inner))
  print('          sockets created (family, type): %r' % (net.sockets_created[-3:],))
  print('EXPECTED: client resumes sending traffic to the endpoint and returns "hello again" (C09)')
  sys.exit(1)

if ret != 'hello again' or net.requests != ['again']:
  print('OBSERVED ret=%r server saw %r; EXPECTED "hello again" / ["again"]' % (ret, net.requests))
  sys.exit(1)
print('OK: endpoint used again once reachable, reply %r, sockets created %r' % (ret, net.sockets_created[-1:]))
sys.exit(0)
