"""C01: every method call issued through a client completes exactly once (with
the reply, with an error, or with TimeoutError).

A Thrift client built by the public builder (no call timeout configured) is
given a call whose arguments cannot be serialized.  The call must complete
with an error; it must not be left pending forever.
"""
import sys
import gevent

from demo_fakenet import Net, Hello
from scales.thrift import Thrift

net = Net().install()

client = Thrift.NewBuilder(Hello.Iface) \
  .SetUri('tcp://127.0.0.1:9090') \
  .SetTimeout(None) \
  .Build()

# sanity: the client works
assert client.hi('x') == 'hello x', 'sanity call failed'

# hi() takes one string; these argument lists cannot be serialized.
pending = []
for args in [(1, 2, 3), (object(),)]:
  ar = client.hi_async(*args)
  gevent.sleep(1.0)
  if ar.ready():
    print('call hi%r completed with %s' % (args, type(ar.exception).__name__ if ar.exception else repr(ar.value)))
    if ar.exception is None:
      print('FAIL: unserializable call returned a value')
      sys.exit(2)
  else:
    pending.append(args)

if pending:
  print('OBSERVED: calls %r are still pending 1s after being issued; nothing was sent (server saw %r), '
        'no timer is armed (no timeout configured): they never complete' % (pending, net.requests))
  print('EXPECTED: every call completes exactly once, here with the serialization error (C01)')
  sys.exit(1)
print('OK: unserializable calls completed with an error')
sys.exit(0)
