"""C09: after the client is closed no further reconnection attempts are made
(quantified over endpoints that are unreachable at first connect, for the
Thrift and ThriftMux stacks).

History: the client is built with a server set provider whose Initialize() is
slow (like a ZooKeeper session that is still connecting), the application
closes the client while it is still opening, then the provider finishes.  The
only member refuses connections (in-memory fake net, demo_fakenet.py).
No connection attempt of any kind may happen after the close.
"""
import sys
import gevent
from gevent.event import Event

from demo_fakenet import Net, Hello
from scales.core import ScalesUriParser
from scales.loadbalancer.serverset import ServerSetProvider
from scales.resurrector import ResurrectorSink
from scales.thrift import Thrift
from scales.thriftmux import ThriftMux

net = Net().install()
net.reachable = False


class SlowProvider(ServerSetProvider):
  def __init__(self, port):
    self.port = port
    self.gate = Event()
    self.closed = False
  def Initialize(self, on_join, on_leave):
    self.gate.wait()           # still connecting to the naming service
  def GetServers(self):
    return list(ScalesUriParser().Parse('tcp://127.0.0.1:%d' % self.port).GetServers())
  def Close(self):
    self.closed = True


failed = False
for name, builder, port in (('Thrift', Thrift.NewBuilder(Hello.Iface), 9090),
                            ('ThriftMux', ThriftMux.NewBuilder(Hello.Iface), 9091)):
  provider = SlowProvider(port)
  attempts = lambda: len([a for a in net.connect_attempts if a[1] == port])
  client = builder \
    .SetServerSetProvider(provider) \
    .SetTimeout(1) \
    .SetOpenTimeout(0) \
    .ReplaceSink(ResurrectorSink.Builder, ResurrectorSink.Builder(
        initial_wait_interval=0.05, max_wait_interval=0.1, backoff_exponent=0.5)) \
    .Build()
  gevent.sleep(0.05)           # the balancer is now waiting for the provider
  client.DispatcherClose()
  assert provider.closed
  before = attempts()
  provider.gate.set()          # the provider finishes after the close
  gevent.sleep(1.0)
  after = attempts() - before
  if after:
    print('%s: OBSERVED %d connection attempts to %r after the client was closed '
          '(1 initial connect + %d reconnection attempts, still going)'
          % (name, after, ('127.0.0.1', port), after - 1))
    print('%s: EXPECTED none: after the client is closed no further reconnection attempts are made (C09)' % name)
    failed = True
  else:
    print('%s: OK, no connection attempt after close (%d before)' % (name, before))

sys.exit(1 if failed else 0)
