"""C13: a ThriftMux dispatch body carries the context entries (caller
properties, client id and deadline), each key and value preceded by its exact
byte length, then an empty destination and delegation table, then the Thrift
call.

The ThriftMux stack of the public builder is used with its socket transport
replaced by a capturing sink (no network).  A call with a timeout is issued and
the dispatch body handed to the transport is decoded independently.
"""
import struct
import sys
import time

from demo_fakenet import Hello   # also puts the generated code on sys.path
from thrift.protocol.TBinaryProtocol import TBinaryProtocol
from thrift.transport.TTransport import TMemoryBuffer

from scales.asynchronous import AsyncResult
from scales.constants import ChannelState, SinkRole
from scales.message import MethodReturnMessage
from scales.sink import ClientMessageSink, SinkProvider
from scales.thriftmux import ThriftMux
from scales.thriftmux.sink import SocketTransportSink

captured = []

class CaptureSink(ClientMessageSink):
  def __init__(self, next_provider, sink_properties, global_properties):
    super(CaptureSink, self).__init__()
  def Open(self):
    return AsyncResult.Complete()
  def Close(self):
    pass
  @property
  def state(self):
    return ChannelState.Open
  def AsyncProcessRequest(self, sink_stack, msg, stream, headers):
    captured.append(stream.getvalue())
    sink_stack.AsyncProcessResponseMessage(MethodReturnMessage(error=Exception('captured')))
  def AsyncProcessResponse(self, sink_stack, context, stream, msg):
    pass

CaptureProvider = SinkProvider(CaptureSink, SinkRole.Transport)

TIMEOUT = 7
client = ThriftMux.NewBuilder(Hello.Iface, client_id='demo-client') \
  .SetUri('tcp://127.0.0.1:9090') \
  .SetTimeout(TIMEOUT) \
  .ReplaceSink(SocketTransportSink.Builder, CaptureProvider()) \
  .Build()

t0 = time.time()
try:
  client.hi('payload')
except Exception:
  pass
assert len(captured) == 1, 'expected exactly one dispatch, got %d' % len(captured)
body = captured[0]

# Independent decoder of a Tdispatch body.
pos = 0
def take(n):
  global pos
  b = body[pos:pos + n]
  assert len(b) == n, 'truncated body'
  pos += n
  return b
nctx, = struct.unpack('!h', take(2))
ctx = {}
for _ in range(nctx):
  klen, = struct.unpack('!h', take(2)); k = take(klen).decode('utf-8')
  vlen, = struct.unpack('!h', take(2)); v = take(vlen)
  ctx[k] = v
dst_len, = struct.unpack('!h', take(2)); take(dst_len)
ndtab, = struct.unpack('!h', take(2))
proto = TBinaryProtocol(TMemoryBuffer(body[pos:]))
name, _, _ = proto.readMessageBegin()
args = Hello.hi_args(); args.read(proto)

print('decoded: contexts=%r dst_len=%d dtab=%d call=%s(%r)' % (sorted(ctx), dst_len, ndtab, name, args.test_data))
ok = True
if (name, args.test_data, dst_len, ndtab) != ('hi', 'payload', 0, 0):
  print('OBSERVED wrong call/dst/dtab'); ok = False
if ctx.get('com.twitter.finagle.thrift.ClientIdContext') != b'demo-client':
  print('OBSERVED client id context %r; EXPECTED b"demo-client"' % ctx.get('com.twitter.finagle.thrift.ClientIdContext')); ok = False
dl = ctx.get('com.twitter.finagle.Deadline')
if dl is None:
  print('OBSERVED: dispatch body of a call with a %ds timeout carries contexts %r -- no deadline entry' % (TIMEOUT, sorted(ctx)))
  print('EXPECTED: a "com.twitter.finagle.Deadline" context entry (16 bytes: timestamp, deadline) (C13)')
  ok = False
elif len(dl) != 16:
  print('OBSERVED deadline entry of %d bytes; EXPECTED 16' % len(dl)); ok = False
else:
  ts, deadline = struct.unpack('!qq', dl)
  lo, hi = (t0 + TIMEOUT - 1) * 1e9, (t0 + TIMEOUT + 1) * 1e9
  if not (lo <= deadline <= hi):
    print('OBSERVED deadline %d ns; EXPECTED about %d ns' % (deadline, (t0 + TIMEOUT) * 1e9)); ok = False
sys.exit(0 if ok else 1)
