"""An in-memory stand-in for a KazooClient, good enough for kazoo's own
DataWatch / ChildrenWatch recipes and for scales.loadbalancer.zookeeper.ServerSet.
No network, no threads; watches are one-shot and fired on fresh greenlets.
"""
import json
import posixpath

import gevent
from kazoo.client import KazooClient
from kazoo.exceptions import NoNodeError, NodeExistsError
from kazoo.handlers.gevent import SequentialGeventHandler
from kazoo.protocol.states import WatchedEvent, ZnodeStat


class FakeZk(KazooClient):
  def __init__(self):  # deliberately does not call KazooClient.__init__
    self.handler = SequentialGeventHandler()
    self._nodes = {}          # path -> (data, czxid, mzxid)
    self._zxid = 0
    self._data_watches = {}   # path -> [fn]
    self._child_watches = {}  # path -> [fn]

  # -- the bits of the KazooClient surface the recipes use -------------------
  connected = property(lambda self: True)

  def start(self, timeout=None): pass
  def stop(self): pass
  def add_listener(self, l): pass
  def remove_listener(self, l): pass

  def retry(self, fn, *args, **kwargs):
    return fn(*args, **kwargs)

  def _stat(self, path):
    data, czxid, mzxid = self._nodes[path]
    return ZnodeStat(czxid, mzxid, 0, 0, 0, 0, 0, 0, len(data),
                     len(self._children(path)), 0)

  def _children(self, path):
    return sorted(posixpath.basename(p) for p in self._nodes
                  if posixpath.dirname(p) == path and p != path)

  def exists(self, path, watch=None):
    if watch:
      self._data_watches.setdefault(path, []).append(watch)
    if path not in self._nodes:
      return None
    return self._stat(path)

  def get(self, path, watch=None):
    if path not in self._nodes:
      raise NoNodeError()
    if watch:
      self._data_watches.setdefault(path, []).append(watch)
    return self._nodes[path][0], self._stat(path)

  def get_children(self, path, watch=None, include_data=False):
    if path not in self._nodes:
      raise NoNodeError()
    if watch:
      self._child_watches.setdefault(path, []).append(watch)
    return self._children(path)

  # -- mutation of the tree ---------------------------------------------------
  def _fire(self, table, path, ev_type):
    fns = table.pop(path, [])
    ev = WatchedEvent(ev_type, 'CONNECTED', path)
    for fn in fns:
      gevent.spawn(fn, ev)

  def create(self, path, value=b'', **kwargs):
    if path in self._nodes:
      raise NodeExistsError()
    self._zxid += 1
    self._nodes[path] = (value, self._zxid, self._zxid)
    self._fire(self._data_watches, path, 'CREATED')
    self._fire(self._child_watches, posixpath.dirname(path), 'CHILD')

  def delete(self, path, **kwargs):
    if path not in self._nodes:
      raise NoNodeError()
    for p in [p for p in self._nodes if p.startswith(path + '/')]:
      del self._nodes[p]
    del self._nodes[path]
    self._zxid += 1
    self._fire(self._data_watches, path, 'DELETED')
    self._fire(self._child_watches, path, 'DELETED')
    self._fire(self._child_watches, posixpath.dirname(path), 'CHILD')


def member_json(host, port, shard=None):
  blob = {
    'serviceEndpoint': {'host': host, 'port': port},
    'additionalEndpoints': {},
    'status': 'ALIVE',
  }
  if shard is not None:
    blob['shard'] = shard
  return json.dumps(blob).encode('utf-8')


def settle(rounds=20):
  """Let every runnable greenlet (watch callbacks, the notification worker) run."""
  for _ in range(rounds):
    gevent.sleep(0.005)
