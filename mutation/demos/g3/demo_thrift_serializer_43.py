"""C14: for EVERY method of a Thrift interface the request bytes must be a binary-protocol
call that the Thrift library's server-side processor decodes to the same method and
arguments, and the reply must yield the server's return value.

Interface used here: a service that extends test/scales/thrift's Hello service (one level
of Thrift service inheritance, `service Derived extends Hello { string bye(1: string s) }`),
laid out the way the Thrift compiler lays it out: the derived Iface/args/result classes live
in their own module (this file), the inherited method's hi_args/hi_result live in Hello.py.

  scales/thrift/serializer.py:35  `== 1` -> `== 2`   : a service with exactly one base is
      treated as "no inheritance"; inherited methods (hi) can no longer be serialized.
  scales/thrift/serializer.py:43  `if cls:` -> `if not (cls):` : the inheritance lookup
      always answers None; no method of an inherited service can be serialized.
"""
import sys

from thrift.Thrift import TMessageType
from thrift.protocol.TBinaryProtocol import TBinaryProtocol
from thrift.transport.TTransport import TMemoryBuffer

from scales.compat import BytesIO
from scales.constants import SinkProperties
from scales.message import MethodCallMessage, MethodReturnMessage
from scales.sink import ClientMessageSink, ClientMessageSinkStack, SinkProviderBase
from scales.thrift.sink import ThriftSerializerSink
from test.scales.thrift.gen_py.hello import Hello   # only the module is imported, as generated code does


# ---- "generated" code of the derived service -------------------------------------
class Iface(Hello.Iface):
  def bye(self, test_data):
    pass

class bye_args(Hello.hi_args):      # bye(1: string test_data)
  pass

class bye_result(Hello.hi_result):  # string success
  pass

class Processor(Hello.Processor):
  def __init__(self, handler):
    Hello.Processor.__init__(self, handler)
    self._processMap['bye'] = Processor.process_bye

  def process_bye(self, seqid, iprot, oprot):
    args = bye_args()
    args.read(iprot)
    iprot.readMessageEnd()
    result = bye_result()
    result.success = self._handler.bye(args.test_data)
    oprot.writeMessageBegin('bye', TMessageType.REPLY, seqid)
    result.write(oprot)
    oprot.writeMessageEnd()
    oprot.trans.flush()


# ---- server side: the Thrift library's processor with a recording handler ---------
class Handler(object):
  def __init__(self):
    self.calls = []
  def hi(self, s):
    self.calls.append(('hi', s)); return 'hi<' + s + '>'
  def bye(self, s):
    self.calls.append(('bye', s)); return 'bye<' + s + '>'


# ---- client side plumbing ----------------------------------------------------------
class Capture(ClientMessageSink):
  """Stands where the transport would be: records the serialized request."""
  def __init__(self):
    super(Capture, self).__init__()
    self.sent = []
  def AsyncProcessRequest(self, sink_stack, msg, stream, headers):
    self.sent.append(stream.getvalue())
  def AsyncProcessResponse(self, sink_stack, context, stream, msg):
    pass

class CaptureProvider(SinkProviderBase):
  def __init__(self):
    super(CaptureProvider, self).__init__()
    self.sink = Capture()
  def CreateSink(self, properties):
    return self.sink
  @property
  def sink_class(self):
    return Capture

class Terminal(ClientMessageSink):
  def __init__(self):
    super(Terminal, self).__init__()
    self.got = []
  def AsyncProcessRequest(self, *a): raise NotImplementedError()
  def AsyncProcessResponse(self, sink_stack, context, stream, msg):
    self.got.append(msg)


def main():
  provider = ThriftSerializerSink.Builder()
  capture = CaptureProvider()
  provider.next_provider = capture
  ser = provider.CreateSink({SinkProperties.ServiceInterface: Iface, SinkProperties.Label: 'demo'})

  failures = []
  for method, arg in (('hi', u'inherited-Ω'), ('bye', u'own-Ω')):
    terminal = Terminal()
    stack = ClientMessageSinkStack()
    stack.Push(terminal)
    n_before = len(capture.sink.sent)
    ser.AsyncProcessRequest(stack, MethodCallMessage(Iface, method, (arg,), {}), None, {})
    if len(capture.sink.sent) == n_before:
      err = terminal.got[0].error if terminal.got else None
      failures.append('%s(%r): expected a binary-protocol call to reach the transport, '
                      'observed no bytes and the caller failed with %r' % (method, arg, err))
      continue
    request = capture.sink.sent[-1]

    handler = Handler()
    itrans, otrans = TMemoryBuffer(request), TMemoryBuffer()
    Processor(handler).process(TBinaryProtocol(itrans), TBinaryProtocol(otrans))
    if handler.calls != [(method, arg)]:
      failures.append('%s(%r): processor decoded %r' % (method, arg, handler.calls))
      continue

    stack.AsyncProcessResponseStream(BytesIO(otrans.getvalue()))
    msg = terminal.got[0] if terminal.got else None
    expected = '%s<%s>' % (method, arg)
    if not isinstance(msg, MethodReturnMessage) or msg.error or msg.return_value != expected:
      failures.append('%s(%r): expected return value %r, observed value=%r error=%r' % (
        method, arg, expected, getattr(msg, 'return_value', None), getattr(msg, 'error', None)))

  if failures:
    for f in failures:
      print('FAIL C14: ' + f)
    return 1
  print('OK: inherited and own methods of the derived interface round-trip through the Thrift processor')
  return 0


if __name__ == '__main__':
  sys.exit(main())
