"""usage: demo_mutate.py <file> <line> <old> <new>   -- replace <old> by <new> on that one line
(line endings preserved). Undo with `git checkout -- scales`."""
import sys
path, line, old, new = sys.argv[1], int(sys.argv[2]), sys.argv[3], sys.argv[4]
lines = open(path, newline='').read().split('\n')
assert old in lines[line - 1], (lines[line - 1], old)
lines[line - 1] = lines[line - 1].replace(old, new, 1)
open(path, 'w', newline='').write('\n'.join(lines))
print('mutated %s:%d -> %s' % (path, line, lines[line - 1].strip()))
