"""C19 (and, through the ZooKeeper provider, C05): after the consumer has listed the
members once (ServerSet.get_members(), which is what ZooKeeperServerSetProvider.GetServers
does while a balancer opens), later joins/leaves must still be delivered.

scales/loadbalancer/zookeeper.py:155  `if self._count == 0:` -> `if not (self._count == 0):`
leaves the _CallbackBlocker event cleared for ever after the first listing, so the
notification worker never delivers another join or leave.
"""
import sys
import gevent

from scales.loadbalancer.zookeeper import ServerSet
from demo_util_fakezk import FakeZk, member_json, settle

zk = FakeZk()
zk.create('/svc')
zk.create('/svc/member_0001', member_json('h1', 1001))

held = {}
log = []
def on_join(m):
  log.append(('join', m.name)); held[m.name] = m
def on_leave(m):
  log.append(('leave', m.name)); held.pop(m.name, None)

ss = ServerSet(zk, '/svc', on_join, on_leave)
settle()
if sorted(held) != ['member_0001']:
  print('SETUP PROBLEM: initial join not delivered, held=%r' % sorted(held))
  sys.exit(2)

# What LoadBalancerSink._OpenImpl does right after Initialize(): list the members.
listed = sorted(m.name for m in ss.get_members())
assert listed == ['member_0001'], listed

# Now the membership changes.
zk.create('/svc/member_0002', member_json('h2', 1002))
settle()
zk.delete('/svc/member_0001')
settle()

present = sorted(zk.get_children('/svc'))
ss.stop()
print('events delivered: %r' % log)
if sorted(held) != present:
  print('FAIL C19: members present in ZooKeeper = %r, but the consumer, applying the '
        'delivered joins/leaves in order, holds %r' % (present, sorted(held)))
  sys.exit(1)
print('OK: consumer holds exactly %r' % present)
sys.exit(0)
