"""C13 (dispatch-body clause) and C02 for the ThriftMux stack: a method call must be written
to the multiplexed connection as a Tdispatch frame (length, type, 24-bit tag, contexts, empty
dst/dtab, Thrift call) that an independent decoder + the Thrift library's processor recover
as the very method/arguments the caller passed, and the caller must get the value the server
produced for it.

  scales/thriftmux/serializer.py:35  `self._thrift_serializer = ThriftMessageSerializer(service_cls)`
  -> `pass`: marshalling any MethodCallMessage raises AttributeError, so no Tdispatch frame is
  ever written and every ThriftMux call fails locally.

Real code exercised: ThriftMuxMessageSerializerSink -> thriftmux SocketTransportSink, over an
in-memory socket with a tiny mux server (answers Tping, decodes Tdispatch, replies Rdispatch).
"""
import struct
import sys

import gevent
from gevent.queue import Queue
from thrift.protocol.TBinaryProtocol import TBinaryProtocol
from thrift.transport.TTransport import TMemoryBuffer

from scales.constants import SinkProperties
from scales.message import MethodCallMessage, MethodReturnMessage
from scales.sink import ClientMessageSink, ClientMessageSinkStack, SinkProviderBase
from scales.thriftmux.sink import SocketTransportSink, ThriftMuxMessageSerializerSink
from test.scales.thrift.gen_py.hello import Hello


class PipeSocket(object):
  """In-memory socket: client writes go to `to_server`, client reads come from `to_client`."""
  host, port = 'mem', 1
  def __init__(self):
    self.to_server = Queue()
    self.to_client = Queue()
    self._buf = b''
    self._open = False
  def open(self): self._open = True
  def close(self): self._open = False
  def isOpen(self): return self._open
  def write(self, data): self.to_server.put(bytes(data))
  def readAll(self, sz):
    while len(self._buf) < sz:
      self._buf += self.to_client.get()
    out, self._buf = self._buf[:sz], self._buf[sz:]
    return out


class Handler(object):
  def __init__(self): self.calls = []
  def hi(self, s):
    self.calls.append(('hi', s)); return 'hi<' + s + '>'


class MuxServer(object):
  """Independent decoder of what the client writes."""
  def __init__(self, sock):
    self.sock, self.handler, self.dispatches, self.problems = sock, Handler(), [], []
    self._buf = b''
  def _read(self, n):
    while len(self._buf) < n:
      self._buf += self.sock.to_server.get()
    out, self._buf = self._buf[:n], self._buf[n:]
    return out
  def run(self):
    while True:
      length, = struct.unpack('!i', self._read(4))
      frame = self._read(length)
      mtype, = struct.unpack('!b', frame[:1])
      tag = int.from_bytes(frame[1:4], 'big')
      body = frame[4:]
      if mtype == 65:      # Tping -> Rping
        self.sock.to_client.put(struct.pack('!ibBBB', 4, -65, *frame[1:4]))
      elif mtype == 2:     # Tdispatch
        pos = 0
        nctx, = struct.unpack('!h', body[pos:pos + 2]); pos += 2
        ctx = {}
        for _ in range(nctx):
          kl, = struct.unpack('!h', body[pos:pos + 2]); pos += 2
          k = body[pos:pos + kl]; pos += kl
          vl, = struct.unpack('!h', body[pos:pos + 2]); pos += 2
          v = body[pos:pos + vl]; pos += vl
          ctx[k.decode('utf-8')] = v
        dst_len, = struct.unpack('!h', body[pos:pos + 2]); pos += 2 + dst_len
        ndtab, = struct.unpack('!h', body[pos:pos + 2]); pos += 2
        if dst_len or ndtab:
          self.problems.append('non-empty dst/dtab')
        itrans, otrans = TMemoryBuffer(body[pos:]), TMemoryBuffer()
        Hello.Processor(self.handler).process(TBinaryProtocol(itrans), TBinaryProtocol(otrans))
        self.dispatches.append((tag, ctx))
        reply = struct.pack('!bh', 0, 0) + otrans.getvalue()   # Rstatus.OK, no contexts
        self.sock.to_client.put(struct.pack('!ibBBB', 4 + len(reply), -2, *frame[1:4]) + reply)
      else:
        self.problems.append('unexpected frame type %d' % mtype)


class FixedProvider(SinkProviderBase):
  def __init__(self, sink):
    super(FixedProvider, self).__init__()
    self._sink = sink
  def CreateSink(self, properties): return self._sink
  @property
  def sink_class(self): return type(self._sink)


class Terminal(ClientMessageSink):
  def __init__(self):
    super(Terminal, self).__init__()
    self.got = Queue()
  def AsyncProcessRequest(self, *a): raise NotImplementedError()
  def AsyncProcessResponse(self, sink_stack, context, stream, msg):
    self.got.put(msg)


def main():
  sock = PipeSocket()
  server = MuxServer(sock)
  server_g = gevent.spawn(server.run)

  transport = SocketTransportSink(sock, 'demo')
  props = {SinkProperties.ServiceInterface: Hello.Iface, SinkProperties.Label: 'demo'}
  ser = ThriftMuxMessageSerializerSink(FixedProvider(transport), None, props)
  ser.Open().get(timeout=5)

  terminal = Terminal()
  stack = ClientMessageSinkStack()
  stack.Push(terminal)
  call = MethodCallMessage(Hello.Iface, 'hi', (u'arg-Ω',), {})
  call.properties[u'caller-prop'] = u'v-Ω'
  ser.AsyncProcessRequest(stack, call, None, {})
  try:
    msg = terminal.got.get(timeout=5)
  except gevent.queue.Empty:
    msg = None
  gevent.sleep(0.01)
  server_g.kill()
  transport.Close()

  failures = list(server.problems)
  if server.handler.calls != [('hi', u'arg-Ω')]:
    failures.append("expected the server to receive one Tdispatch decoding to hi('arg-Ω'), "
                    'observed calls=%r dispatch frames=%r' % (server.handler.calls, server.dispatches))
  else:
    tag, ctx = server.dispatches[0]
    if not (2 <= tag <= 2 ** 24 - 2):
      failures.append('tag %d out of range' % tag)
    if ctx != {u'caller-prop': u'v-Ω'.encode('utf-8')}:
      failures.append('contexts decoded as %r' % ctx)
  if not isinstance(msg, MethodReturnMessage) or msg.error or msg.return_value != u'hi<arg-Ω>':
    failures.append("expected the caller to get 'hi<arg-Ω>', observed value=%r error=%r" % (
      getattr(msg, 'return_value', None), getattr(msg, 'error', None)))

  if failures:
    for f in failures:
      print('FAIL C13/C02: ' + f)
    return 1
  print('OK: Tdispatch frame decoded to hi(arg-Ω) with the caller context; caller got the reply')
  return 0


if __name__ == '__main__':
  sys.exit(main())
