"""C19, for a consumer that registers only ONE of the two (optional) callbacks.

scales/loadbalancer/zookeeper.py:202  `if on_join or on_leave:` -> `if on_join and on_leave:`
A ServerSet given only on_join (or only on_leave) no longer starts watching, so no
notification is ever delivered to that consumer.

 (a) join-only consumer, create-only history: the joins delivered must leave it holding
     exactly the members present.
 (b) leave-only consumer that starts from a get_members() snapshot, delete-only history.
(The library's own consumer, LoadBalancerSink, always passes both callbacks.)
"""
import sys

from scales.loadbalancer.zookeeper import ServerSet
from demo_util_fakezk import FakeZk, member_json, settle

failures = []

# (a) only on_join
zk = FakeZk()
zk.create('/svc')
held = {}
ss = ServerSet(zk, '/svc', on_join=lambda m: held.__setitem__(m.name, m))
settle()
zk.create('/svc/member_0001', member_json('h1', 1001))
settle()
zk.create('/svc/member_0002', member_json('h2', 1002))
settle()
present = sorted(zk.get_children('/svc'))
ss.stop()
if sorted(held) != present:
  failures.append('(a) join-only consumer: present=%r, consumer holds %r' % (present, sorted(held)))

# (b) only on_leave, starting from a snapshot
zk = FakeZk()
zk.create('/svc')
zk.create('/svc/member_0001', member_json('h1', 1001))
zk.create('/svc/member_0002', member_json('h2', 1002))
held = {}
ss = ServerSet(zk, '/svc', on_leave=lambda m: held.pop(m.name, None))
settle()
for m in ss.get_members():
  held[m.name] = m
zk.delete('/svc/member_0001')
settle()
present = sorted(zk.get_children('/svc'))
ss.stop()
if sorted(held) != present:
  failures.append('(b) leave-only consumer: present=%r, consumer holds %r' % (present, sorted(held)))

if failures:
  for f in failures:
    print('FAIL C19: ' + f)
  sys.exit(1)
print('OK: single-callback consumers hold exactly the members present')
sys.exit(0)
