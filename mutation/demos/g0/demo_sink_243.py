"""Demo for mutation scales/kafka/sink.py:243
(`err_code == ErrorCode.NoError` -> `not (err_code == ErrorCode.NoError)`).

Property C15 (last sentence): "Produce and metadata responses decode to exactly
the topic/partition/error/offset ... the broker encoded, and a reply is
delivered to the request with the same correlation id."

Step 1: the fake broker answers a Put (under the request's correlation id) with
a well-formed ProduceResponse, error 0 / offset 42.  Original: that reply is
delivered to the Put call.  Mutated: the successful reply is discarded and the
caller gets KafkaError('Kafka broker returned error 0').

Step 2 (informational, same mutation): the broker answers error 2
(InvalidMessage).  Original: KafkaError(error_code=2) is raised.  Mutated: the
error reply is returned as if the Put had succeeded.

Exit 0: step 1 returned exactly what the broker encoded and step 2 raised
KafkaError(2).  Exit 1 otherwise.
"""
import sys

import demo_kafka_fakebroker as fb
from scales.kafka.protocol import KafkaError, ProduceResponse


def put(client):
  try:
    return 'returned', client.Put(fb.TOPIC, [b'hello'])
  except Exception as ex:  # pylint: disable=broad-except
    return 'raised', getattr(ex, 'inner_exception', None) or ex


def main():
  client = fb.new_client()
  rc = 0

  expected = [ProduceResponse(fb.TOPIC, 0, 0, fb.OFFSET)]
  kind, val = put(client)
  print('broker produce requests (correlation ids) %r, replies %r'
        % ([c for k, c in fb.BROKER.requests if k == 0],
           [c for k, c, _ in fb.BROKER.replies if k == 0]))
  if kind == 'returned' and val == expected:
    print('step 1 OK: Put returned %r' % (val,))
  else:
    print('VIOLATION of C15 (step 1): expected the broker reply %r to be delivered to the Put call, '
          'observed: Put %s %r' % (expected, kind, val))
    rc = 1

  fb.BROKER.produce_error_code = 2
  kind, val = put(client)
  if kind == 'raised' and isinstance(val, KafkaError) and val.error_code == 2:
    print('step 2 OK: broker error 2 raised as %r' % (val,))
  else:
    print('step 2: expected KafkaError(error_code=2) for a broker reply with error 2, '
          'observed: Put %s %r' % (kind, val))
    rc = 1
  return rc


if __name__ == '__main__':
  sys.exit(main())
