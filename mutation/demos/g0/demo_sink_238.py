"""Demo for mutation scales/kafka/sink.py:238 (`len(msg.return_value) != 1` -> `!= 2`).

Property C15 (last sentence): "Produce and metadata responses decode to exactly
the topic/partition/error/offset ... the broker encoded, and a reply is
delivered to the request with the same correlation id."

A Put through the public Kafka client produces one ProduceRequest (one topic,
one partition); the fake broker answers it, under the request's correlation id,
with a well-formed ProduceResponse (error 0, offset 42).  On the original code
that reply is delivered to the Put call.  With the mutation every one-entry
produce reply (the only kind a scales ProduceRequest can get) is replaced by
Exception('Invalid response from kafka: unexpected return value'), i.e. the
reply is never delivered to its request.

Exit 0: Put returned exactly what the broker encoded.  Exit 1 otherwise.
"""
import sys

import demo_kafka_fakebroker as fb
from scales.kafka.protocol import ProduceResponse


def main():
  client = fb.new_client()
  expected = [ProduceResponse(fb.TOPIC, 0, 0, fb.OFFSET)]
  try:
    got = client.Put(fb.TOPIC, [b'hello'])
    outcome = 'returned %r' % (got,)
    ok = (got == expected)
  except Exception as ex:  # pylint: disable=broad-except
    inner = getattr(ex, 'inner_exception', None) or ex
    outcome = 'raised %s: %s' % (type(inner).__name__, inner)
    ok = False

  produce_reqs = [c for k, c in fb.BROKER.requests if k == 0]
  produce_reps = [c for k, c, _ in fb.BROKER.replies if k == 0]
  print('broker saw produce requests with correlation ids %r and answered ids %r (error 0, offset %d)'
        % (produce_reqs, produce_reps, fb.OFFSET))
  if ok:
    print('OK: Put %s' % outcome)
    return 0
  print('VIOLATION of C15: expected the broker reply %r to be delivered to the Put call, '
        'observed: Put %s' % (expected, outcome))
  return 1


if __name__ == '__main__':
  sys.exit(main())
