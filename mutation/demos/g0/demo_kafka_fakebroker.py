"""In-process fake Kafka broker used by demo_sink_238.py / demo_sink_243.py.

No network: scales.sink.ScalesSocket is replaced by a socket whose peer is a
small Kafka v0 broker implemented here.  The complete public Kafka client stack
(Kafka.NewBuilder(): router, heap balancer, serializer, shared sink,
resurrector, mux transport) runs unmodified on top of it.
"""
import struct

import gevent
from gevent.event import Event

import scales.sink as sink_mod
from scales.scales_socket import ScalesSocket

BROKER_HOST = b'kbroker'
BROKER_PORT = 9092
TOPIC = b'topic1'
OFFSET = 42


class Broker(object):
  def __init__(self):
    self.produce_error_code = 0
    self.requests = []     # (api_key, correlation_id)
    self.replies = []      # (api_key, correlation_id, reply body bytes)

  @staticmethod
  def _str(s):
    return struct.pack('!h', len(s)) + s

  def metadata_body(self):
    b = struct.pack('!i', 1)                                   # one broker
    b += struct.pack('!i', 1) + self._str(BROKER_HOST) + struct.pack('!i', BROKER_PORT)
    b += struct.pack('!i', 1)                                   # one topic
    b += struct.pack('!h', 0) + self._str(TOPIC) + struct.pack('!i', 1)
    b += struct.pack('!hii', 0, 0, 1)                           # partition 0, leader 1
    b += struct.pack('!ii', 1, 1) + struct.pack('!ii', 1, 1)    # replicas, isr
    return b

  def produce_body(self):
    return (struct.pack('!i', 1) + self._str(TOPIC) + struct.pack('!i', 1) +
            struct.pack('!ihq', 0, self.produce_error_code, OFFSET))

  def handle(self, frame):
    """frame: one complete request (without the 4 byte size).  Returns reply bytes."""
    api_key, version, corr, cid_len = struct.unpack('!hhih', frame[:10])
    self.requests.append((api_key, corr))
    if api_key == 3:
      body = self.metadata_body()
    elif api_key == 0:
      body = self.produce_body()
    else:
      raise Exception('fake broker: unexpected api key %d' % api_key)
    self.replies.append((api_key, corr, body))
    payload = struct.pack('!i', corr) + body
    return struct.pack('!i', len(payload)) + payload


BROKER = Broker()


class FakeHandle(object):
  def __init__(self):
    self._in = bytearray()      # bytes written by the client, not yet framed
    self._out = bytearray()     # bytes the client can read
    self._readable = Event()

  def setsockopt(self, *a):
    pass

  def sendall(self, buf):
    self._in += buf
    while len(self._in) >= 4:
      sz, = struct.unpack('!i', bytes(self._in[:4]))
      if len(self._in) < 4 + sz:
        break
      frame = bytes(self._in[4:4 + sz])
      del self._in[:4 + sz]
      self._out += BROKER.handle(frame)
      self._readable.set()

  def recv_into(self, view, sz):
    while not self._out:
      self._readable.clear()
      self._readable.wait()
    n = min(sz, len(self._out))
    view[:n] = bytes(self._out[:n])
    del self._out[:n]
    return n

  def close(self):
    pass


class FakeSocket(ScalesSocket):
  def open(self):
    self.handle = FakeHandle()

  def close(self):
    self.handle = None


def install():
  sink_mod.ScalesSocket = FakeSocket


def new_client(timeout=2):
  from scales.kafka.builder import Kafka
  install()
  return Kafka.NewBuilder() \
    .SetUri('tcp://kbroker:9092') \
    .SetTimeout(timeout) \
    .Build()
