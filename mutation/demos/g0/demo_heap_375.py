"""Demo for mutation scales/loadbalancer/heap.py:375 (`self._open = False` -> `pass`
in HeapBalancerSink.Close).

Property C09 (last clause): "after the client is closed no further reconnection
attempts are made."

History: a Thrift client (public builder; aperture balancer, resurrector,
watermark pool, serial transport) over two endpoints; min_size=1 so one member
is active and one is held idle.  The client is closed, then both endpoints
become unreachable.  The aperture's jitter timer (never cancelled by Close)
fires after the close and moves the idle member into the heap.  On the original
code the balancer is no longer `_open`, so the new node is not opened: no
connect is ever attempted after the close.  With the mutation `_open` stays
True, the node is opened, the connect is refused, the resurrector starts its
retry loop and keeps reconnecting for ever although the client is closed.

Exit 0: no connect attempt after DispatcherClose().  Exit 1 otherwise.
"""
import socket
import sys
import time

import gevent

import scales.sink as sink_mod
from scales.scales_socket import ScalesSocket
from scales.constants import SinkRole
from scales.loadbalancer import ApertureBalancerSink
from scales.resurrector import ResurrectorSink
from scales.thrift.builder import Thrift

from test.scales.thrift.gen_py.hello import Hello

REACHABLE = {'up': True}
ATTEMPTS = []   # (monotonic time, 'host:port', outcome)


class FakeHandle(object):
  def setsockopt(self, *a): pass
  def sendall(self, buf): pass
  def recv_into(self, buf, sz):
    gevent.sleep(3600)
    return 0
  def close(self): pass


class FakeSocket(ScalesSocket):
  """No network: connect succeeds or is refused according to REACHABLE."""
  def open(self):
    ok = REACHABLE['up']
    ATTEMPTS.append((time.time(), '%s:%d' % (self.host, self.port),
                     'connected' if ok else 'refused'))
    if not ok:
      raise socket.error(111, 'Connection refused (fake)')
    self.handle = FakeHandle()

  def close(self):
    self.handle = None


sink_mod.ScalesSocket = FakeSocket


def main():
  client = Thrift.NewBuilder(Hello.Iface) \
    .ReplaceRole(SinkRole.LoadBalancer,
                 ApertureBalancerSink.Builder(min_size=1,
                                              jitter_min_sec=2,
                                              jitter_max_sec=2)) \
    .ReplaceSink(ResurrectorSink.Builder,
                 ResurrectorSink.Builder(initial_wait_interval=0.2,
                                         max_wait_interval=0.5,
                                         backoff_exponent=1.0)) \
    .SetUri('tcp://hosta:1001,hostb:1002') \
    .SetTimeout(1) \
    .Build()

  before_close = list(ATTEMPTS)
  print('connects while opening the client: %r' % [(a[1], a[2]) for a in before_close])
  if len(before_close) != 1 or before_close[0][2] != 'connected':
    print('SETUP PROBLEM: expected exactly one successful connect (1 active member, 1 idle)')
    return 2

  client.DispatcherClose()
  t_close = time.time()
  REACHABLE['up'] = False      # every endpoint is unreachable from now on
  print('client closed; endpoints now unreachable; waiting 5s (jitter timer fires at ~2-3s)')
  gevent.sleep(5)

  after = [a for a in ATTEMPTS[len(before_close):]]
  if after:
    print('VIOLATION of C09: expected 0 connection attempts after the client was closed, '
          'observed %d:' % len(after))
    for t, ep, outcome in after[:8]:
      print('   +%.2fs after close: connect to %s -> %s' % (t - t_close, ep, outcome))
    if len(after) > 8:
      print('   ... and %d more (resurrector retry loop still running)' % (len(after) - 8))
    return 1
  print('OK: no connection attempt after the client was closed')
  return 0


if __name__ == '__main__':
  sys.exit(main())
