"""End-to-end acceptance harness: the Thrift and ThriftMux clients built by the public builders, over
the fake network, with scripted servers.  Produces an event log that the Lean monitors
(Adapter/E2E.lean) judge.  The real system's internal scheduling is not predicted here."""
from struct import pack, unpack

from lib import vfmt


# ------------------------------------------------------------------ script generation
def gen_script(rng, tier, focus=None):
    if focus == 'lastleave':
        # the last member(s) leave the server set while several calls are in flight on them (no reply yet); the calls'
        # deadlines pass while the set is empty; the late replies arrive afterwards; members may come back
        stack = rng.choice(['mux', 'mux', 'thrift'])
        neps = rng.choice([1, 1, 2])
        steps = [['srv', ep, 'hold', 5] for ep in range(neps)] + [['adv', 50]]
        for _ in range(rng.choice([2, 3, 4])):
            steps.append(['call', rng.choice([5, 10, 20]) * 10 + rng.randrange(1, 10)])
            if rng.random() < 0.4:
                steps.append(['adv', rng.choice([1, 11, 31])])
        order = list(range(neps))
        rng.shuffle(order)
        for ep in order:
            steps.append(['leave', ep])
        steps += [['adv', rng.choice([60, 130, 250])]]
        if rng.random() < 0.5:
            steps += [['join', order[0]], ['adv', 20]]
        steps += [['release', ep, rng.choice(['fifo', 'lifo'])] for ep in range(neps)]
        steps += [['adv', 300], ['call', 107], ['adv', 300]]
        return {'stack': stack, 'neps': neps, 'open_delay': 0, 'pool': None, 'steps': steps, 'aged': False,
                'provider': 'zk', 'zk_own': rng.random() < 0.5}
    if focus == 'slowpeer':
        # a peer that stops reading: the write of one call blocks, later calls wait behind it (mux: in the send queue;
        # thrift: for the pooled connection), deadlines pass meanwhile, then the peer reads again
        stack = rng.choice(['mux', 'mux', 'thrift'])
        steps = [['srv', 0, rng.choice(['echo', 'echo', 'delay']), 5], ['adv', 50]]
        if rng.random() < 0.5:
            steps += [['call', 107], ['adv', 20]]
        steps.append(['stall', 0])
        for _ in range(rng.choice([2, 3, 5])):
            steps.append(['call', rng.choice([3, 5, 10]) * 10 + rng.randrange(1, 10)])
            if rng.random() < 0.3:
                steps.append(['adv', rng.choice([1, 11, 31])])
        steps += [['adv', rng.choice([40, 60, 120])], ['unstall', 0], ['adv', 50]]
        if rng.random() < 0.5:
            steps += [['call', 107], ['adv', 200]]
        steps.append(['adv', 400])
        return {'stack': stack, 'neps': 1, 'open_delay': 0, 'pool': [1, 1, 100] if stack == 'thrift' else None,
                'steps': steps, 'aged': False}
    if focus == 'resume' and rng.random() < 0.4:
        # two endpoints failing in turn under light sequential traffic, then both back, then silence for more than the
        # maximum retry interval: every member that refused a connection must have been tried again
        stack = rng.choice(['thrift', 'mux'])
        steps = [['srv', 0, 'echo', 5], ['srv', 1, 'echo', 5], ['adv', 50], ['call', 107], ['adv', 20]]
        first = rng.randrange(2)
        for ep in (first, 1 - first):
            steps += [['reach', ep, False], ['kill', ep]]
            for _ in range(rng.choice([2, 3, 4])):
                steps += [['call', 107], ['adv', rng.choice([20, 200, 1000])]]
        steps += [['adv', rng.choice([200, 7000])]]
        back = [0, 1] if rng.random() < 0.6 else [rng.randrange(2)]
        steps += [['reach', ep, True] for ep in back]
        steps += [['adv', 30000], ['adv', 32000], ['adv', 5000], ['call', 107], ['adv', 200]]
        return {'stack': stack, 'neps': 2, 'open_delay': 0, 'pool': None, 'steps': steps, 'aged': False,
                'after_close': 'up'}
    if focus == 'resume':
        # C09 on the assembled client with one endpoint: the connection is lost in one of several ways while the
        # endpoint refuses new connections, the endpoint comes back, and the client is left without traffic for longer
        # than the maximum retry interval: it must have tried again by then
        stack = rng.choice(['thrift', 'thrift', 'mux'])
        how = rng.choice(['timeout', 'timeout', 'kill', 'refused-at-open'])
        steps = [['srv', 0, 'echo', 5]]
        if how == 'refused-at-open':
            steps += [['reach', 0, False], ['adv', 50], ['call', 107], ['adv', 300]]
        else:
            steps += [['adv', 50], ['call', 107], ['adv', 20]]
            if how == 'timeout':
                # the server goes silent; the endpoint starts refusing just before the call's deadline passes, so the
                # reconnect the serial transport makes after a timeout is refused
                steps += [['srv', 0, 'hold', 5], ['call', 103], ['adv', rng.choice([50, 95])], ['reach', 0, False],
                          ['adv', 60]]
            else:
                steps += [['reach', 0, False], ['kill', 0], ['call', 107], ['adv', 200]]
        steps += [['adv', rng.choice([1000, 7000, 30000])], ['srv', 0, 'echo', 5], ['reach', 0, True]]
        steps += [['adv', 30000], ['adv', 32000], ['adv', 5000]]
        if rng.random() < 0.5:
            steps += [['call', 107], ['adv', 200]]
        return {'stack': stack, 'neps': 1, 'open_delay': 0, 'pool': None, 'steps': steps, 'aged': False,
                'after_close': 'up'}
    if focus == 'close':
        # C09's last clause on the assembled client: endpoints failing and recovering around traffic, the client closed
        # in the middle of it (also before it has finished opening), then left alone
        stack = rng.choice(['thrift', 'mux'])
        neps = rng.choice([1, 2, 3])
        early = rng.random() < 0.25
        steps = [['srv', ep, 'echo', 5] for ep in range(neps)]
        if rng.random() < 0.4:
            steps.append(['reach', rng.randrange(neps), False])
        if not early:
            steps.append(['adv', 50])
            for _ in range(rng.choice([2, 5, 9])):
                r = rng.random()
                if r < 0.4:
                    steps.append(['call', rng.choice([5, 10, 30]) * 10 + rng.randrange(1, 10)])
                elif r < 0.6:
                    steps.append(['adv', rng.choice([1, 31, 120, 1000, 5000])])
                elif r < 0.75:
                    steps.append(['kill', rng.randrange(neps)])
                else:
                    steps.append(['reach', rng.randrange(neps), rng.random() < 0.4])
        else:
            steps += [['call', 57] for _ in range(rng.choice([0, 1, 2]))]
        sc = {'stack': stack, 'neps': neps, 'open_delay': rng.choice([0, 30, 300]) if early else 0, 'pool': None,
              'steps': steps, 'aged': False, 'after_close': rng.choice(['down', 'up', 'up'])}
        if early and not any(st[0] == 'call' for st in steps) and rng.random() < 0.6:
            sc['close_now'] = True
        if rng.random() < 0.4:
            sc['provider'] = 'zk'
            sc['zk_delay'] = rng.choice([0, 0, 40, 200])
            sc['zk_own'] = rng.random() < 0.5
        return sc
    if focus == 'late':
        # replies that arrive after their call timed out, while later calls are in flight on the same connection
        stack = rng.choice(['mux', 'mux', 'thrift'])
        D = rng.choice([60, 120, 200])
        steps = [['srv', 0, 'delay', D], ['adv', 50]]
        for _ in range(rng.choice([1, 2, 3])):
            T = rng.choice([11, 23, 37, 58])
            steps += [['call', T] for _ in range(rng.choice([1, 2]))]
            steps.append(['adv', T + rng.choice([3, 12, 30])])
            steps += [['call', D + rng.choice([50, 107, 250])] for _ in range(rng.choice([1, 2]))]
            steps.append(['adv', rng.choice([5, 31, D])])
        steps += [['adv', D + 100], ['adv', 400]]
        return {'stack': stack, 'neps': 1, 'open_delay': 0, 'pool': [1, 1, 100] if stack == 'thrift' else None,
                'steps': steps, 'aged': False}
    if focus == 'edge':
        # deadlines that fall a few milliseconds after the moment a hop lets the request through (a connect finishing,
        # a pooled connection coming back, the client's open completing): the window in which a timer that fires
        # early, or a hop that checks late, shows
        v = rng.choice(['connect', 'connect', 'queue', 'preopen'])
        d = rng.choice([20, 30, 40])
        near = lambda: d + rng.randrange(1, 10)
        if v == 'connect':       # every call has to bring up its own connection, which takes d
            steps = [['srv', 0, rng.choice(['echo', 'delay', 'hold']), 5], ['adv', d + 50]]
            for _ in range(rng.choice([1, 2])):
                steps += [['call', near()], ['call', near()], ['adv', d + 60]]
            return {'stack': 'thrift', 'neps': 1, 'open_delay': d, 'pool': [0, 2, 100], 'steps': steps + [['adv', 200]],
                    'aged': False}
        if v == 'queue':         # one connection; the reply that frees it arrives d after the first call was written
            steps = [['srv', 0, 'delay', d], ['adv', 50], ['call', 300]]
            steps += [['call', near()] for _ in range(rng.choice([1, 2]))]
            return {'stack': 'thrift', 'neps': 1, 'open_delay': 0, 'pool': [1, 1, 100],
                    'steps': steps + [['adv', d + 60], ['adv', 300]], 'aged': False}
        steps = [['srv', 0, rng.choice(['echo', 'delay']), 5]]
        steps += [['call', near()] for _ in range(rng.choice([1, 2, 3]))]
        steps += [['call', d - rng.randrange(1, 10)], ['adv', 1], ['adv', d], ['adv', 200]]
        return {'stack': rng.choice(['thrift', 'mux']), 'neps': 1, 'open_delay': d, 'pool': None, 'steps': steps,
                'aged': False}
    if focus == 'aged':
        # a long-lived multiplexed connection (see 'aged' below) with several calls in flight together: small and
        # three-byte tags side by side, replies held back and released in either order, some calls timing out on the wire
        steps = [['srv', 0, rng.choice(['hold', 'hold', 'delay', 'drop']), rng.choice([20, 60])], ['adv', 50]]
        for _ in range(rng.choice([1, 2])):
            for _ in range(rng.choice([3, 5, 8])):
                steps.append(['call', rng.choice([5, 10, 30]) * 10 + rng.randrange(1, 10)])
            steps.append(['adv', rng.choice([1, 5, 31, 70])])
            steps.append(['release', 0, rng.choice(['fifo', 'lifo'])])
            if rng.random() < 0.4:
                steps.append(['srv', 0, rng.choice(['echo', 'hold', 'delay']), 20])
        steps += [['adv', 120], ['release', 0, 'fifo'], ['adv', 700]]
        return {'stack': 'mux', 'neps': 1, 'open_delay': 0, 'pool': None, 'steps': steps, 'aged': True}
    if focus == 'parked':
        # several calls issued back to back so that they wait together between serialization and the wire: queued at
        # a saturated pool, or behind a connect that takes a while
        stack = rng.choice(['thrift', 'thrift', 'mux'])
        neps = rng.choice([1, 1, 2])
        steps = [['srv', ep, rng.choice(['echo', 'echo', 'delay', 'hold', 'empty']), rng.choice([5, 20, 60])] for ep in range(neps)]
        slow = rng.random() < 0.5
        steps.append(['adv', 50])
        for _ in range(rng.choice([1, 2, 3])):
            for _ in range(rng.choice([2, 3, 4, 6])):
                steps.append(['call', rng.choice([5, 10, 30]) * 10 + rng.randrange(1, 10)])
            steps.append(['adv', rng.choice([1, 5, 31, 120])])
            if rng.random() < 0.3:
                steps.append(['release', rng.randrange(neps), rng.choice(['fifo', 'lifo'])])
        steps += [['release', 0, 'fifo'], ['adv', 700]]
        pool = rng.choice([[1, 1, 100], [0, 2, 100], [1, 2, 100]]) if stack == 'thrift' and not slow else None
        return {'stack': stack, 'neps': neps, 'open_delay': rng.choice([20, 40]) if slow else 0, 'pool': pool,
                'steps': steps, 'aged': stack == 'mux' and rng.random() < 0.2}
    stack = rng.choice(['thrift', 'mux'])
    neps = rng.choice([1, 1, 2, 3])
    steps = []
    modes = ['echo', 'echo', 'echo', 'hold', 'drop', 'delay', 'empty']
    for ep in range(neps):
        m = rng.choice(modes)
        steps.append(['srv', ep, m, rng.choice([5, 20, 60, 200])])
    if rng.random() < 0.15:
        steps.append(['reach', rng.randrange(neps), False])
    pre = rng.random() < 0.25          # issue some calls before the client finished opening
    open_delay = rng.choice([0, 0, 30, 300]) if pre else 0
    n = rng.choice([4, 8, 14, 20])
    default_T = rng.choice([0, 0, 0, 57, 143])      # some clients are configured with a short default timeout
    ncalls = 0
    if not pre:
        steps.append(['adv', 50])
    for _ in range(n):
        r = rng.random()
        if r < 0.45:
            T = rng.choice([2, 5, 10, 30]) * 10 + rng.randrange(1, 10)
            steps.append(['call', 0 if default_T and rng.random() < 0.4 else T])
            ncalls += 1
        elif r < 0.7:
            steps.append(['adv', rng.choice([1, 2, 5, 11, 31, 120])])
        elif r < 0.8:
            steps.append(['release', rng.randrange(neps), rng.choice(['fifo', 'lifo'])])
        elif r < 0.87:
            steps.append(['srv', rng.randrange(neps), rng.choice(modes), rng.choice([5, 20, 60, 200])])
        elif r < 0.92:
            steps.append(['kill', rng.randrange(neps)])
        elif r < 0.96:
            steps.append(['reach', rng.randrange(neps), rng.random() < 0.6])
        else:
            steps.append(['late', rng.randrange(neps)])      # answer everything held, however old
    steps.append(['release', 0, 'fifo'])
    steps.append(['adv', 700])
    pool = None
    if stack == 'thrift' and rng.random() < 0.5:
        pool = rng.choice([[1, 1, 100], [0, 2, 1], [1, 2, 2], [1, 1, 0]])      # (min, max, max_queue): saturable pools
    # 'aged': a long-lived multiplexed connection whose tag pool has handed out more than 2^16 tags (timed-out calls
    # keep theirs for good) and got a few back: new calls get tags that need all three tag bytes, next to small ones
    sc = {'stack': stack, 'neps': neps, 'open_delay': open_delay, 'pool': pool, 'steps': steps,
          'aged': stack == 'mux' and rng.random() < 0.2}
    if default_T:
        sc['default_T'] = default_T
    if rng.random() < 0.25:
        # a ZooKeeper-backed server set whose members leave and join while calls are in flight (also the last one)
        sc['provider'] = 'zk'
        sc['zk_own'] = rng.random() < 0.5
        k = 0
        while k < len(steps):
            if steps[k][0] in ('call', 'adv') and rng.random() < 0.25:
                steps.insert(k + 1, [rng.choice(['leave', 'leave', 'join']), rng.randrange(neps)])
                k += 1
            k += 1
    return sc


def shrink(script):
    st = script['steps']
    for i in range(len(st)):
        yield dict(script, steps=st[:i] + st[i + 1:])


# ------------------------------------------------------------------ running
def run_script(script, comp='e2e'):
    import gevent
    import rt
    import fakenet
    fakenet.install()
    fakenet.NET.servers.clear()
    rt.kill_stragglers()
    import scales.dispatch as dispatch
    from scales.asynchronous import AsyncResult
    from scales.message import TimeoutError as STimeout
    from thrift.protocol.TBinaryProtocol import TBinaryProtocol
    from thrift.transport.TTransport import TMemoryBuffer
    from test.scales.thrift.gen_py.hello import Hello

    stack, neps = script['stack'], script['neps']
    events, tags = [], set()

    def ev(*items):
        events.append(vfmt(list(items))[1:-1])

    def now():
        return rt.now_us()

    # ---------------- servers
    class Srv(object):
        def __init__(self, ep):
            self.ep = ep
            self.mode, self.delay = 'echo', 5
            self.held = []          # (conn, kind, tag, payload, cid)
            self.stalled = None     # an Event while the peer does not read what the client writes
            self.net = fakenet.NET.server('h%d' % ep, 9000 + ep)
            self.net.on_connect = self.on_connect

            # every connection attempt towards this endpoint, at the moment the client starts it
            self.net.on_attempt = lambda: ev('connect', ep, now())
            self.conn_ids = {}

        def conn_id(self, conn):
            if id(conn) not in self.conn_ids:
                self.conn_ids[id(conn)] = self.ep * 100 + len(self.conn_ids)
                conn._keep = conn
            return self.conn_ids[id(conn)]

        def on_connect(self, conn):
            conn.buf = bytearray()
            conn.tagmap = {}
            conn.on_write = self.on_write
            conn.before_write = self.before_write
            cidn = self.conn_id(conn)
            orig_close = conn.close

            def client_close():
                if not conn.closed_by_client:
                    ev('connclosed', cidn, now())
                orig_close()
            conn.close = client_close

        def decode_call(self, payload):
            try:
                prot = TBinaryProtocol(TMemoryBuffer(payload))
                name, _typ, _seq = prot.readMessageBegin()
                args = Hello.hi_args()
                args.read(prot)
                s = args.my_str if hasattr(args, 'my_str') else list(args.__dict__.values())[0]
                if isinstance(s, bytes):
                    s = s.decode()
                cid = int(s[1:]) if s and s[0] == 'a' and s[1:].isdigit() else -1
                return name, cid
            except Exception:
                return None, -1

        def reply_bytes(self, payload):
            class H(object):
                def hi(self_, x):
                    return 'echo:' + (x.decode() if isinstance(x, bytes) else x)
            itr, otr = TMemoryBuffer(payload), TMemoryBuffer()
            Hello.Processor(H()).process(TBinaryProtocol(itr), TBinaryProtocol(otr))
            return otr.getvalue()

        def before_write(self, conn):
            # a frame counts as written from the moment its write call is issued (as in the component harnesses);
            # while the peer is stalled the call does not return
            conn.issue_us = now()
            while self.stalled is not None:
                tags.add('write-blocked')
                self.stalled.wait()

        def on_write(self, conn, data):
            conn.buf.extend(data)
            cidn = self.conn_id(conn)
            now = lambda: getattr(conn, 'issue_us', None) or rt.now_us()      # noqa: write-issue time of this frame
            while len(conn.buf) >= 4:
                sz, = unpack('!i', bytes(conn.buf[:4]))
                if len(conn.buf) < 4 + sz:
                    break
                frame = bytes(conn.buf[4:4 + sz])
                del conn.buf[:4 + sz]
                if stack == 'thrift':
                    name, cid = self.decode_call(frame)
                    ev('wrote', cid, cidn, 'req', 0, now())
                    ev('srvgot', cid, cidn, name == 'hi' and cid >= 0, now())
                    self.handle(conn, 'req', 0, frame, cid)
                else:
                    typ, = unpack('!b', frame[:1])
                    tag = int.from_bytes(frame[1:4], 'big')
                    body = frame[4:]
                    if typ == 65:      # Tping
                        if self.mode != 'silent':
                            conn.feed(pack('!ibBBB', 4, -65, tag >> 16 & 255, tag >> 8 & 255, tag & 255))
                    elif typ == 2:     # Tdispatch
                        off = 0
                        nctx, = unpack('!h', body[off:off + 2]); off += 2
                        for _ in range(nctx):
                            kl, = unpack('!h', body[off:off + 2]); off += 2 + kl
                            vl, = unpack('!h', body[off:off + 2]); off += 2 + vl
                        dl, = unpack('!h', body[off:off + 2]); off += 2 + dl
                        nd, = unpack('!h', body[off:off + 2]); off += 2
                        payload = body[off:]
                        name, cid = self.decode_call(payload)
                        conn.tagmap[tag] = cid
                        ev('wrote', cid, cidn, 'req', tag, now())
                        ev('srvgot', cid, cidn, name == 'hi' and cid >= 0, now())
                        self.handle(conn, 'req', tag, payload, cid)
                    elif typ == 66:    # Tdiscarded
                        dtag = int.from_bytes(body[:3], 'big')
                        ev('wrote', conn.tagmap.get(dtag, -1), cidn, 'discard', dtag, now())
                        tags.add('discard-sent')

        def empty_reply_bytes(self, payload):
            """a REPLY whose result struct carries no field at all (the caller must get a missing-result error,
            never a value)"""
            prot = TBinaryProtocol(TMemoryBuffer(payload))
            name, _typ, seq = prot.readMessageBegin()
            otr = TMemoryBuffer()
            op = TBinaryProtocol(otr)
            op.writeMessageBegin(name, 2, seq)
            Hello.hi_result().write(op)
            op.writeMessageEnd()
            return otr.getvalue()

        def send_reply(self, conn, tag, payload, empty=False):
            rep = self.empty_reply_bytes(payload) if empty else self.reply_bytes(payload)
            if stack == 'thrift':
                conn.feed(pack('!i', len(rep)) + rep)
            else:
                rbody = pack('!bh', 0, 0) + rep
                conn.feed(pack('!ibBBB', 4 + len(rbody), -2, tag >> 16 & 255, tag >> 8 & 255, tag & 255) + rbody)

        def handle(self, conn, kind, tag, payload, cid):
            if self.mode == 'echo':
                self.send_reply(conn, tag, payload)
            elif self.mode == 'empty':
                tags.add('srv-empty-result')
                self.send_reply(conn, tag, payload, True)
            elif self.mode == 'delay':
                gevent.spawn_later(self.delay / 1000.0, self.send_reply, conn, tag, payload)
            elif self.mode == 'hold':
                self.held.append((conn, tag, payload))
            elif self.mode == 'close':
                conn.server_close()
            # drop / silent: nothing

    srvs = [Srv(ep) for ep in range(neps)]
    uri = 'tcp://' + ','.join('h%d:%d' % (ep, 9000 + ep) for ep in range(neps))

    # ---------------- observation of the caller's results
    issuing = [None]

    class CountingAR(AsyncResult):
        """every set / set_exception on the result handed to the caller is a `done` event.  The caller's
        result is the first one the dispatcher makes while DispatchMethodCall runs; results it makes later
        for the same call (the inner one of a call dispatched when the client finishes opening) are not the
        caller's."""
        def __init__(self):
            AsyncResult.__init__(self)
            self.k = None
            if issuing[0] is not None:
                self.k, issuing[0] = issuing[0], None

        def set(self, value=None):
            if self.k is not None:
                ev('done', self.k, classify(self.k, value, None), now())
            return AsyncResult.set(self, value)

        def set_exception(self, exception, exc_info=None):
            if self.k is not None:
                ev('done', self.k, classify(self.k, None, exception), now())
            return AsyncResult.set_exception(self, exception, exc_info)

    def classify(cid, value, ex):
        if ex is None:
            if isinstance(value, bytes):
                value = value.decode()
            if value == 'echo:a%d' % cid:
                return 'own'
            if isinstance(value, str) and value.startswith('echo:a') and value[6:].isdigit():
                tags.add('cross-talk')
                return ['other', int(value[6:])]
            return ['other', -1]
        if isinstance(ex, STimeout):
            tags.add('timed-out')
            return 'timeout'
        innerex = getattr(ex, 'inner_exception', ex)
        tags.add('err-' + type(innerex).__name__)
        return ['err', type(innerex).__name__]

    saved_ar = dispatch.AsyncResult
    saved_kazoo = zk_provider = zk = None
    import scales.mux.sink as muxsink
    saved_pool = muxsink.TagPool
    if script.get('aged') and stack == 'mux':
        class AgedPool(saved_pool):
            def __init__(self, *a, **kw):
                saved_pool.__init__(self, *a, **kw)
                self._log.debug = lambda *a, **kw: None
                for _ in range(65539):          # tags 2..65540 leased through the real pool
                    self.get()
                del self._log.debug
                for t in (256, 257, 258, 65536, 65537, 65538, 513, 66049):
                    self.release(t)
        muxsink.TagPool = AgedPool
        tags.add('aged-connection')
    if script.get('open_delay'):
        fakenet.NET.connect_delay = script['open_delay'] / 1000.0
    try:
        rt.advance_to_us((rt.now_us() // 10000 + 1) * 10000 + 3700)
        if stack == 'thrift':
            from scales.thrift import Thrift as B
        else:
            from scales.thriftmux import ThriftMux as B
        builder = B.NewBuilder(Hello.Iface)
        if script.get('provider') == 'zk':
            # the endpoints come from the real ZooKeeperServerSetProvider / ServerSet over a fake ensemble that answers
            # by itself; each member read takes script['zk_delay'] ms (a server set that is slow to load)
            import fakezk
            from kazoo.exceptions import NoNodeError
            from kazoo.protocol.states import ZnodeStat
            from scales.loadbalancer.serverset import ZooKeeperServerSetProvider
            zk_delay = script.get('zk_delay', 0) / 1000.0

            class AutoZk(fakezk.FakeZk):
                def get(self, path, watch=None):
                    if path == self.base:
                        return fakezk.FakeZk.get(self, path, watch)
                    name = path[len(self.base) + 1:]
                    if zk_delay:
                        gevent.sleep(zk_delay)
                    if name not in self.kids:
                        raise NoNodeError()
                    data, z = self.kids[name]
                    return data, ZnodeStat(z, z, 0, 0, 0, 0, 0, 0, len(data), 0, z)

                def _fire(self, kind, etype):
                    fakezk.FakeZk._fire(self, kind, etype)
                    while self.pending:
                        self.t_deliver()

            zk = AutoZk('/svc')
            zk.t_create_parent()
            for ep in range(neps):
                zk.t_create_child('member_%010d' % ep, fakezk.member_data('h%d' % ep, 9000 + ep))
            tags.add('provider-zk')
            if script.get('zk_own', True):
                # configured by URI: the provider makes (and owns) its client
                saved_kazoo = ZooKeeperServerSetProvider.KazooClient
                ZooKeeperServerSetProvider.KazooClient = staticmethod(lambda **kw: zk)
                uri = 'zk://zk1:2181/svc'
                tags.add('provider-zk-owned')
            else:
                zk_provider = ZooKeeperServerSetProvider(zk, '/svc')       # a client handed in by the application
        if script.get('pool') and stack == 'thrift':
            from scales.constants import SinkRole
            from scales.pool import WatermarkPoolSink
            mn, mx, mq = script['pool']
            builder = builder.ReplaceRole(SinkRole.Pool, WatermarkPoolSink.Builder(
                min_watermark=mn, max_watermark=mx, max_queue_len=mq))
            tags.add('small-pool')
        # the client-wide default timeout: a 'call' step with T = 0 passes no timeout of its own and relies on it
        default_T = script.get('default_T', 10000)
        builder = builder.SetUri(uri)
        if zk_provider is not None:
            builder = builder.SetServerSetProvider(zk_provider)
        client = builder.SetTimeout(default_T / 1000.0).SetOpenTimeout(0).Build()
        disp = client._dispatcher
        dispatch.AsyncResult = CountingAR
        opened = [False]

        def on_open(_):
            opened[0] = True
            ev('opened', now())
        disp._open_ar.rawlink(on_open)
        ncalls = 0
        for st in script['steps']:
            kind = st[0]
            if kind == 'call':
                T = st[1] or default_T
                ev('issue', ncalls, T * 1000, now(), not opened[0])
                if not opened[0]:
                    tags.add('pre-open')
                issuing[0] = ncalls
                if st[1]:
                    r = disp.DispatchMethodCall('hi', ('a%d' % ncalls,), {}, timeout=T / 1000.0)
                else:
                    tags.add('default-timeout')
                    r = disp.DispatchMethodCall('hi', ('a%d' % ncalls,), {})
                issuing[0] = None
                if getattr(r, 'k', None) != ncalls:
                    # the caller's result was not made by the dispatcher itself: observe its completion
                    def seen(ar, cid=ncalls):
                        ev('done', cid, classify(cid, ar.value if ar.exception is None else None, ar.exception), now())
                    r.rawlink(seen)
                ncalls += 1
                rt.drain()
            elif kind == 'adv':
                rt.advance(st[1] / 1000.0)
                ev('tick', now())
            elif kind == 'srv':
                if st[1] < neps:
                    srvs[st[1]].mode, srvs[st[1]].delay = st[2], st[3]
                    tags.add('srv-' + st[2])
            elif kind == 'reach':
                if st[1] < neps:
                    srvs[st[1]].net.reachable = st[2]
                    tags.add('unreachable' if not st[2] else 'reachable-again')
                    if neps <= 2:
                        # one or two endpoints (aperture min_size 1): a member that refused a connection is never
                        # retired (contraction needs more than min_size healthy members, and with two endpoints that
                        # means none is down), so C09's "resumes within one maximum retry interval" is decidable on
                        # the log (the interval is read from the real builder defaults)
                        from scales.resurrector import ResurrectorSink
                        mw = ResurrectorSink.Builder().sink_properties.max_wait_interval
                        ev('reach', st[1], bool(st[2]), now(), int(mw * 1000000))
            elif kind in ('leave', 'join'):
                # membership changes (only with the ZooKeeper-backed server set): the member's node is deleted / created
                if zk is not None and st[1] < neps:
                    name = 'member_%010d' % st[1]
                    if kind == 'leave' and name in zk.kids:
                        zk.t_delete_child(name)
                        tags.add('member-left')
                    elif kind == 'join' and name not in zk.kids:
                        zk.t_create_child(name, fakezk.member_data('h%d' % st[1], 9000 + st[1]))
                        tags.add('member-joined')
                    rt.drain()
            elif kind == 'stall':
                if st[1] < neps and srvs[st[1]].stalled is None:
                    from gevent.event import Event as _Ev
                    srvs[st[1]].stalled = _Ev()
                    tags.add('peer-stalled')
            elif kind == 'unstall':
                if st[1] < neps and srvs[st[1]].stalled is not None:
                    e, srvs[st[1]].stalled = srvs[st[1]].stalled, None
                    e.set()
                    rt.drain()
            elif kind == 'kill':
                if st[1] < neps:
                    for c in list(srvs[st[1]].net.conns):
                        if not c.eof:
                            c.server_close()
                            ev('connclosed', srvs[st[1]].conn_id(c), now())
                    tags.add('conn-killed')
                    rt.drain()
            elif kind in ('release', 'late'):
                if st[1] < neps:
                    s = srvs[st[1]]
                    held, s.held = s.held, []
                    if kind == 'release' and st[2] == 'lifo':
                        held.reverse()
                        tags.add('reordered')
                    for conn, tag, payload in held:
                        s.send_reply(conn, tag, payload)
                    if held:
                        tags.add('released')
                    rt.drain()
        if not script.get('close_now'):      # 'close_now': closed before the loop has run anything the build started
            rt.drain()
        ev('tick', now())
        client.DispatcherClose()
        rt.drain()
        ev('clientclosed', now())
        if script.get('after_close'):
            # the closed client is left alone for a long while: retry timers, the aperture's jitter rounds, a server
            # set that is still loading — nothing may bring a connection up any more
            tags.add('after-close-' + script['after_close'])
            for sv in srvs:
                sv.net.reachable = script['after_close'] != 'down'
            for dt in (0.3, 5, 60, 400):
                rt.advance(dt)
            ev('tick', now())
    finally:
        dispatch.AsyncResult = saved_ar
        muxsink.TagPool = saved_pool
        if saved_kazoo is not None:
            from scales.loadbalancer.serverset import ZooKeeperServerSetProvider as _P
            _P.KazooClient = saved_kazoo
        fakenet.NET.connect_delay = 0
    rt.kill_stragglers()
    tags.add(stack)
    return {'comp': comp, 'cfg': stack, 'steps': [[e, 'ok'] for e in events], 'tags': sorted(tags)}
