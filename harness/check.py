"""./check <PROP> [--tier quick|thorough] [--replay FILE]

Decides one property: proof obligations (Lean build + axiom audit), correspondence of the
hand-written Lean model with the implementation in /repo on generated histories, and the
Lean specification predicate evaluated on the implementation's own observations.

exit 0: held on everything explored; exit 1: VIOLATION line printed; exit 2: infrastructure."""
import argparse
import hashlib
import json
import os
import sys
import time

sys.path.insert(0, os.path.dirname(os.path.abspath(__file__)))
import lib  # noqa


def shard_jobs(n, seed, tier, per=None):
    k = max(1, min(lib.NCPU, n // 20 or 1))
    per = (n + k - 1) // k
    return [{'mode': 'gen', 'seed': seed * 1000003 + i, 'n': per, 'tier': tier} for i in range(k)]


def case_key(c):
    h = hashlib.sha256()
    h.update(c.get('cfg', '').encode())
    for op, real in c.get('steps', []):
        h.update(b'|' + op.encode())
    return h.hexdigest()


def shrink_case(prop, mod, case, work, want_kind, budget_s=60):
    """greedy delta-debugging on the script; keeps the same classification kind"""
    if not hasattr(mod, 'shrink'):
        return case
    best = case
    t_end = time.time() + budget_s
    improved = True
    rounds = 0
    while improved and time.time() < t_end and rounds < 40:
        improved = False
        rounds += 1
        cands = list(mod.shrink(best['script']))[:200]
        if not cands:
            break
        cases, problems = lib.run_workers(prop, [{'mode': 'scripts', 'scripts': cands}], work, 120)
        cases = [c for c in cases if c.get('cfg') != 'harness-error']
        if not cases:
            break
        lib.run_driver(cases, work, 'shrink')
        for c in cases:
            kind, detail = lib.classify(c)
            if kind == want_kind and len(json.dumps(c['script'])) < len(json.dumps(best['script'])):
                if want_kind == 'violation' and clause_of(c['rverdict']) != clause_of(best['rverdict']):
                    continue
                best = c
                improved = True
                break
    return best


def clause_of(verdict):
    parts = (verdict or '').strip('()').split()
    return parts[1] if len(parts) > 1 else None


def write_replay(prop, case, kind, detail, extra=None):
    os.makedirs(os.path.join(lib.VERIF, 'replays'), exist_ok=True)
    body = {'property': prop, 'kind': kind, 'detail': detail, 'script': case.get('script'),
            'component': case.get('comp'), 'cfg': case.get('cfg'), 'steps': case.get('steps'),
            'model_obs': case.get('model'), 'model_verdict': case.get('mverdict'),
            'impl_verdict': case.get('rverdict'), 'tags': case.get('tags'), 'error': case.get('error')}
    if extra:
        body.update(extra)
    h = hashlib.sha256(json.dumps(body, sort_keys=True).encode()).hexdigest()[:12]
    path = os.path.join(lib.VERIF, 'replays', '%s-%s.json' % (prop, h))
    with open(path, 'w') as f:
        json.dump(body, f, indent=1)
    return path


def main():
    ap = argparse.ArgumentParser()
    ap.add_argument('prop')
    ap.add_argument('--tier', default=os.environ.get('VERIF_TIER', 'quick'))
    ap.add_argument('--replay')
    args = ap.parse_args()
    prop = args.prop.upper()
    tier = args.tier if args.tier in ('quick', 'thorough') else 'quick'
    seed = int(os.environ.get('VERIF_SEED', '1') or 1)
    t0 = time.time()
    work = lib.Work(prop)
    try:
        rc = run(prop, tier, seed, args.replay, work, t0)
    except SystemExit:
        raise
    except BaseException:
        import traceback
        traceback.print_exc()
        rc = 2
    finally:
        work.cleanup()
    sys.exit(rc)


def run(prop, tier, seed, replay, work, t0):
    mod = lib.load_prop(prop)
    findings = lib.load_findings()
    lines = []          # output lines
    broken = []         # proof obligations / correspondence that no longer check
    # ---------------------------------------------------------------- A. proof obligations
    ok, log = lib.lean_build()
    if not ok:
        broken.append({'what': 'lake build failed', 'detail': log[-1500:]})
        if not os.path.exists(lib.DRIVER):
            print(log[-3000:])
            print('infrastructure: Lean driver could not be built')
            return 2
    aud = lib.audit(prop, work)
    for p in aud['problems']:
        broken.append({'what': 'proof obligation', 'detail': p})
    # optional source-derived obligations (constants extracted from /repo, checked by Lean)
    recheck = None
    if tier == 'thorough' and ok:
        # independent re-check of the compiled proofs by the toolchain's leanchecker
        import subprocess
        q = subprocess.run(['lake', 'env', 'leanchecker', 'ScalesModel.Props.' + prop], cwd=lib.LEAN,
                           stdout=subprocess.PIPE, stderr=subprocess.STDOUT, text=True, timeout=3000)
        recheck = {'cmd': 'lake env leanchecker ScalesModel.Props.' + prop, 'exit': q.returncode,
                   'output': q.stdout.strip()[-300:]}
        if q.returncode != 0:
            broken.append({'what': 'leanchecker rejected the compiled proofs', 'detail': q.stdout[-800:]})
    gen_info = lib.source_obligations(prop, mod, work)
    if gen_info is not None:
        for p in gen_info.get('problems', []):
            broken.append({'what': 'source-derived obligation', 'detail': p})
    for pr in lib.isolation_obligations(prop, mod, work):
        broken.append({'what': 'instance-isolation obligation', 'detail': pr})
    # ---------------------------------------------------------------- B. correspondence
    params = mod.THOROUGH if tier == 'thorough' else mod.QUICK
    jobs = []
    if replay:
        rp = json.load(open(replay))
        jobs.append({'mode': 'scripts', 'scripts': [rp['script']]})
    else:
        corpus_dir = os.path.join(lib.VERIF, 'corpus', prop)
        corpus = []
        if os.path.isdir(corpus_dir):
            for fn in sorted(os.listdir(corpus_dir)):
                if fn.endswith('.json'):
                    corpus.append(json.load(open(os.path.join(corpus_dir, fn)))['script'])
        if corpus:
            jobs.append({'mode': 'scripts', 'scripts': corpus})
        jobs += shard_jobs(params['gen'], seed, tier)
        if hasattr(mod, 'exhaustive'):
            sh = lib.NCPU if tier == 'thorough' else 4
            jobs += [{'mode': 'exhaustive', 'tier': tier, 'shard': i, 'shards': sh} for i in range(sh)]
    timeout = params.get('timeout', 900 if tier == 'quick' else 3000)
    cases, problems = lib.run_workers(prop, jobs, work, timeout)
    harness_errors = [c for c in cases if c.get('cfg') == 'harness-error']
    cases = [c for c in cases if c.get('cfg') != 'harness-error']
    for pr in problems:
        broken.append({'what': 'implementation driver %s' % pr[0], 'detail': json.dumps(pr[1:])[:1500],
                       'script': pr[3] if len(pr) > 3 else None})
    hangs = [c for c in harness_errors if 'hang' in c.get('tags', [])]
    harness_errors = [c for c in harness_errors if 'hang' not in c.get('tags', [])]
    crashes = [c for c in harness_errors if 'impl-internal-error' in c.get('tags', [])]
    harness_errors = [c for c in harness_errors if 'impl-internal-error' not in c.get('tags', [])]
    for c in harness_errors:
        broken.append({'what': 'implementation raised outside the modelled observations',
                       'detail': c.get('error', '')[-800:], 'script': c.get('script')})
    if cases:
        lib.run_driver(cases, work)
    # ---------------------------------------------------------------- C. classify
    stats = {'ok': 0, 'violation': 0, 'diverge': 0, 'driver': 0}
    violations, diverges = [], []
    for c in cases:
        kind, detail = lib.classify(c)
        stats[kind] += 1
        c['_kind'], c['_detail'] = kind, detail
        if kind == 'violation':
            violations.append(c)
        elif kind in ('diverge', 'driver'):
            diverges.append(c)
    exit_code = 0
    reported = set()
    known_lines = set()
    n_unknown = 0
    # group violations by clause; shrink one representative per clause that is not known
    by_clause = {}
    for c in violations:
        f = lib.match_finding(prop, c['rverdict'], findings, c)
        if f:
            known_lines.add('KNOWN-FINDING: property=%s %s' % (prop, f.get('what', f.get('id', ''))))
            continue
        by_clause.setdefault(clause_of(c['rverdict']), []).append(c)
    for clause, cs in sorted(by_clause.items(), key=lambda kv: str(kv[0])):
        cs.sort(key=lambda c: len(json.dumps(c['script'])))
        rep = shrink_case(prop, mod, cs[0], work, 'violation', 45 if tier == 'quick' else 120)
        if lib.match_finding(prop, rep['rverdict'], findings, rep):
            rep = cs[0]
        path = write_replay(prop, rep, 'spec-violation-on-implementation', rep['rverdict'],
                            {'occurrences': len(cs)})
        lines.append('VIOLATION property=%s replay=%s' % (prop, os.path.relpath(path, lib.VERIF)))
        n_unknown += 1
        exit_code = 1
    # a script on which the real code does not terminate (the model is total and predicts an outcome):
    # a concrete failing input for any property that promises an outcome
    if hangs:
        hangs.sort(key=lambda c: len(json.dumps(c['script'])))
        path = write_replay(prop, hangs[0], 'implementation-does-not-terminate', hangs[0].get('error', '')[:300],
                            {'occurrences': len(hangs)})
        lines.append('VIOLATION property=%s replay=%s' % (prop, os.path.relpath(path, lib.VERIF)))
        n_unknown += 1
        exit_code = 1
    # a script on which the code under verification raises an internal error (NameError / AttributeError / TypeError /
    # LookupError / ZeroDivisionError / RecursionError
    # originating in /repo/scales) out of one of its entry points, where the model predicts a defined outcome
    if crashes:
        crashes.sort(key=lambda c: len(json.dumps(c['script'])))
        path = write_replay(prop, crashes[0], 'implementation-raises-internal-error',
                            crashes[0].get('origin', '') + ' | ' + crashes[0].get('error', '')[-400:],
                            {'occurrences': len(crashes)})
        lines.append('VIOLATION property=%s replay=%s' % (prop, os.path.relpath(path, lib.VERIF)))
        n_unknown += 1
        exit_code = 1
    # broken obligations / correspondence without a concrete failing input
    if (broken or diverges) and exit_code == 0:
        # SEARCH: a larger generation round looking for a spec failure on the implementation
        found = None
        if not replay and diverges:
            extra_jobs = shard_jobs(params['gen'] * 4, seed + 7919, tier)
            more, _ = lib.run_workers(prop, extra_jobs, work, timeout)
            more = [c for c in more if c.get('cfg') != 'harness-error']
            if more:
                lib.run_driver(more, work, 'search')
            for c in more:
                kind, detail = lib.classify(c)
                if kind == 'violation' and not lib.match_finding(prop, c['rverdict'], findings, c):
                    found = c
                    break
        if found is not None:
            rep = shrink_case(prop, mod, found, work, 'violation', 45)
            path = write_replay(prop, rep, 'spec-violation-on-implementation', rep['rverdict'])
            lines.append('VIOLATION property=%s replay=%s' % (prop, os.path.relpath(path, lib.VERIF)))
        else:
            if diverges:
                diverges.sort(key=lambda c: len(json.dumps(c['script'])))
                rep = shrink_case(prop, mod, diverges[0], work, diverges[0]['_kind'], 30)
                kind, detail = lib.classify(rep)
                path = write_replay(prop, rep, 'correspondence-broken', detail,
                                    {'broken': broken, 'divergent_cases': len(diverges),
                                     'note': 'model and implementation disagree; the Lean spec predicate '
                                             'did not fail on any implementation observation explored'})
            else:
                stub = {'script': broken[0].get('script'), 'comp': getattr(mod, 'COMPONENT', None)}
                path = write_replay(prop, stub, 'proof-obligation-broken', broken[0]['detail'],
                                    {'broken': broken})
            lines.append('VIOLATION property=%s replay=%s no-failing-input-found'
                         % (prop, os.path.relpath(path, lib.VERIF)))
        n_unknown += 1
        exit_code = 1
    for ln in sorted(known_lines):
        print(ln)
    for ln in lines:
        print(ln)
    # ---------------------------------------------------------------- D. evidence
    keys = {}
    nontrivial = 0
    tagdist = {}
    for c in cases:
        k = case_key(c)
        for t in c.get('tags', []):
            tagdist[t] = tagdist.get(t, 0) + 1
        if k not in keys:
            keys[k] = True
            if (mod.nontrivial(c) if hasattr(mod, 'nontrivial') else True):
                nontrivial += 1
    samples = []
    for c in cases[:3] + cases[-2:]:
        samples.append({'cfg': c['cfg'], 'ops': [s[0] for s in c['steps']][:40],
                        'impl_obs': [s[1] for s in c['steps']][:40], 'model_obs': (c.get('model') or [])[:40],
                        'spec_on_impl': c.get('rverdict'), 'spec_on_model': c.get('mverdict')})
    coverage = {
        'obligations': aud['obligations'],
        'discharged': aud['discharged'] if not [b for b in broken if b['what'] == 'lake build failed'] else 0,
        'checker_cmd': 'cd lean && lake build && lake env lean <Audit: #print axioms for every %s_* theorem>' % prop,
        'trusted_base': ['Lean 4.33 kernel', 'axioms: ' + ', '.join(sorted(lib.ALLOWED_AXIOMS)),
                         'hand-written model ScalesModel/Model + correspondence harness (harness/props/%s.py)' % prop.lower(),
                         'virtual-time gevent loop harness/vloop.py'] + list(getattr(mod, 'TRUSTED', [])),
        'theorems': aud['theorems'],
        'evaluations': len(cases),
        'distinct': len(keys),
        'distinct_nontrivial': nontrivial,
        'rule': getattr(mod, 'RULE', 'scripts drawn from the seeded generator (and the exhaustive enumerator where '
                        'present); distinct = distinct (cfg, op list); non-trivial = reaches a branch beyond the '
                        'happy path according to the tags recorded by the driver'),
        'samples': samples,
        'traces_validated_against_impl': stats['ok'],
        'classification': stats,
        'generator_distribution': tagdist,
        'exhaustive': bool(hasattr(mod, 'exhaustive')),
        'broken': broken[:5],
        'hangs': len(hangs),
        'internal_errors': len(crashes),
    }
    if gen_info:
        coverage['source_derived'] = gen_info.get('info')
    if recheck:
        coverage['leanchecker'] = recheck
    ev = {
        'property_id': prop, 'tier': tier, 'seed': seed, 'level': 'proof', 'coverage': coverage,
        'assumptions': list(getattr(mod, 'ASSUMPTIONS', [])),
        'wall_s': round(time.time() - t0, 2), 'violations': n_unknown,
    }
    os.makedirs(os.path.join(lib.VERIF, 'evidence'), exist_ok=True)
    with open(os.path.join(lib.VERIF, 'evidence', prop + '.json'), 'w') as f:
        json.dump(ev, f, indent=1)
    print('%s tier=%s seed=%d theorems=%d/%d cases=%d ok=%d violations=%d divergences=%d wall=%.1fs'
          % (prop, tier, seed, coverage['discharged'], coverage['obligations'], len(cases), stats['ok'],
             stats['violation'], stats['diverge'] + stats['driver'], time.time() - t0))
    return exit_code


if __name__ == '__main__':
    main()
