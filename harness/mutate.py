"""mutate.py — mechanical mutants of the anchored source files, as a systematic complement to the seeded changes.

  mutate.py gen <n-per-file> <seed>      -> mutation/mutants.json  (list of {id, file, line, kind, before, after})
  mutate.py run <lanes>                  -> runs every mutant not yet in mutation/results.json
  mutate.py report                       -> summary table

A mutant is one small textual edit located through the AST (comparison operator swapped, and/or swapped, `not` added to
an `if` test, small integer constant +-1, a simple statement replaced by `pass`, True/False flipped).  For each mutant:
the 52 unit tests are run first (a mutant they kill is uninteresting: the brief is about changes that pass them), then
the quick checks of every property whose anchors name the file.  Outcome: unit-killed | concrete | broken-only |
survived.  Survivors are either equivalent mutants or gaps; they are triaged by hand / by a sub-agent against the
property texts."""
import ast
import json
import os
import random
import subprocess
import sys
import time

VERIF = '/verif'
OUT = os.path.join(VERIF, 'mutation')
CMP = {ast.Lt: '<', ast.LtE: '<=', ast.Gt: '>', ast.GtE: '>=', ast.Eq: '==', ast.NotEq: '!=', ast.Is: 'is', ast.IsNot: 'is not'}
SWAP = {'<': '<=', '<=': '<', '>': '>=', '>=': '>', '==': '!=', '!=': '==', 'is': 'is not', 'is not': 'is'}


def anchors():
    m = {}
    for l in open(os.path.join(VERIF, 'properties.jsonl')):
        p = json.loads(l)
        for f in p['anchors']['files']:
            m.setdefault(f, []).append(p['id'])
    return m


def seg(lines, node):
    if node.lineno != node.end_lineno:
        return None
    return lines[node.lineno - 1][node.col_offset:node.end_col_offset]


def candidates(path, src):
    tree = ast.parse(src)
    lines = src.split('\n')
    out = []

    def add(node, kind, new_text, old_text=None):
        if node.lineno != node.end_lineno:
            return
        old = old_text if old_text is not None else lines[node.lineno - 1][node.col_offset:node.end_col_offset]
        out.append({'line': node.lineno, 'col': node.col_offset, 'end': node.end_col_offset, 'kind': kind,
                    'before': old, 'after': new_text})
    for node in ast.walk(tree):
        if isinstance(node, ast.Compare) and len(node.ops) == 1 and type(node.ops[0]) in CMP:
            l, r = seg(lines, node.left), seg(lines, node.comparators[0])
            if l is None or r is None or node.lineno != node.end_lineno:
                continue
            op = CMP[type(node.ops[0])]
            add(node, 'cmp', '%s %s %s' % (l, SWAP[op], r))
        elif isinstance(node, ast.BoolOp) and len(node.values) == 2:
            a, b = seg(lines, node.values[0]), seg(lines, node.values[1])
            if a is None or b is None:
                continue
            add(node, 'boolop', '%s %s %s' % (a, 'or' if isinstance(node.op, ast.And) else 'and', b))
        elif isinstance(node, (ast.If, ast.While)) and not isinstance(node.test, ast.Constant):
            t = seg(lines, node.test)
            if t is not None:
                add(node.test, 'negate', 'not (%s)' % t)
        elif isinstance(node, ast.Constant) and isinstance(node.value, bool):
            add(node, 'bool', 'False' if node.value else 'True')
        elif isinstance(node, ast.Constant) and isinstance(node.value, int) and 0 <= node.value <= 4:
            add(node, 'const', str(node.value + 1))
        elif isinstance(node, (ast.Expr, ast.Assign, ast.AugAssign)) and node.lineno == node.end_lineno:
            if isinstance(node, ast.Expr) and isinstance(node.value, ast.Constant):
                continue        # docstring
            t = seg(lines, node)
            if t is not None and 'log' not in t.lower() and 'varz' not in t.lower():
                add(node, 'delete', 'pass')
    return out


def apply(src, m):
    lines = src.split('\n')
    l = lines[m['line'] - 1]
    lines[m['line'] - 1] = l[:m['col']] + m['after'] + l[m['end']:]
    return '\n'.join(lines)


def gen(n, seed):
    rng = random.Random(seed)
    ms = []
    for f, props in sorted(anchors().items()):
        raw = open(os.path.join('/repo', f), newline='').read()
        src = raw.replace('\r\n', '\n')
        cs = candidates(f, src)
        rng.shuffle(cs)
        kept, seen = [], set()
        for c in cs:
            try:
                ast.parse(apply(src, c))
            except SyntaxError:
                continue
            key = (c['line'], c['kind'])
            if key in seen:
                continue
            seen.add(key)
            kept.append(c)
            if len(kept) >= n:
                break
        for c in kept:
            c.update(file=f, props=props, id='%s:%d:%s' % (f.replace('scales/', ''), c['line'], c['kind']))
            ms.append(c)
    os.makedirs(OUT, exist_ok=True)
    json.dump(ms, open(os.path.join(OUT, 'mutants.json'), 'w'), indent=1)
    print(len(ms), 'mutants over', len(anchors()), 'files')


def gen2(quota, seed):
    """a second batch, appended to mutants.json: condition / operator / constant mutants and dropped calls (plain
    assignments are left out: most of batch 1's survivors were deleted initialisations), `quota` per kind"""
    rng = random.Random(seed)
    path = os.path.join(OUT, 'mutants.json')
    ms = json.load(open(path))
    old = {m['id'] for m in ms}
    pool = {}
    for f, props in sorted(anchors().items()):
        src = open(os.path.join('/repo', f), newline='').read().replace('\r\n', '\n')
        for c in candidates(f, src):
            try:
                ast.parse(apply(src, c))
            except SyntaxError:
                continue
            c.update(file=f, props=props, id='%s:%d:%s' % (f.replace('scales/', ''), c['line'], c['kind']), batch=2)
            if c['id'] in old or (c['kind'] == 'delete' and '=' in c['before'].split('(')[0]):
                continue
            pool.setdefault(c['kind'], {})[c['id']] = c
    n = 0
    for kind, cs in sorted(pool.items()):
        cs = sorted(cs.values(), key=lambda c: c['id'])
        rng.shuffle(cs)
        for c in cs[:quota.get(kind, 0)]:
            ms.append(c)
            n += 1
    json.dump(ms, open(path, 'w'), indent=1)
    print(n, 'mutants added;', len(ms), 'in all')


def run_one(m, lane):
    repo = '/work/mut%d/repo' % lane
    subprocess.run(['git', '-C', repo, 'checkout', '--', '.'], check=True)
    p = os.path.join(repo, m['file'])
    raw = open(p, newline='').read()
    crlf = '\r\n' in raw
    new = apply(raw.replace('\r\n', '\n'), m)
    open(p, 'w', newline='').write(new.replace('\n', '\r\n') if crlf else new)
    env = dict(os.environ, PYTHONPATH=repo)
    t = subprocess.run(['/venv/bin/python', '-m', 'pytest', '-q', '-x', '-p', 'no:cacheprovider', 'test/scales'], cwd=repo,
                       env=env, stdout=subprocess.PIPE, stderr=subprocess.STDOUT, text=True, timeout=150)
    res = {'id': m['id'], 'unit': 'pass' if t.returncode == 0 else 'fail', 'checks': {}}
    if t.returncode == 0:
        for pid in m['props']:
            q = subprocess.run(['./check', pid, '--tier', 'quick'], cwd=os.environ.get('MUT_VERIF', VERIF),
                               env=dict(os.environ, SCALES_REPO=repo, VERIF_SEED='1'),
                               stdout=subprocess.PIPE, stderr=subprocess.STDOUT, text=True, timeout=1800)
            v = [l for l in q.stdout.splitlines() if l.startswith('VIOLATION')]
            res['checks'][pid] = ('concrete' if any(not l.endswith('no-failing-input-found') for l in v)
                                  else 'broken-only' if q.returncode == 1 else 'ok' if q.returncode == 0
                                  else 'error-%d' % q.returncode)
    subprocess.run(['git', '-C', repo, 'checkout', '--', '.'], check=True)
    vals = list(res['checks'].values())
    res['outcome'] = ('unit-killed' if res['unit'] == 'fail' else 'concrete' if 'concrete' in vals
                      else 'broken-only' if 'broken-only' in vals else 'survived')
    return res


ALL = ['C%02d' % k for k in range(1, 21)]


def lane_main(lane, ids, stage2=False):
    ms = {m['id']: m for m in json.load(open(os.path.join(OUT, 'mutants.json')))}
    outp = os.path.join(OUT, ('results2.lane%d.jsonl' if stage2 is True else 'results3.lane%d.jsonl' if stage2 == 'rerun'
                              else 'results.lane%d.jsonl') % lane)
    with open(outp, 'a') as f:
        for i in ids:
            try:
                m = ms[i]
                if stage2 is True:          # survivors of their anchoring checks: every other property's check
                    m = dict(m, props=[p for p in ALL if p not in m['props']])
                r = run_one(m, lane)
            except Exception as ex:
                r = {'id': i, 'outcome': 'harness-error', 'error': str(ex)[:300]}
            f.write(json.dumps(r) + '\n')
            f.flush()


def results(prefix='results.lane'):
    out = {}
    for fn in os.listdir(OUT):
        if fn.startswith(prefix):
            for l in open(os.path.join(OUT, fn)):
                r = json.loads(l)
                out[r['id']] = r
    return out


def run(lanes, stage2=False):
    ms = json.load(open(os.path.join(OUT, 'mutants.json')))
    done = results()
    if stage2 == 'rerun':       # survivors of both stages, again, on the machinery as it is now (anchoring checks)
        done2, done3 = results('results2.lane'), results('results3.lane')
        todo = [i for i, r in sorted(done.items()) if r['outcome'] == 'survived' and i not in done3
                and done2.get(i, {}).get('outcome') not in ('concrete',)]
    elif stage2:
        done2 = results('results2.lane')
        todo = [i for i, r in sorted(done.items()) if r['outcome'] == 'survived' and i not in done2]
    else:
        todo = [m['id'] for m in ms if m['id'] not in done]
    print(len(todo), 'to run on', lanes, 'lanes')
    procs = []
    for k in range(lanes):
        d = '/work/mut%d' % k
        if not os.path.exists(d + '/repo'):
            os.makedirs(d, exist_ok=True)
            subprocess.run(['cp', '-r', '/repo', d + '/repo'], check=True)
        subprocess.run(['git', '-C', d + '/repo', 'checkout', '--', '.'], check=True)
        ids = todo[k::lanes]
        procs.append(subprocess.Popen([sys.executable, __file__, 'lane3' if stage2 == 'rerun' else 'lane2' if stage2
                                       else 'lane', str(k)] + ids))
    for p in procs:
        p.wait()


def report():
    ms = {m['id']: m for m in json.load(open(os.path.join(OUT, 'mutants.json')))}
    rs = results()
    for i, r2 in results('results2.lane').items():
        if i in rs and rs[i]['outcome'] == 'survived':
            rs[i] = dict(rs[i], checks=dict(rs[i].get('checks', {}), **r2.get('checks', {})),
                         outcome={'concrete': 'concrete-elsewhere', 'broken-only': 'broken-elsewhere'}.get(r2['outcome'], 'survived-all'))
    for i, r3 in results('results3.lane').items():
        if i in rs and rs[i]['outcome'] in ('survived', 'survived-all', 'broken-elsewhere') and r3['outcome'] in ('concrete', 'broken-only'):
            rs[i] = dict(rs[i], checks=dict(rs[i].get('checks', {}), **r3.get('checks', {})),
                         outcome='concrete-after-strengthening' if r3['outcome'] == 'concrete' else 'broken-after-strengthening')
    byf = {}
    for i, r in rs.items():
        f = ms[i]['file'] if i in ms else '?'
        byf.setdefault(f, {}).setdefault(r['outcome'], []).append(i)
    tot = {}
    for f in sorted(byf):
        row = {k: len(v) for k, v in byf[f].items()}
        for k, v in row.items():
            tot[k] = tot.get(k, 0) + v
        print('%-34s %s' % (f, row))
    print('TOTAL', tot, 'of', len(ms), 'generated')
    surv = [i for i, r in rs.items() if r['outcome'] in ('survived', 'survived-all')]
    json.dump({'summary': tot, 'survivors': [dict(ms[i], checks=rs[i].get('checks')) for i in sorted(surv) if i in ms]},
              open(os.path.join(OUT, 'REPORT.json'), 'w'), indent=1)


if __name__ == '__main__':
    cmd = sys.argv[1]
    if cmd == 'gen':
        gen(int(sys.argv[2]), int(sys.argv[3]))
    elif cmd == 'gen2':
        gen2({'cmp': 80, 'boolop': 34, 'negate': 80, 'delete': 80, 'const': 24, 'bool': 20}, int(sys.argv[2]))
    elif cmd == 'run':
        run(int(sys.argv[2]))
    elif cmd == 'lane':
        lane_main(int(sys.argv[2]), sys.argv[3:])
    elif cmd == 'lane2':
        lane_main(int(sys.argv[2]), sys.argv[3:], True)
    elif cmd == 'stage2':
        run(int(sys.argv[2]), True)
    elif cmd == 'lane3':
        lane_main(int(sys.argv[2]), sys.argv[3:], 'rerun')
    elif cmd == 'rerun':
        run(int(sys.argv[2]), 'rerun')
    elif cmd == 'report':
        report()
