"""Shared driver for the heap balancer (C03, C04): runs scales.loadbalancer.heap.HeapBalancerSink
over harness channels and a harness server set."""
from lib import vfmt


def gen_script(rng, tier, focus):
    n_eps = rng.choice([1, 2, 3, 5, 7, 7, 9])
    steps = rng.choice([20, 40, 60, 80])
    ops = []
    joined = set()
    # most histories start with a batch of joins, all channels open
    p_open = rng.choice([1.0, 1.0, 0.8, 0.5])
    for ep in range(n_eps):
        ops.append(['join', ep])
        joined.add(ep)
    nodes = n_eps
    for nid in range(nodes):
        if rng.random() < p_open:
            ops.append(['chan', nid, 2])
    reqs, open_reqs = 0, []
    p_get = rng.choice([0.45, 0.5, 0.6])
    p_member = rng.choice([0.0, 0.05, 0.15])
    p_chan = rng.choice([0.0, 0.05, 0.15])
    for _ in range(steps):
        r = rng.random()
        if r < p_get:
            ops.append(['get'])
            open_reqs.append(reqs)
            reqs += 1
        elif r < p_get + p_member:
            if rng.random() < 0.5 and joined:
                ep = rng.choice(sorted(joined) + [rng.randrange(0, n_eps + 2)])
                ops.append(['leave', ep])
                joined.discard(ep)
            else:
                ep = rng.randrange(0, n_eps + 2)
                ops.append(['join', ep])
                if ep not in joined:
                    joined.add(ep)
                    nodes += 1
                    if rng.random() < p_open:
                        ops.append(['chan', nodes - 1, 2])
        elif r < p_get + p_member + p_chan and nodes:
            ops.append(['chan', rng.randrange(nodes), rng.choice([1, 2, 2, 3, 4, 4])])
        elif open_reqs:
            # completion order: FIFO / LIFO / random / drain one member
            mode = rng.random()
            i = 0 if mode < 0.2 else (len(open_reqs) - 1 if mode < 0.4 else rng.randrange(len(open_reqs)))
            rq = open_reqs.pop(i)
            ops.append(['put', rq])
            if rng.random() < 0.03:
                ops.append(['put', rq])     # duplicate completion
    return {'ops': ops, 'seed': rng.randrange(1 << 30)}


def exhaustive(tier, shard, shards):
    """every get/put word of length <= L over 5 open members"""
    import itertools
    L = 7 if tier == 'thorough' else 5
    k = 0
    for n in range(1, L + 1):
        for word in itertools.product('gp', repeat=n):
            k += 1
            if k % shards != shard:
                continue
            for order in ('fifo', 'lifo'):
                ops = []
                for ep in range(5):
                    ops += [['join', ep], ['chan', ep, 2]]
                # pre-load: 5 gets so every member has one outstanding, then the word
                open_reqs = []
                reqs = 0
                for _ in range(5):
                    ops.append(['get']); open_reqs.append(reqs); reqs += 1
                ok = True
                for ch in word:
                    if ch == 'g':
                        ops.append(['get']); open_reqs.append(reqs); reqs += 1
                    elif open_reqs:
                        rq = open_reqs.pop(0 if order == 'fifo' else -1)
                        ops.append(['put', rq])
                    else:
                        ok = False
                        break
                if ok:
                    yield {'ops': ops, 'seed': k}


def shrink(script):
    ops = script['ops']
    for i in range(len(ops)):
        cand = ops[:i] + ops[i + 1:]
        # renumber dispatch ids if a `get` was removed
        if ops[i][0] == 'get':
            gi = sum(1 for o in ops[:i] if o[0] == 'get')
            new = []
            for o in cand:
                if o[0] == 'put':
                    if o[1] == gi:
                        continue
                    new.append(['put', o[1] - 1 if o[1] > gi else o[1]])
                else:
                    new.append(o)
            cand = new
        if ops[i][0] == 'join':
            continue   # node ids would shift; keep joins
        yield {'ops': cand, 'seed': script['seed']}


def run_script(script, comp):
    import random as _random
    import rt
    import mocks
    import scales.loadbalancer.heap as heapmod
    from scales.loadbalancer.heap import HeapBalancerSink
    from scales.constants import SinkProperties, MessageProperties
    from scales.message import Message, MethodReturnMessage

    draws = []

    class LoggingRandom(object):
        def __init__(self, seed):
            self._r = _random.Random(seed)

        def randint(self, a, b):
            v = self._r.randint(a, b)
            draws.append(v)
            return v

        def __getattr__(self, name):
            return getattr(self._r, name)

    heapmod.random = LoggingRandom(script['seed'])
    nodes = []

    class TNode(HeapBalancerSink.Node):
        __slots__ = ('nid',)

        def __init__(self, *a, **kw):
            HeapBalancerSink.Node.__init__(self, *a, **kw)
            self.nid = len(nodes)
            nodes.append(self)

    ss = mocks.ServerSet()
    prov = mocks.ChanProvider()
    props = HeapBalancerSink.Builder._defaults.copy()
    props['server_set_provider'] = ss
    sink = HeapBalancerSink(prov, HeapBalancerSink.Builder.PARAMS_CLASS(**props), {SinkProperties.Label: 'v'})
    sink.Node = TNode
    sink.Open()
    rt.drain()

    def view(n):
        return [n.nid, mocks.ep_id(n.endpoint), n.load, n.index, prov.chans[n.nid].closes]

    def snapshot(res):
        heap = [view(n) for n in sink._heap[1:]]
        down, n, k = [], sink._downq, 0
        while n is not None and k <= len(nodes) + 1:
            down.append(n.nid)
            n = n.downq
            k += 1
        inheap = set(id(n) for n in sink._heap[1:])
        off = [view(n) for n in nodes if id(n) not in inheap]
        return vfmt([res, heap, down, off])

    steps, tags = [], set()
    stacks = []   # per dispatch: (stack, put_wrapper, done)
    getmap = []   # k-th `get` of the script -> dispatch id or None
    for op in script['ops']:
        kind = op[0]
        res = None
        del draws[:]
        if kind == 'join':
            ss.on_join(mocks.server(op[1]))
            optxt = 'join %d' % op[1]
        elif kind == 'leave':
            ss.on_leave(mocks.server(op[1]))
            optxt = 'leave %d' % op[1]
        elif kind == 'chan':
            if op[1] >= len(prov.chans):
                continue
            prov.chans[op[1]].state = op[2]
            optxt = 'chan %d %d' % (op[1], op[2])
        elif kind == 'get':
            st, rec = mocks.new_stack()
            msg = Message()
            before = len(prov.log)
            sink.AsyncProcessRequest(st, msg, None, {})
            got = [e for e in prov.log[before:] if e[0] == 'req']
            if rec.got:
                err = rec.got[0].error
                res = 'nomembers' if type(err).__name__ == 'NoMembersError' else ['error', type(err).__name__]
                getmap.append(None)
            elif len(got) == 1:
                cid = got[0][1]
                ep = msg.properties.get(MessageProperties.Endpoint)
                res = ['node', cid, mocks.ep_id(ep), len(stacks)]
                wrapper = st._stack[-1][1] if st._stack else None
                getmap.append(len(stacks))
                stacks.append((st, wrapper, False))
            else:
                res = ['lost', len(got)]
                getmap.append(None)
            optxt = 'get'
        elif kind == 'put':
            if op[1] >= len(getmap) or getmap[op[1]] is None:
                continue
            r = getmap[op[1]]
            st, wrapper, done = stacks[r]
            if wrapper is None:
                continue
            if not done:
                st.AsyncProcessResponseMessage(MethodReturnMessage())
                stacks[r] = (st, wrapper, True)
            else:
                wrapper()           # duplicate completion through the same wrapper
                tags.add('dup-put')
            optxt = 'put %d %d' % (r, draws[0] if draws else 0)
            if draws:
                tags.add('idle-put')
        else:
            raise ValueError(kind)
        rt.drain()
        steps.append([optxt, snapshot(res)])
        errs = rt.take_errors()
        if errs:
            steps.append(['get', vfmt(['raised', errs[0][0]])])
            tags.add('raised')
    kinds = set(o[0] for o in script['ops'])
    if 'leave' in kinds:
        tags.add('leave')
    if any(o[0] == 'chan' and o[2] != 2 for o in script['ops']):
        tags.add('chan-down')
    if sink._downq is not None:
        tags.add('downlist')
    if any(n.index < 0 for n in nodes):
        tags.add('removed')
    tags.add('members%d' % min(len(nodes), 9))
    return {'comp': comp, 'cfg': '', 'steps': steps, 'tags': sorted(tags)}


def nontrivial(case):
    t = set(case.get('tags', []))
    return bool(t & {'idle-put', 'leave', 'chan-down', 'downlist', 'removed', 'dup-put'})
