"""C09, component `resurrector`: the real scales.resurrector.ResurrectorSink over harness channels.

The next sinks are harness objects (`RChan`) whose `Open()` follows the endpoint's reachability at
the moment of the call (up: completes, down: fails at once, hang: stays pending until the script
resolves it), whose fault signal is raised by the script, and which log create/open/close.  The
resurrector module's `gevent` name is replaced by a proxy that logs `sleep` durations and spawned
greenlets (nothing is changed in what they do): this is how the harness learns the instant the retry
greenlet will wake, so that clock ticks can be aligned with it.

Script: {'kind': 'res', 'cfg': [init_s, max_s, exponent], 'ops': [[name, args…], …]}
ops: open | req | fault k | done k ok | turn | reach up|down|hang | tick ms | near | wake | close
(k selects a created sink: k mod number created; ops that cannot apply are dropped).
"""
import gevent

import rt
from lib import vfmt
from scales.asynchronous import AsyncResult
from scales.constants import ChannelState, SinkProperties
from scales.core import ScalesUriParser
from scales.message import FailedFastError
from scales.sink import ClientMessageSink, SinkProviderBase
import scales.resurrector as resmod
from mocks import new_stack

COMPONENT = 'resurrector'
STATE = {ChannelState.Idle: 'idle', ChannelState.Open: 'open', ChannelState.Busy: 'busy',
         ChannelState.Closed: 'closed'}


class ConnErr(Exception):
    pass


class Env(object):
    def __init__(self):
        self.reach = 'up'
        self.events = []      # events of the current op
        self.chans = []


class RChan(ClientMessageSink):
    def __init__(self, env, cid):
        super(RChan, self).__init__()
        self.env, self.cid = env, cid
        self._state = ChannelState.Idle
        self.ar = None
        self.requests = []

    def AsyncProcessRequest(self, sink_stack, msg, stream, headers):
        self.requests.append(sink_stack)
        self.env.events.append(['fwd', self.cid])

    def AsyncProcessResponse(self, sink_stack, context, stream, msg):
        pass

    @property
    def state(self):
        return self._state

    def Open(self):
        r = self.env.reach
        self.env.events.append(['open', self.cid, r])
        self.ar = AsyncResult()
        if r == 'up':
            self._state = ChannelState.Open
            self.ar.set()
        elif r == 'down':
            self._state = ChannelState.Closed
            self.ar.set_exception(ConnErr('refused'))
        return self.ar

    def Close(self):
        self._state = ChannelState.Closed
        self.env.events.append(['close', self.cid])


class RProvider(SinkProviderBase):
    def __init__(self, env):
        super(RProvider, self).__init__()
        self.env = env

    def CreateSink(self, properties):
        c = RChan(self.env, len(self.env.chans))
        self.env.chans.append(c)
        self.env.events.append(['create', c.cid])
        return c

    @property
    def sink_class(self):
        return RChan


class GProxy(object):
    """stands for the name `gevent` inside scales.resurrector: same functions, logged."""

    def __init__(self):
        self.sleeping = None      # (duration, loop time at call) while a sleep is in progress
        self.sleeps = []          # all durations, in order
        self.greenlets = []

    def __getattr__(self, name):
        return getattr(gevent, name)

    def sleep(self, seconds=0, ref=True):
        if gevent.getcurrent() not in self.greenlets:
            return gevent.sleep(seconds)      # the caller of AsyncProcessRequest yielding
        self.sleeps.append(seconds)
        self.sleeping = (seconds, rt.loop.now())
        try:
            gevent.sleep(seconds)
        finally:
            self.sleeping = None

    def spawn(self, *a, **kw):
        g = gevent.spawn(*a, **kw)
        self.greenlets.append(g)
        return g


def us(seconds):
    return int(round(seconds * 1e6))


_TABLES = {}


def backoff_table(cfg, n=14):
    """the first n retry waits (µs) as computed by the real _TryResurrect against an endpoint that
    always refuses"""
    key = tuple(cfg)
    if key in _TABLES:
        return _TABLES[key]
    env = Env()
    env.reach = 'down'
    proxy = GProxy()
    old = resmod.gevent
    resmod.gevent = proxy
    try:
        r = make(env, cfg)
        r.Open()
        env.chans[0].on_faulted.Set(ConnErr('x'))
        rt.drain()
        guard = 0
        while len(proxy.sleeps) < n and guard < 10 * n:
            guard += 1
            if proxy.sleeping is None or proxy.sleeping[0] > 100 * max(cfg[1], 1):
                break         # (a wait far beyond the configured maximum: the table ends here)
            gevent.sleep(proxy.sleeping[0] + 0.001)
            rt.drain()
        r.Close()
        rt.drain()
    finally:
        resmod.gevent = old
    rt.take_errors()
    _TABLES[key] = [us(s) for s in proxy.sleeps[:n]]
    return _TABLES[key]


def make(env, cfg):
    props = {SinkProperties.Endpoint: ScalesUriParser.Endpoint('h', 8001), SinkProperties.Label: 'svc'}
    builder = resmod.ResurrectorSink.Builder(initial_wait_interval=cfg[0], max_wait_interval=cfg[1],
                                             backoff_exponent=cfg[2])
    builder.next_provider = RProvider(env)
    return builder.CreateSink(props)


def pending_callbacks():
    return any(not cb.stopped for cb in rt.loop._callbacks)


def run_script(script):
    cfg = script['cfg']
    table = backoff_table(cfg)
    env = Env()
    proxy = GProxy()
    old = resmod.gevent
    resmod.gevent = proxy
    steps, tags = [], set()
    ups = []
    try:
        r = make(env, cfg)
        r.on_faulted.Subscribe(lambda v: ups.append(v))
        st = {'now': 0, 'wake': None, 'nreq': 0, 'closed': False, 'opened': False}

        def res_status():
            if not proxy.greenlets:
                return 'none'
            g = proxy.greenlets[-1]
            if g.dead:
                return 'none'
            if g.gr_frame is None:
                return 'start'
            if proxy.sleeping is not None:
                return ['sleep', us(proxy.sleeping[0])]
            return ['opening', len(env.chans) - 1]

        def observe(resp):
            subs = [c.cid for c in env.chans if c.on_faulted._callbacks and
                    r._OnSinkFaulted in c.on_faulted._callbacks]
            nxt = r.next_sink.cid if r.next_sink is not None else None
            ev = env.events
            env.events = []
            errs = rt.take_errors()
            if errs:
                tags.add('hub-error')
                ev = ev + [['raised', errs[0][0]]]
            o = [nxt, bool(r._down_on), STATE[r.state], res_status(), subs, ev, resp, len(ups),
                 pending_callbacks()]
            return vfmt(o)

        def emit(op, resp=None):
            steps.append([op, observe(resp)])

        def settle():
            n = 0
            while pending_callbacks():
                gevent.sleep(0)
                emit('turn')
                n += 1
                if n > 50:
                    raise RuntimeError('callbacks never settle')

        def tick(d_us):
            """advance the clock by d_us (callbacks are settled first)"""
            settle()
            target = rt.loop.now() + d_us / 1e6
            nsleeps = len(proxy.sleeps)
            was = proxy.sleeping
            gevent.sleep(d_us / 1e6)
            hits_wake = st['wake'] is not None and st['now'] + d_us == st['wake']
            if hits_wake:
                guard = 0
                # the retry greenlet's timer and ours are a float tie: let it fire if it has not yet
                while proxy.sleeping is was and was is not None and guard < 5:
                    guard += 1
                    rem = was[1] + was[0] - rt.loop.now()
                    gevent.sleep(max(rem, 0) + 1e-7)
            st['now'] += d_us
            track_wake()
            emit('tick %d' % d_us)

        def track_wake():
            if proxy.sleeping is not None:
                # wake instant in harness µs: instant of the call (harness clock) + duration
                if proxy.sleeping is not st.get('sl_obj'):
                    st['sl_obj'] = proxy.sleeping
                    st['wake'] = st['now'] + us(proxy.sleeping[0])
            else:
                st['sl_obj'] = None
                st['wake'] = None

        for item in script['ops']:
            name = item[0]
            if name == 'open':
                if st['opened'] or st['closed']:
                    continue
                st['opened'] = True
                ar = r.Open()
                tags.add('open-' + env.reach)
                emit('open')
            elif name == 'req':
                stack, rec = new_stack()
                r.AsyncProcessRequest(stack, None, None, {})
                if rec.got:
                    err = rec.got[0].error
                    resp = 'ff' if isinstance(err, FailedFastError) else 'other'
                    tags.add('failfast')
                elif env.events and env.events[-1][0] == 'fwd':
                    resp = ['fwd', env.events[-1][1]]
                    tags.add('forwarded')
                else:
                    resp = 'lost'
                track_wake()
                emit('req', resp)
            elif name == 'fault':
                if not env.chans:
                    continue
                c = env.chans[item[1] % len(env.chans)]
                if c.ar is not None and not c.ar.ready():
                    continue      # a channel whose Open() is pending fails the Open() instead
                c._state = ChannelState.Closed
                c.on_faulted.Set(ConnErr('fault'))
                tags.add('fault-current' if c is r.next_sink else 'fault-stale')
                emit('fault %d' % c.cid)
            elif name == 'done':
                cands = [c for c in env.chans if c.ar is not None and not c.ar.ready()]
                if not cands:
                    continue
                c = cands[item[1] % len(cands)]
                if item[2]:
                    c._state = ChannelState.Open
                    c.ar.set()
                else:
                    c._state = ChannelState.Closed
                    c.ar.set_exception(ConnErr('refused late'))
                tags.add('hang-resolved-' + ('ok' if item[2] else 'fail'))
                emit('done %d %s' % (c.cid, 'T' if item[2] else 'F'))
            elif name == 'turn':
                gevent.sleep(0)
                track_wake()
                emit('turn')
            elif name == 'reach':
                env.reach = item[1]
                emit('reach %s' % item[1])
            elif name == 'tick':
                d = int(item[1]) * 1000
                if d <= 0:
                    continue
                settle()
                track_wake()
                # never end within 1 ms before the wake instant: go to it exactly instead;
                # never jump over it: split
                while d > 0:
                    w = st['wake']
                    if w is not None and st['now'] + d > w - 1000:
                        step = w - st['now']
                        tags.add('retry')
                    else:
                        step = d
                    tick(step)
                    d -= step
                    settle()
                    track_wake()
                    if step == 0:
                        break
            elif name == 'near':
                # to 1 ms before the retry greenlet's wake instant
                settle()
                track_wake()
                if st['wake'] is None or st['wake'] - st['now'] <= 1000 or st['wake'] - st['now'] > 10 ** 12:
                    continue
                tick(st['wake'] - st['now'] - 1000)
            elif name == 'wake':
                settle()
                track_wake()
                if st['wake'] is None or st['wake'] - st['now'] > 10 ** 12:
                    continue      # (a wait of more than 11 days: not a sane configuration)
                tags.add('retry')
                tick(st['wake'] - st['now'])
            elif name == 'close':
                if st['closed']:
                    continue
                st['closed'] = True
                r.Close()
                tags.add('close-while-' + ('down' if proxy.greenlets and not proxy.greenlets[-1].dead else 'up'))
                emit('close')
            track_wake()
        settle()
        if len(proxy.sleeps) >= 3:
            tags.add('backoff3')
        if len(proxy.sleeps) >= len([w for w in table if w < table[-1]]) + 1:
            tags.add('capped')
        if any(e for e in ups):
            tags.add('went-down')
    finally:
        resmod.gevent = old
        try:
            r.Close()
            rt.drain()
        except Exception:
            pass
        rt.take_errors()
    cfgtxt = vfmt([us(cfg[0]), us(cfg[1]), table])[1:-1]
    return {'comp': COMPONENT, 'cfg': cfgtxt, 'steps': steps, 'tags': sorted(tags)}
