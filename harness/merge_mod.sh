#!/bin/sh
# merge_mod.sh <slice>: after merge_ws.py, bring the slice's *modified* files over (3-way apply of its diff, else report)
ws=/work/$1/verif
cd /verif
for f in $(git -C $ws diff --name-only --diff-filter=M HEAD | grep -v -E '^(evidence/|replays/|MANIFEST.json|known_findings.json|lean/theorems.lock|lean/ScalesModel.lean|lean/Driver/Main.lean|DESIGN.md)'); do
  git -C $ws diff HEAD -- "$f" > /verif/.work/merge.diff
  if git apply --3way /verif/.work/merge.diff 2>/verif/.work/merge.err; then echo "applied $f"; else echo "CONFLICT $f: $(head -2 /verif/.work/merge.err)"; fi
done
rm -f /verif/.work/merge.diff /verif/.work/merge.err
