"""Runs the implementation (the real code from /repo) on generated or given scripts.

usage: worker.py <PROP> <job.json> <out.jsonl>
The environment (GEVENT_LOOP, PYTHONPATH) is prepared by lib.worker_env()."""
import json
import os
import random
import sys
import traceback


def main():
    prop, job_file, out_file = sys.argv[1:4]
    job = json.load(open(job_file))
    here = os.path.dirname(os.path.abspath(__file__))
    sys.path.insert(0, here)
    import rt  # noqa: installs the virtual loop / clock before scales is imported
    import importlib
    mod = importlib.import_module('props.' + prop.lower())
    out = open(out_file, 'w')

    def emit(rec):
        out.write(json.dumps(rec) + '\n')
        out.flush()

    if job['mode'] == 'gen':
        rng = random.Random(job['seed'])
        scripts = (mod.gen_script(rng, job.get('tier', 'quick')) for _ in range(job['n']))
    elif job['mode'] == 'exhaustive':
        scripts = mod.exhaustive(job.get('tier', 'quick'), job.get('shard', 0), job.get('shards', 1))
    else:
        scripts = job['scripts']
    for script in scripts:
        emit({'begin': script})
        try:
            case = mod.run_script(script)
        except BaseException as ex:  # the harness itself failed: report, never hide
            case = {'comp': getattr(mod, 'COMPONENT', '?'), 'cfg': 'harness-error',
                    'steps': [], 'tags': ['harness-error'],
                    'error': ''.join(traceback.format_exception(type(ex), ex, ex.__traceback__))[-1500:]}
        case['script'] = script
        emit(case)
    out.close()


if __name__ == '__main__':
    main()
