"""Runs the implementation (the real code from /repo) on generated or given scripts.

usage: worker.py <PROP> <job.json> <out.jsonl> [<skip> <hangs>]
The environment (GEVENT_LOOP, PYTHONPATH) is prepared by lib.worker_env().

Watchdog: a script that burns more than SCRIPT_CPU_LIMIT seconds of CPU is recorded as a `hang`
case (with the Python stack at that moment) and the worker re-executes itself, skipping the
scripts already done, so that a non-terminating implementation neither blocks the check nor
contaminates later scripts.  After MAX_HANGS hangs the job stops."""
import itertools
import json
import os
import random
import signal
import sys
import traceback
import zlib

SCRIPT_CPU_LIMIT = float(os.environ.get('VERIF_SCRIPT_CPU_LIMIT', '20'))
MAX_HANGS = 3


def main():
    prop, job_file, out_file = sys.argv[1:4]
    skip = int(sys.argv[4]) if len(sys.argv) > 4 else 0
    hangs = int(sys.argv[5]) if len(sys.argv) > 5 else 0
    job = json.load(open(job_file))
    here = os.path.dirname(os.path.abspath(__file__))
    sys.path.insert(0, here)
    import rt  # noqa: installs the virtual loop / clock before scales is imported
    import importlib
    mod = importlib.import_module('props.' + prop.lower())
    out = open(out_file, 'a' if skip else 'w')

    def emit(rec):
        out.write(json.dumps(rec) + '\n')
        out.flush()

    if job['mode'] == 'gen':
        rng = random.Random(job['seed'])
        scripts = (mod.gen_script(rng, job.get('tier', 'quick')) for _ in range(job['n']))
    elif job['mode'] == 'exhaustive':
        scripts = mod.exhaustive(job.get('tier', 'quick'), job.get('shard', 0), job.get('shards', 1))
    else:
        scripts = job['scripts']
    state = {'done': skip, 'script': None}

    def on_hang(signum, frame):
        stack = ''.join(traceback.format_stack(frame)[-12:])
        emit({'comp': getattr(mod, 'COMPONENT', '?'), 'cfg': 'harness-error', 'steps': [],
              'tags': ['harness-error', 'hang'], 'script': state['script'],
              'error': 'the implementation did not finish this script within %.0f s of CPU time; stack:\n%s'
                       % (SCRIPT_CPU_LIMIT, stack[-1500:])})
        out.close()
        if hangs + 1 >= MAX_HANGS:
            os._exit(0)
        os.execv(sys.executable, [sys.executable, os.path.abspath(__file__), prop, job_file, out_file,
                                  str(state['done'] + 1), str(hangs + 1)])

    signal.signal(signal.SIGPROF, on_hang)
    for script in itertools.islice(scripts, skip, None):
        state['script'] = script
        signal.setitimer(signal.ITIMER_PROF, SCRIPT_CPU_LIMIT)
        emit({'begin': script})
        # the code under verification draws from the global generator (server-set shuffle, ping period, jitter):
        # seed it from the script so that a script behaves the same in a sweep, in a shrink step and in a replay
        random.seed(zlib.crc32(json.dumps(script, sort_keys=True, default=str).encode()))
        try:
            case = mod.run_script(script)
        except BaseException as ex:  # the harness itself failed: report, never hide
            case = {'comp': getattr(mod, 'COMPONENT', '?'), 'cfg': 'harness-error',
                    'steps': [], 'tags': ['harness-error'],
                    'error': ''.join(traceback.format_exception(type(ex), ex, ex.__traceback__))[-1500:]}
            # an internal error (a name / attribute / call / key / index that does not exist, …) raised by the code under verification
            # itself and escaping from one of its entry points: the script is a concrete input on which it crashes
            tb = ex.__traceback__
            while tb is not None and tb.tb_next is not None:
                tb = tb.tb_next
            origin = os.path.realpath(tb.tb_frame.f_code.co_filename) if tb is not None else ''
            impl_root = os.path.realpath(os.path.join(os.environ.get('SCALES_REPO', '/repo'), 'scales')) + os.sep
            if isinstance(ex, (NameError, AttributeError, TypeError, LookupError, ZeroDivisionError, RecursionError)) \
                    and origin.startswith(impl_root):
                case['tags'].append('impl-internal-error')
                case['origin'] = '%s:%d %s' % (os.path.relpath(origin, impl_root), tb.tb_lineno, type(ex).__name__)
        case['script'] = script
        signal.setitimer(signal.ITIMER_PROF, 0)
        emit(case)
        state['done'] += 1
    out.close()


if __name__ == '__main__':
    main()
