"""C04 — load conservation and drain-then-close: real HeapBalancerSink vs Model/Heap.lean, spec `specC04`."""
import heaprun

PROPERTY = 'C04'
COMPONENT = 'heap4'
QUICK = dict(gen=800)
THOROUGH = dict(gen=20000)
TRUSTED = ['harness channels/server set standing for the next sinks (harness/mocks.py)',
           'random.randint drawn by __Put is recorded from the run and passed to the model']
SOURCE_IMPORTS = ['ScalesModel.Model.Heap']
SOURCE_CONSTANTS = {
    'Scales.Heap.Idle': ('from scales.loadbalancer.heap import HeapBalancerSink as H', 'H.Idle'),
    'Scales.Heap.Penalty': ('from scales.loadbalancer.heap import HeapBalancerSink as H', 'H.Penalty'),
    'Scales.Heap.chOpen': ('from scales.constants import ChannelState', 'ChannelState.Open'),
}
ASSUMPTIONS = ['channel states change only between balancer calls (gevent is cooperative)',
               'fewer than 2^31-1 dispatches in the history (theorem hypothesis getCount ops < 2147483647, part of the reported wf)']


def gen_script(rng, tier):
    return heaprun.gen_script(rng, tier, 4)


def exhaustive(tier, shard, shards):
    return heaprun.exhaustive(tier, shard, shards)


shrink = heaprun.shrink
nontrivial = heaprun.nontrivial


def run_script(script):
    return heaprun.run_script(script, COMPONENT)
