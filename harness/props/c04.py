"""C04 — load conservation and drain-then-close.
component heap4:     real HeapBalancerSink vs Model/Heap.lean, spec `specC04` (Adapter/Heap.lean);
component aperture4: real ApertureBalancerSink / HeapBalancerSink behind base.py's gate (they inherit __Put and
                     _RemoveSink) vs Model/Aperture.lean, spec `specC04A` (Adapter/ApertureHeap.lean).  A request
                     that timed out while it waited for the open result (`getd` … `expire k`, real _TimeoutHelper) has
                     completed: if it is dispatched afterwards it is not outstanding, a load booked for it is a failure.
Every case names its own component."""
import heaprun
import lbrun

PROPERTY = 'C04'
import isolation as _iso
ISOLATION = [(n, getattr(_iso, n)) for n in ['heap_balancer','aperture_balancer']]      # instance-isolation obligation (harness/isolation.py)
COMPONENT = 'heap4'
QUICK = dict(gen=1100)
THOROUGH = dict(gen=26000)
TRUSTED = ['harness channels/server set standing for the next sinks (harness/mocks.py, harness/lbrun.py)',
           'random.randint drawn by __Put is recorded from the run and passed to the model',
           'aperture4: random.shuffle / random.choice results are recorded from the run and passed to the model; '
           'EMA values are taken from the real Ema.Update as exact rationals']
SOURCE_IMPORTS = ['ScalesModel.Model.Heap']
SOURCE_CONSTANTS = {
    'Scales.Heap.Idle': ('from scales.loadbalancer.heap import HeapBalancerSink as H', 'H.Idle'),
    'Scales.Heap.Penalty': ('from scales.loadbalancer.heap import HeapBalancerSink as H', 'H.Penalty'),
    'Scales.Heap.chOpen': ('from scales.constants import ChannelState', 'ChannelState.Open'),
}
SOURCE_SITES = [
    dict(name='genNodeLt', file='scales/loadbalancer/heap.py', func='HeapBalancerSink.Node.__lt__', kind='return-bool',
         varmap={'self.load': 'sl', 'self.index': 'si', 'other.load': 'ol', 'other.index': 'oi'},
         params=['sl', 'si', 'ol', 'oi'],
         obligation='theorem genNodeLt_eq (a b : Scales.Heap.Node) : a.lt b = genNodeLt a.load a.index b.load b.index := by\n'
                    '  unfold Scales.Heap.Node.lt genNodeLt; by_cases h1 : a.load > b.load <;> by_cases h2 : a.load < b.load <;> simp [h1, h2]'),
    dict(name='genPutLoad', file='scales/loadbalancer/heap.py', func='HeapBalancerSink._HeapBalancerSink__Put'.replace('_HeapBalancerSink', ''), kind='after',
         marker=('n.load -= 1', 'if n.index < 0'), var='n.load',
         varmap={'n.load': 'load', 'self.Idle': 'Scales.Heap.Idle'}, params=['load'],
         obligation='theorem genPutLoad_eq (load : Int) : genPutLoad load = (if load - 1 < Scales.Heap.Idle then Scales.Heap.Idle else load - 1) := by\n'
                    '  unfold genPutLoad; rfl'),
    dict(name='genCloseNow', file='scales/loadbalancer/heap.py', func='HeapBalancerSink._RemoveSink', kind='cond',
         marker='node.load == self.Idle',
         varmap={'node.load': 'load', 'self.Idle': 'Scales.Heap.Idle'}, params=['load'],
         obligation='theorem genCloseNow_eq (load : Int) : genCloseNow load = decide (load = Scales.Heap.Idle ∨ load ≥ 0) := by\n'
                    '  unfold genCloseNow; rfl'),
]
ASSUMPTIONS = ['channel states change only between balancer calls (gevent is cooperative)',
               'fewer than 2^31-1 dispatches in the history (theorem hypothesis getCount ops < 2147483647, part of the reported wf)',
               'aperture4: the hypotheses of C05/C06 (Open() first, one truthful initial load, every recorded random choice '
               'legal) and fewer than 2^31-1 dispatches (wfH)']


APERTURE_COMPONENT = 'aperture4'
RULE = ('scripts from the seeded generators: heap4 — join/leave/get/put/chan histories on the plain heap balancer plus '
        'every get/put word up to the exhaustive length over 5 open members; aperture4 — the aperture balancer (and the '
        'heap balancer behind the gate) with min_size >= 3, idle endpoints outside the aperture, requests kept '
        'outstanding, faults on the root member and on busy members, bursts of dispatches after each fault, plus '
        'general aperture dynamics; distinct = distinct (cfg, op list); non-trivial = reaches a closed channel, the '
        'down list, an expansion/contraction, a removal or an idle completion')


def is_lb(script):
    return 'kind' in script


def gen_script(rng, tier):
    r = rng.random()
    if r < 0.27:
        return lbrun.gen_script(rng, tier, 3)
    if r < 0.32:
        return lbrun.gen_script(rng, tier, 6)
    return heaprun.gen_script(rng, tier, 4)


def exhaustive(tier, shard, shards):
    return heaprun.exhaustive(tier, shard, shards)


def shrink(script):
    return lbrun.shrink(script) if is_lb(script) else heaprun.shrink(script)


def nontrivial(case):
    if case.get('comp') == APERTURE_COMPONENT:
        t = set(case.get('tags', []))
        return bool(t & {'chan-closed', 'downlist', 'expand', 'adj-expand', 'adj-contract', 'removed', 'idle-put',
                         'open-failed', 'jitter'})
    return heaprun.nontrivial(case)


def run_script(script):
    if is_lb(script):
        return lbrun.run_script(script, APERTURE_COMPONENT)
    return heaprun.run_script(script, COMPONENT)
