"""C04 — load conservation and drain-then-close: real HeapBalancerSink vs Model/Heap.lean, spec `specC04`."""
import heaprun

PROPERTY = 'C04'
COMPONENT = 'heap4'
QUICK = dict(gen=800)
THOROUGH = dict(gen=20000)
TRUSTED = ['harness channels/server set standing for the next sinks (harness/mocks.py)',
           'random.randint drawn by __Put is recorded from the run and passed to the model']
SOURCE_IMPORTS = ['ScalesModel.Model.Heap']
SOURCE_CONSTANTS = {
    'Scales.Heap.Idle': ('from scales.loadbalancer.heap import HeapBalancerSink as H', 'H.Idle'),
    'Scales.Heap.Penalty': ('from scales.loadbalancer.heap import HeapBalancerSink as H', 'H.Penalty'),
    'Scales.Heap.chOpen': ('from scales.constants import ChannelState', 'ChannelState.Open'),
}
SOURCE_SITES = [
    dict(name='genNodeLt', file='scales/loadbalancer/heap.py', func='HeapBalancerSink.Node.__lt__', kind='return-bool',
         varmap={'self.load': 'sl', 'self.index': 'si', 'other.load': 'ol', 'other.index': 'oi'},
         params=['sl', 'si', 'ol', 'oi'],
         obligation='theorem genNodeLt_eq (a b : Scales.Heap.Node) : a.lt b = genNodeLt a.load a.index b.load b.index := by\n'
                    '  unfold Scales.Heap.Node.lt genNodeLt; by_cases h1 : a.load > b.load <;> by_cases h2 : a.load < b.load <;> simp [h1, h2]'),
    dict(name='genPutLoad', file='scales/loadbalancer/heap.py', func='HeapBalancerSink._HeapBalancerSink__Put'.replace('_HeapBalancerSink', ''), kind='after',
         marker=('n.load -= 1', 'if n.index < 0'), var='n.load',
         varmap={'n.load': 'load', 'self.Idle': 'Scales.Heap.Idle'}, params=['load'],
         obligation='theorem genPutLoad_eq (load : Int) : genPutLoad load = (if load - 1 < Scales.Heap.Idle then Scales.Heap.Idle else load - 1) := by\n'
                    '  unfold genPutLoad; rfl'),
    dict(name='genCloseNow', file='scales/loadbalancer/heap.py', func='HeapBalancerSink._RemoveSink', kind='cond',
         marker='node.load == self.Idle',
         varmap={'node.load': 'load', 'self.Idle': 'Scales.Heap.Idle'}, params=['load'],
         obligation='theorem genCloseNow_eq (load : Int) : genCloseNow load = decide (load = Scales.Heap.Idle ∨ load ≥ 0) := by\n'
                    '  unfold genCloseNow; rfl'),
]
ASSUMPTIONS = ['channel states change only between balancer calls (gevent is cooperative)',
               'fewer than 2^31-1 dispatches in the history (theorem hypothesis getCount ops < 2147483647, part of the reported wf)']


def gen_script(rng, tier):
    return heaprun.gen_script(rng, tier, 4)


def exhaustive(tier, shard, shards):
    return heaprun.exhaustive(tier, shard, shards)


shrink = heaprun.shrink
nontrivial = heaprun.nontrivial


def run_script(script):
    return heaprun.run_script(script, COMPONENT)
