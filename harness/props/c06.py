"""C06 — the aperture keeps a partitioned, bounded, load-tracking active subset: the real
ApertureBalancerSink (virtual clock driving MonoClock/Ema) vs Model/Aperture.lean; spec `specC06`."""
import lbrun

PROPERTY = 'C06'
COMPONENT = 'aperture'
QUICK = dict(gen=1800)
THOROUGH = dict(gen=20000)
SOURCE_IMPORTS = ['ScalesModel.Model.Aperture']
# the three-way decision of `_AdjustAperture`, translated from the current source on every run (harness/pytrans.py);
# the obligation: the model's `AS.decision` is that decision applied to the model state, for every state and load
SOURCE_SITES = [
    dict(name='genAdjBranch', file='scales/loadbalancer/aperture.py', func='ApertureBalancerSink._AdjustAperture',
         kind='branch', marker='aperture_load >= self._max_load',
         varmap={'aperture_load': 'load', 'self._max_load': 'maxl', 'self._min_load': 'minl',
                 'self._idle_endpoints': 'hasIdle', 'aperture_size': 'size', 'self._max_size': 'mx',
                 'self._min_size': 'mn'},
         params=['load : Rat', 'maxl : Rat', 'minl : Rat', 'hasIdle : Bool', 'size : Nat', 'mx : Nat', 'mn : Nat'],
         obligation='open Scales.Aperture\ntheorem genAdjBranch_eq (cfg : Cfg) (a : AS) (avg : Rat) :\n    a.decision cfg avg =\n      (match genAdjBranch (apLoad cfg a.hs.size avg) cfg.maxLoad cfg.minLoad (!a.idle.isEmpty) a.hs.size\n          cfg.maxSize cfg.minSize with\n       | 0 => .expand\n       | 1 => .contract\n       | _ => .stay) := by\n  unfold AS.decision genAdjBranch\n  by_cases h1 : cfg.maxLoad ≤ apLoad cfg a.hs.size avg <;> by_cases h2 : a.idle = [] <;>\n    by_cases h3 : a.hs.size < cfg.maxSize <;> by_cases h4 : apLoad cfg a.hs.size avg ≤ cfg.minLoad <;>\n    by_cases h5 : cfg.minSize < a.hs.size <;> simp [h1, h2, h3, h4, h5, ge_iff_le, gt_iff_lt]\n'),
]
TRUSTED = ['harness channels / server set standing for the next sinks and the provider (harness/lbrun.py)',
           'random.choice / random.randint results are recorded from the run and passed to the model',
           'the EMA value of each _AdjustAperture call is taken from the real Ema.Update (exact rational of the float); '
           'math.exp and float division are not modelled',
           '_ScheduleNextJitter is replaced by a no-op: the harness starts each jitter round itself']
ASSUMPTIONS = ['decisions whose load is within 1e-9 of a bound (but not on it) end the script (float division is not '
               'modelled); they are counted under the tag near-bound-stop',
               'the settles-inside-the-band clause is proved for the idealised EMA, min_size >= 1 and '
               '2*min_load < max_load (C06_settles_partial); C06_oscillation_counterexample shows it fails otherwise',
               'at most one jitter round is in flight (the implementation reschedules only when a round has ended)']
RULE = ('scripts from the seeded generator over a grid of (min_size, max_size, min_load, max_load, member count), '
        'traffic hovering around stepped outstanding levels with virtual time passing, member failures, joins/leaves, '
        'slow and failing opens, jitter rounds; non-trivial = reaches an expansion, a contraction, a jitter round, a '
        'closed channel, a failed open or a removal')


def gen_script(rng, tier):
    return lbrun.gen_script(rng, tier, 6)


shrink = lbrun.shrink
nontrivial = lbrun.nontrivial


def run_script(script):
    return lbrun.run_script(script, COMPONENT)
