"""C06 — the aperture keeps a partitioned, bounded, load-tracking active subset: the real
ApertureBalancerSink (virtual clock driving MonoClock/Ema; the wall clock MonoClock reads can be stepped
backwards by the script) vs Model/Aperture.lean + Model/Ema.lean (MonoClock, Ema); spec `specC06`."""
import lbrun

PROPERTY = 'C06'
import isolation as _iso
ISOLATION = [(n, getattr(_iso, n)) for n in ['aperture_balancer']]      # instance-isolation obligation (harness/isolation.py)
COMPONENT = 'aperture'
QUICK = dict(gen=1800)
THOROUGH = dict(gen=20000)
SOURCE_IMPORTS = ['ScalesModel.Model.Aperture', 'ScalesModel.Proofs.EmaLemmas']
_SAMPLE_OBLIGATION = (
    'theorem genSample_eq (last now : Int) :\n'
    '    ((genSampleRet last now : Int) : Rat) = Scales.MonoClock.sample (last : Rat) (now : Rat) ∧\n'
    '    ((genSampleLast last now : Int) : Rat) = Scales.MonoClock.sample (last : Rat) (now : Rat) := by\n'
    '  unfold genSampleRet genSampleLast Scales.MonoClock.sample\n'
    '  have h : ((now : Rat) - (last : Rat) > 0) ↔ (now - last > (0 : Int)) := by\n'
    '    rw [gt_iff_lt, gt_iff_lt, ← Int.cast_sub]; exact Int.cast_pos\n'
    '  by_cases hc : now - last > (0 : Int)\n'
    '  · rw [if_pos hc, if_pos (h.2 hc)]; exact ⟨rfl, rfl⟩\n'
    '  · rw [if_neg hc, if_neg (fun x => hc (h.1 x))]; exact ⟨rfl, rfl⟩\n')
# the three-way decision of `_AdjustAperture`, translated from the current source on every run (harness/pytrans.py);
# the obligation: the model's `AS.decision` is that decision applied to the model state, for every state and load
SOURCE_SITES = [
    dict(name='genAdjBranch', file='scales/loadbalancer/aperture.py', func='ApertureBalancerSink._AdjustAperture',
         kind='branch', marker='aperture_load >= self._max_load',
         varmap={'aperture_load': 'load', 'self._max_load': 'maxl', 'self._min_load': 'minl',
                 'self._idle_endpoints': 'hasIdle', 'aperture_size': 'size', 'self._max_size': 'mx',
                 'self._min_size': 'mn'},
         params=['load : Rat', 'maxl : Rat', 'minl : Rat', 'hasIdle : Bool', 'size : Nat', 'mx : Nat', 'mn : Nat'],
         obligation='open Scales.Aperture\ntheorem genAdjBranch_eq (cfg : Cfg) (a : AS) (avg : Rat) :\n    a.decision cfg avg =\n      (match genAdjBranch (apLoad cfg a.hs.size avg) cfg.maxLoad cfg.minLoad (!a.idle.isEmpty) a.hs.size\n          cfg.maxSize cfg.minSize with\n       | 0 => .expand\n       | 1 => .contract\n       | _ => .stay) := by\n  unfold AS.decision genAdjBranch\n  by_cases h1 : cfg.maxLoad ≤ apLoad cfg a.hs.size avg <;> by_cases h2 : a.idle = [] <;>\n    by_cases h3 : a.hs.size < cfg.maxSize <;> by_cases h4 : apLoad cfg a.hs.size avg ≤ cfg.minLoad <;>\n    by_cases h5 : cfg.minSize < a.hs.size <;> simp [h1, h2, h3, h4, h5, ge_iff_le, gt_iff_lt]\n'),
    # `MonoClock.Sample`: the value it returns and the `_last` it leaves, translated from the current source (over the
    # integers: the translator types numerals as Int); the obligation: both are the model's `MonoClock.sample`
    dict(name='genSampleRet', file='scales/varz.py', func='MonoClock.Sample', kind='return-int',
         varmap={'time.time()': 'now', 'self._last': 'last'}, params=['last', 'now'], obligation=''),
    dict(name='genSampleLast', file='scales/varz.py', func='MonoClock.Sample', kind='final', var='self._last',
         varmap={'time.time()': 'now', 'self._last': 'last'}, params=['last', 'now'], obligation=_SAMPLE_OBLIGATION),
]
TRUSTED = ['harness channels / server set standing for the next sinks and the provider (harness/lbrun.py)',
           'random.choice / random.randint results are recorded from the run and passed to the model',
           'scales.varz.Ema.Update is wrapped ON THE CLASS for the duration of a script (what each call was given, held before '
           'and returned goes on record): the Ema object the balancer uses is the one the code under test made for itself',
           'a second ApertureBalancerSink of the same process (harness/isolation.py aperture_balancer(), four members, mock '
           'channels) takes one request before every aperture script and the requests of the `decoy` operations: nothing of '
           'it is recorded or passed to the model',
           'the EMA value of each _AdjustAperture call is taken from the real Ema.Update (exact rational of the float) and '
           'the decay weight from the real math.exp call inside it (scales.varz.math is a logging proxy); math.exp and '
           'float arithmetic are not modelled: the model checks one exact EMA step against the recorded value within '
           '1e-9 (relative) and that the weight is one exp(-dt/window) can take for its own time delta dt',
           'scales.varz.time is a harness clock (virtual loop clock + an offset the script decreases): the wall-clock '
           'readings of MonoClock are recorded and passed to the model, whose own MonoClock predicts every time delta',
           '_ScheduleNextJitter is replaced by a no-op: the harness starts each jitter round itself']
ASSUMPTIONS = ['decisions whose load is within 1e-9 of a bound (but not on it) end the script (float division is not '
               'modelled); they are counted under the tag near-bound-stop',
               'the settles-inside-the-band clause is proved for the idealised EMA, min_size >= 1 and '
               '2*min_load < max_load (C06_settles_partial); C06_oscillation_counterexample shows it fails otherwise',
               'at most one jitter round is in flight (the implementation reschedules only when a round has ended)',
               'wf6: the recorded decay weights lie where exp(-dt/window) can lie for the time deltas of the model '
               '(>= 0; <= 1 for dt >= 0; >= 1 for dt <= 0) and each recorded EMA value is within 1e-9 (relative) of the '
               'exact step from the previous recorded value (C06_weights_in_unit_interval, C06_model_satisfies_spec)']
RULE = ('scripts from the seeded generator over a grid of (min_size, max_size, min_load, max_load, member count), '
        'traffic hovering around stepped outstanding levels with virtual time passing and (half of the scripts) the wall '
        'clock stepping backwards 1 ms … 30 s one to four times, member failures, joins/leaves, '
        'slow and failing opens, jitter rounds, and (a fifth of the scripts, tag decoy-traffic) one to four bursts of 1 … 12 '
        'requests through a second aperture balancer of the same process, 100 ms … 5 s of virtual time before each, '
        'between the traffic of the balancer under test; non-trivial = reaches an expansion, a contraction, a jitter round, a '
        'closed channel, a failed open or a removal')


def gen_script(rng, tier):
    return lbrun.gen_script(rng, tier, 6)


shrink = lbrun.shrink
nontrivial = lbrun.nontrivial


def run_script(script):
    return lbrun.run_script(script, COMPONENT)
