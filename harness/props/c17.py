"""C17 — async combinators: run scales.asynchronous on real gevent results."""
import itertools

from lib import vfmt

PROPERTY = 'C17'
COMPONENT = 'async'
QUICK = dict(gen=600, exhaustive_n=3)
THOROUGH = dict(gen=6000, exhaustive_n=4)


# ------------------------------------------------------------------ generation
def gen_script(rng, tier):
    kind = rng.choice(['whenAll', 'whenAny', 'whenAll', 'whenAny', 'unwrap', 'unwrap', 'cw', 'map'])
    if kind in ('whenAll', 'whenAny'):
        n = rng.choice([1, 2, 3, 4, 5, 6, 8, 12] if tier == 'thorough' else [1, 2, 3, 4, 5, 8])
        p_ok = rng.choice([0.0, 0.5, 0.8, 1.0])
        outs = [['ok', rng.randrange(0, 50)] if rng.random() < p_ok else ['err', rng.randrange(1, 50)]
                for _ in range(n)]
        p_pre = rng.choice([0.0, 0.0, 0.3, 0.7, 1.0])
        pre = [rng.random() < p_pre for _ in range(n)]
        rest = [i for i in range(n) if not pre[i]]
        rng.shuffle(rest)
        if rng.random() < 0.2 and rest:   # a prefix only: some inputs never complete
            rest = rest[:rng.randrange(len(rest))]
        order = []
        for i in rest:
            order.append(i)
            if rng.random() < 0.6:
                order.append('D')
        return {'kind': kind, 'outs': outs, 'pre': pre, 'order': order}
    if kind == 'unwrap':
        d = rng.choice([1, 1, 2, 3, 4, 6])
        chain = ['inner'] * (d - 1)
        if rng.random() < 0.3:
            cut = rng.randrange(d)
            chain = chain[:cut] + [['fail', rng.randrange(1, 50)]]
        else:
            chain = chain + [['plain', rng.randrange(0, 50)]]
        d = len(chain)
        p_pre = rng.choice([0.0, 0.3, 0.7, 1.0])
        pre = [rng.random() < p_pre for _ in range(d)]
        rest = [k for k in range(d) if not pre[k]]
        rng.shuffle(rest)
        if rng.random() < 0.15 and rest:
            rest = rest[:rng.randrange(len(rest))]
        order = []
        for k in rest:
            order.append(k)
            if rng.random() < 0.6:
                order.append('D')
        return {'kind': 'unwrap', 'chain': chain, 'pre': pre, 'order': order}
    r = rng.random()
    # 'raisebase': the continuation raises an exception that does not derive from Exception (as gevent.Timeout
    # and GreenletExit do); "captures its result or exception" makes no difference, so the model is told 'raise'
    fn = ['ret', rng.randrange(0, 50)] if r < 0.6 else ['raise', rng.randrange(1, 50)] if r < 0.85 else \
        ['raisebase', rng.randrange(1, 50)]
    if kind == 'cw':
        return {'kind': 'cw', 'src': ['ok', rng.choice([0, 0, rng.randrange(0, 50)])] if rng.random() < 0.5 else ['err', 7],
                'fn': fn, 'on_hub': rng.random() < 0.5, 'pre': rng.random() < 0.3,
                'deliver': rng.random() < 0.9}
    # a successful value may be falsy (0): "applies its function only to successful values" means to all of them
    return {'kind': 'map', 'src': ['ok', rng.choice([0, 0, rng.randrange(0, 50)])] if rng.random() < 0.6 else ['err', rng.randrange(1, 50)],
            'fn': fn, 'pre': rng.random() < 0.3, 'deliver': rng.random() < 0.9}


def exhaustive(tier, shard, shards):
    """every outcome assignment x completion order x pre-completed subset for n <= N"""
    nmax = (THOROUGH if tier == 'thorough' else QUICK)['exhaustive_n']
    k = 0
    for kind in ('whenAll', 'whenAny'):
        for n in range(1, nmax + 1):
            for outs in itertools.product([0, 1], repeat=n):
                for pre in itertools.product([False, True], repeat=n):
                    rest = [i for i in range(n) if not pre[i]]
                    for perm in itertools.permutations(rest):
                        k += 1
                        if k % shards != shard:
                            continue
                        o = [['ok', 10 + i] if b else ['err', 20 + i] for i, b in enumerate(outs)]
                        order = []
                        for i in perm:
                            order += [i, 'D']
                        yield {'kind': kind, 'outs': o, 'pre': list(pre), 'order': order}


def shrink(script):
    if 'order' in script:
        for i in range(len(script['order'])):
            s = dict(script)
            s['order'] = script['order'][:i] + script['order'][i + 1:]
            yield s
    if script['kind'] in ('whenAll', 'whenAny') and len(script['outs']) > 1:
        n = len(script['outs'])
        for j in range(n):
            s = dict(script)
            s['outs'] = script['outs'][:j] + script['outs'][j + 1:]
            s['pre'] = script['pre'][:j] + script['pre'][j + 1:]
            s['order'] = [(x if x == 'D' or x < j else x - 1) for x in script['order'] if x != j]
            yield s
    if 'pre' in script and isinstance(script['pre'], list):
        for j, b in enumerate(script['pre']):
            if b and script['kind'] == 'unwrap':
                s = dict(script)
                s['pre'] = list(script['pre'])
                s['pre'][j] = False
                s['order'] = [j, 'D'] + script['order']
                yield s


# ------------------------------------------------------------------ running the real code
class E(Exception):
    def __init__(self, code):
        Exception.__init__(self, 'E%d' % code)
        self.code = code


class EB(BaseException):
    """an exception outside the Exception hierarchy, like gevent.Timeout"""
    def __init__(self, code):
        BaseException.__init__(self, 'EB%d' % code)
        self.code = code


def run_script(script):
    import rt
    from scales.asynchronous import AsyncResult
    kind = script['kind']
    steps, tags = [], set()

    def res_of(ar):
        # what a caller sees.  A completed result must be coherent: either `get()` returns a value and
        # `.exception` is None, or `get()` raises that exception.  gevent lets a second set()/set_exception()
        # leave a mixed state (value and exception both present: `get()`/`successful()` go by the value, while
        # `.exception` — which scales' own combinators branch on — reports the failure); such a result is
        # reported as an outcome no script produces, so that the specification judges it.
        if not ar.ready():
            return 'pending'
        try:
            v = ar.get(block=False)
        except BaseException as ex:
            return ['err', ex.code if isinstance(ex, (E, EB)) else 999999]
        if ar.exception is not None:
            tags.add('incoherent-result')
            return ['err', 999999]
        if isinstance(v, list):
            return ['vals', [x if isinstance(x, int) else None for x in v]]
        if isinstance(v, int) and not isinstance(v, bool):
            return ['val', v]
        return ['val', 999999]     # not a plain value of the script (e.g. a result object): judged wrong by the spec

    def complete(ar, out):
        if out[0] in ('ok', 'plain'):
            ar.set(out[1])
        else:
            ar.set_exception(E(out[1]))

    if kind in ('whenAll', 'whenAny'):
        outs, pre = script['outs'], script['pre']
        n = len(outs)
        ars = [AsyncResult() for _ in range(n)]
        for i in range(n):
            if pre[i]:
                complete(ars[i], outs[i])
        ret = (AsyncResult.WhenAll if kind == 'whenAll' else AsyncResult.WhenAny)(ars)
        if any(pre):
            tags.add('pre')
        if kind == 'whenAny' and ret in ars:
            tags.add('shortcut')

        def after(i):
            def cb(_):
                steps.append([vfmt(['deliver', i])[1:-1], vfmt([res_of(ret), 0])])
            return cb
        for i in range(n):
            ars[i].rawlink(after(i))
        steps.append(['look', vfmt([res_of(ret), 0])])
        for x in script['order']:
            if x == 'D':
                rt.drain()
            elif not ars[x].ready():
                complete(ars[x], outs[x])
        rt.drain()
        steps.append(['look', vfmt([res_of(ret), 0])])
        if ret.ready():
            tags.add('failed' if ret.exception is not None else 'succeeded')
        else:
            tags.add('pending-at-end')
        nfail = sum(1 for o in outs if o[0] == 'err')
        if 0 < nfail < n:
            tags.add('mixed')
        cfg = vfmt([kind, [tuple(o) for o in outs]] + ([list(pre)] if kind == 'whenAny' else []))[1:-1]
    elif kind == 'unwrap':
        chain, pre = script['chain'], script['pre']
        d = len(chain)
        cells = [AsyncResult() for _ in range(d)]
        counts = {'n': 0}

        def complete_level(k):
            lv = chain[k]
            if lv == 'inner':
                cells[k].set(cells[k + 1])
            else:
                complete(cells[k], lv)
        for k in range(d):
            if pre[k]:
                complete_level(k)
        target_box = []
        orig_set, orig_exc = AsyncResult.set, AsyncResult.set_exception

        def cset(self, *a, **kw):
            if target_box and self is target_box[0] or not target_box and self not in cells:
                counts['n'] += 1
            return orig_set(self, *a, **kw)

        def cexc(self, *a, **kw):
            if target_box and self is target_box[0] or not target_box and self not in cells:
                counts['n'] += 1
            return orig_exc(self, *a, **kw)
        AsyncResult.set, AsyncResult.set_exception = cset, cexc
        try:
            target = cells[0].Unwrap()
            target_box.append(target)
            steps.append(['look', vfmt([res_of(target), counts['n']])])
            for x in script['order']:
                if x == 'D':
                    rt.drain()
                    steps.append(['drain', vfmt([res_of(target), counts['n']])])
                elif not cells[x].ready():
                    complete_level(x)
                    steps.append([vfmt(['set', x])[1:-1], vfmt([res_of(target), counts['n']])])
            rt.drain()
            steps.append(['drain', vfmt([res_of(target), counts['n']])])
        finally:
            AsyncResult.set, AsyncResult.set_exception = orig_set, orig_exc
        tags.add('depth%d' % min(d, 4))
        if any(pre):
            tags.add('pre')
        if chain[-1][0] == 'fail':
            tags.add('chain-fails')
        cfg = vfmt(['unwrap', [c if c == 'inner' else tuple(c) for c in chain], list(pre)])[1:-1]
    else:
        src = AsyncResult()
        calls = {'n': 0}
        fn = script['fn']

        def f(_arg):
            calls['n'] += 1
            if fn[0] == 'ret':
                return fn[1]
            if fn[0] == 'raisebase':
                tags.add('fn-raise-baseexception')
                raise EB(fn[1])
            raise E(fn[1])
        if script['pre']:
            complete(src, script['src'])
            tags.add('pre')
        if kind == 'cw':
            out = src.ContinueWith(f, on_hub=script.get('on_hub', True))
            cfg = vfmt(['cw', ('raise', fn[1]) if fn[0] == 'raisebase' else tuple(fn)])[1:-1]
        else:
            out = src.Map(f)
            cfg = vfmt(['map', tuple(script['src']), ('raise', fn[1]) if fn[0] == 'raisebase' else tuple(fn)])[1:-1]
        steps.append(['look', vfmt([res_of(out), calls['n']])])
        if script['deliver']:
            if not script['pre']:
                complete(src, script['src'])
            rt.drain()
            steps.append(['deliver 0', vfmt([res_of(out), calls['n']])])
        elif script['pre']:
            rt.drain()
            steps.append(['deliver 0', vfmt([res_of(out), calls['n']])])
        tags.add(kind)
        tags.add('fn-' + ('raise' if fn[0] == 'raisebase' else fn[0]))
        tags.add('src-' + script['src'][0])
    # an exception of the script itself that escaped into the hub shows in the result observations (judged by the
    # spec); anything else the hub reports is foreign and ends the case as a divergence
    errs = [e for e in rt.take_errors() if e[0] not in ('E', 'EB')]
    if errs:
        tags.add('hub-error')
        steps.append(['look', vfmt(['raised', errs[0][0]])])
    return {'comp': COMPONENT, 'cfg': cfg, 'steps': steps, 'tags': sorted(tags)}


def nontrivial(case):
    t = set(case.get('tags', []))
    return bool(t & {'pre', 'mixed', 'shortcut', 'chain-fails', 'depth3', 'depth4', 'fn-raise', 'src-err',
                     'pending-at-end'})
