"""C02 — end-to-end acceptance part: the Thrift and ThriftMux clients built by the public builders over a
fake network with scripted servers; Lean monitors (Adapter/E2E.lean) judge the event log."""
import e2e
from props import c08, c11

PROPERTY = 'C02'
COMPONENT = 'e2e2'
QUICK = dict(gen=480)
THOROUGH = dict(gen=12000)
TRUSTED = list(c11.TRUSTED) + ['fake network harness/fakenet.py (ordered reliable byte streams, refusal, close)',
           'scripted servers decode/encode with the Thrift library']
ASSUMPTIONS = ['servers answer each request at most once; on a serial connection in request order']


MUX_FOCUS = 'replies'      # the multiplexed hop on its own: scripts for component `tagpool` (harness/props/c11.py)


def gen_script(rng, tier):
    """half of the scripts drive the assembled stacks (component e2e2), half the real mux transport sink on a
    fake socket (component `tagpool`, judged by the Lean spec12: C11 + own-reply + C12 clauses)"""
    r = rng.random()
    if r < 0.4:
        return e2e.gen_script(rng, tier, rng.choice(['parked', 'parked', 'parked', 'aged', 'edge', 'late', 'slowpeer'] + [None] * 6))
    if r < 0.65:
        # the serial transport on the step-controlled socket (component `serial2`: C02's clause
        # "no later request on a connection that saw an abandoned transaction")
        return c08._gen_serial(rng, rng.choice([8, 14, 22]))
    if rng.random() < 0.8:
        return c11.gen_script_focus(rng, tier, MUX_FOCUS)
    return c11.gen_script(rng, tier)


def exhaustive(tier, shard, shards):
    """every serial fault position x kind x recovery tail of C08's enumeration, judged by C02's clause"""
    k = 0
    for ops in c08._serial_cases():
        k += 1
        if k % shards == shard:
            yield {'t': 'serial', 'ops': ops}


def shrink(script):
    if script.get('t') == 'serial':
        return c08.shrink(script)
    return c11.shrink(script) if 'ops' in script else e2e.shrink(script)


def run_script(script):
    if script.get('t') == 'serial':
        case = c08.run_script(script)
        case['comp'] = 'serial2'
        return case
    if 'ops' in script:
        return c11.run_script(script)
    return e2e.run_script(script, COMPONENT)


def nontrivial(case):
    t = set(case.get('tags', []))
    return bool(t & {'timed-out', 'released', 'reordered', 'conn-killed', 'unreachable', 'pre-open', 'discard-sent'}) \
        or c11.nontrivial(case) or c08.nontrivial(case)
