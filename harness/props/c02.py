"""C02 — end-to-end acceptance part: the Thrift and ThriftMux clients built by the public builders over a
fake network with scripted servers; Lean monitors (Adapter/E2E.lean) judge the event log."""
import e2e

PROPERTY = 'C02'
COMPONENT = 'e2e2'
QUICK = dict(gen=240)
THOROUGH = dict(gen=6000)
TRUSTED = ['fake network harness/fakenet.py (ordered reliable byte streams, refusal, close)',
           'scripted servers decode/encode with the Thrift library']
ASSUMPTIONS = ['servers answer each request at most once; on a serial connection in request order']


def gen_script(rng, tier):
    return e2e.gen_script(rng, tier)


shrink = e2e.shrink


def run_script(script):
    return e2e.run_script(script, COMPONENT)


def nontrivial(case):
    t = set(case.get('tags', []))
    return bool(t & {'timed-out', 'released', 'reordered', 'conn-killed', 'unreachable', 'pre-open', 'discard-sent'})
