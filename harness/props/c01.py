"""C01 — every call completes exactly once, no later than its deadline.

Component part: the real MessageDispatcher + ClientTimeoutSink + GLOBAL_TIMER_QUEUE over a harness
sink standing for everything below (the environment that may answer anything, any time)."""
from lib import vfmt

PROPERTY = 'C01'
COMPONENT = 'frontend'
QUICK = dict(gen=600)
THOROUGH = dict(gen=15000)
TRUSTED = ['the sink below the timeout sink is a harness stand-in: it answers what and when the script says',
           'timer actions are observed through a proxy around GLOBAL_TIMER_QUEUE.Schedule; their effects are predicted']
SOURCE_IMPORTS = ['ScalesModel.Model.FrontEnd']
SOURCE_CONSTANTS = {
    'Scales.FrontEnd.resolution': ('import scales.timer_queue as tq', 'round(tq.GLOBAL_TIMER_QUEUE._resolution * 1e6)'),
}
SOURCE_SITES = [
    dict(name='genDeadline', file='scales/dispatch.py', func='MessageDispatcher._DispatchMethod', kind='expr',
         marker='deadline = start_time',
         varmap={'start_time': 'start', 'timeout': 'T', 'open_latency': 'lat'}, params=['start', 'T', 'lat'],
         obligation='theorem genDeadline_eq (start T lat : Int) : genDeadline start T lat = start + T := by\n'
                    '  unfold genDeadline; omega'),
    dict(name='genExpired', file='scales/sink.py', func='ClientTimeoutSink.AsyncProcessRequest', kind='cond',
         marker='deadline < now',
         varmap={'deadline': 'deadline', 'now': 'now'}, params=['deadline', 'now'],
         obligation='theorem genExpired_eq (deadline now : Int) : genExpired deadline now = decide (deadline < now) := by\n'
                    '  unfold genExpired; rfl'),
]
ASSUMPTIONS = ['timer queue contract (C10): actions run once, at their rounded deadline on the loop clock',
               'issue instants are off the 10 ms grid and time-outs are not multiples of 10 ms (tie policy, DESIGN 2.4)',
               'blocking get() of the synchronous proxy form is the gevent primitive']


def gen_script(rng, tier):
    if rng.random() < 0.35:
        import e2e
        sc = e2e.gen_script(rng, tier, rng.choice(['edge', 'late', 'slowpeer', 'lastleave'] + [None] * 5))
        sc['kind'] = 'e2e'
        return sc
    steps = []
    n = rng.choice([6, 12, 20, 30, 40])
    open_at = rng.choice([0, 0, 0, 1, 3, 8, None])      # index of the step after which open completes
    opened = False
    ncalls = 0
    p_issue = rng.choice([0.25, 0.35, 0.5])
    p_adv = rng.choice([0.2, 0.3, 0.45])
    for k in range(n):
        if not opened and open_at is not None and k >= open_at:
            steps.append(['open', rng.random() < 0.85])
            opened = True
        r = rng.random()
        if r < p_issue:
            if rng.random() < 0.15:
                T = 0
            else:
                T = rng.choice([0, 1, 2, 5, 10, 30]) * 10 + rng.randrange(1, 10)    # ms, never a multiple of 10
            steps.append(['issue', T])
            ncalls += 1
        elif r < p_issue + p_adv:
            # multiples of the 10 ms tick, and fractions of it (so that e.g. the client can finish opening between a
            # call's deadline and the tick its timer is rounded up to)
            steps.append(['adv', rng.choice([1, 1, 2, 3, 5, 11, 31, 0.2, 0.45, 0.7, 1.3])])
        elif ncalls:
            c = rng.randrange(ncalls)
            kind = rng.random()
            if kind < 0.6:
                o = ['ok', rng.randrange(0, 100)]
            elif kind < 0.9:
                o = ['err', rng.randrange(1, 100)]
            else:
                o = 'timeout'
            steps.append(['lower', c, o])
            if rng.random() < 0.1:
                steps.append(['lower', c, ['ok', rng.randrange(0, 100)]])     # duplicate / late reply
    steps.append(['adv', rng.choice([1, 40, 400])])
    # tie policy (DESIGN 2.4): no instant of the script coincides with a call's exact deadline (fractional advances
    # could add up to one); such an advance is lengthened by 0.1 ms
    t, deadlines = 0, set()
    for st in steps:
        if st[0] == 'issue' and st[1]:
            deadlines.add(t + st[1] * 1000)
        elif st[0] == 'adv':
            d = int(round(st[1] * 10000))
            while t + d in deadlines:
                d += 100
            st[1] = d / 10000.0
            t += d
    return {'steps': steps}


def shrink(script):
    if script.get('kind') == 'e2e':
        import e2e
        for s in e2e.shrink(script):
            yield s
        return
    st = script['steps']
    for i in range(len(st)):
        if st[i][0] == 'issue':
            continue    # call numbering would shift
        yield {'steps': st[:i] + st[i + 1:]}
    for i in range(len(st)):
        if st[i][0] == 'issue':
            # dropping the last issue is safe when nothing refers to it
            idx = sum(1 for s in st[:i] if s[0] == 'issue')
            if not any(s[0] == 'lower' and s[1] >= idx for s in st):
                yield {'steps': st[:i] + st[i + 1:]}


class E(Exception):
    def __init__(self, code):
        Exception.__init__(self, 'E%d' % code)
        self.code = code


def run_script(script):
    if script.get('kind') == 'e2e':
        import e2e
        return e2e.run_script(script, 'e2e1')
    import rt
    import scales.dispatch as dispatch
    import scales.sink as sinkmod
    from scales.asynchronous import AsyncResult
    from scales.constants import SinkProperties
    from scales.message import Deadline, MethodReturnMessage, TimeoutError as STimeout
    from scales.sink import ClientMessageSink, SinkProviderBase, TimeoutSinkProvider
    from scales.timer_queue import GLOBAL_TIMER_QUEUE

    timers, fired = [], []
    issuing = [None]      # call number while DispatchMethodCall runs
    visible = []

    class TQ(object):
        def Schedule(self, deadline, action):
            rec = {'state': 'armed', 'call': None, 'kind': 'sink'}
            if issuing[0] is not None and not open_ar.ready():
                # scheduled by the dispatcher itself for a call issued while the client is opening
                rec['call'], rec['kind'] = issuing[0], 'guard'
            k = len(timers)
            timers.append(rec)

            def wrapped():
                if rec['kind'] == 'guard' and (rec['state'] != 'armed' or visible[rec['call']].ready()):
                    # ran after on_open cancelled it: `waiting` is false, nothing may happen
                    before = visible[rec['call']].nsets
                    action()
                    if visible[rec['call']].nsets != before:
                        fired.append((k, rt.now_us()))      # it did something after all: let the model judge
                    return
                rec['state'] = 'fired'
                fired.append((k, rt.now_us()))
                action()
                fired.append(('end', k))
            cancel = GLOBAL_TIMER_QUEUE.Schedule(deadline, wrapped)

            def do_cancel():
                if rec['state'] == 'armed':
                    rec['state'] = 'cancelled'
                cancel()
            return do_cancel

    ars, stacks, msgs = {}, {}, {}
    last_msg = [None]

    class CountingAR(AsyncResult):
        def __init__(self):
            AsyncResult.__init__(self)
            self.nsets = 0
            # made by DispatchMethodCall / _DispatchWhenOpen for the call being issued, or by
            # StaticDispatchMessage right after the call's message object
            cid = issuing[0] if issuing[0] is not None else last_msg[0]
            ars.setdefault(cid, []).append(self)

        def set(self, value=None):
            self.nsets += 1
            return AsyncResult.set(self, value)

        def set_exception(self, exception, exc_info=None):
            self.nsets += 1
            return AsyncResult.set_exception(self, exception, exc_info)

    BaseStack, BaseMsg = sinkmod.ClientMessageSinkStack, dispatch.MethodCallMessage
    assert BaseStack.__module__ == 'scales.sink' and BaseMsg.__module__ == 'scales.message'

    class Stack(BaseStack):
        def __init__(self):
            BaseStack.__init__(self)
            stacks[last_msg[0]] = self

    class Msg(BaseMsg):
        __slots__ = ()

        def __init__(self, *a):
            BaseMsg.__init__(self, *a)
            msgs[self.args[0]] = self
            last_msg[0] = self.args[0]

    lower_got = {}
    open_ar = AsyncResult()

    class Lower(ClientMessageSink):
        def AsyncProcessRequest(self, sink_stack, msg, stream, headers):
            cid = msg.args[0]
            lower_got[cid] = sink_stack
            if msg.properties.get(Deadline.KEY) and timers and timers[-1]['call'] is None:
                timers[-1]['call'] = cid

        def AsyncProcessResponse(self, sink_stack, context, stream, msg):
            pass

        def Open(self):
            return open_ar

        @property
        def state(self):
            return 2

    class LowerProvider(SinkProviderBase):
        def CreateSink(self, properties):
            return Lower()

        @property
        def sink_class(self):
            return Lower

    saved = (sinkmod.GLOBAL_TIMER_QUEUE, dispatch.AsyncResult, dispatch.ClientMessageSinkStack,
             dispatch.MethodCallMessage, getattr(dispatch, 'GLOBAL_TIMER_QUEUE', None))
    sinkmod.GLOBAL_TIMER_QUEUE = TQ()
    if hasattr(dispatch, 'GLOBAL_TIMER_QUEUE'):
        dispatch.GLOBAL_TIMER_QUEUE = sinkmod.GLOBAL_TIMER_QUEUE
    dispatch.AsyncResult = CountingAR
    dispatch.ClientMessageSinkStack = Stack
    dispatch.MethodCallMessage = Msg
    steps, tags = [], set()
    try:
        tprov = TimeoutSinkProvider()
        tprov.next_provider = LowerProvider()
        disp = dispatch.MessageDispatcher(None, tprov, None, {SinkProperties.Label: 'fe'})
        disp.Open()
        ars.clear(); stacks.clear(); msgs.clear()     # objects made while constructing the dispatcher
        rt.advance_to_us((rt.now_us() // 10000 + 1) * 10000 + 3700)     # 3.7 ms off the 10 ms grid
        base = 0     # times are microseconds since the loop's start instant (a multiple of 10 ms)
        info = []

        def now():
            return rt.now_us() - base

        def timer_of(cid):
            # once the call has been dispatched the timeout sink's timer counts, before that the
            # dispatcher's own
            kind = 'sink' if cid in msgs else 'guard'
            for t in timers:
                if t['call'] == cid and t['kind'] == kind:
                    return {'armed': 1, 'cancelled': 2, 'fired': 3}[t['state']]
            return 0

        def res_of(ar):
            # what the caller sees, as get() reports it; values/errors the script never posted are
            # encoded as 999999 so that the specification (not the decoder) judges them
            if not ar.ready():
                return 'pending'
            try:
                v = ar.get(block=False)
            except STimeout:
                return 'timeout'
            except BaseException as ex:
                innerex = getattr(ex, 'inner_exception', ex)
                return ['err', innerex.code if isinstance(innerex, E) else 999999]
            return ['ok', v if isinstance(v, int) and not isinstance(v, bool) and v >= 0 else 999999]

        def snapshot():
            out = []
            for cid, ar in enumerate(visible):
                n = max([a.nsets for a in ars.get(cid, [])] + [getattr(ar, 'nsets', 0)])
                # a call not dispatched yet has no stack: one frame to come while it waits for the
                # client to open, none once it is complete
                depth = len(stacks[cid]._stack) if cid in stacks else (0 if ar.ready() else 1)
                evt = False
                if cid in msgs:
                    ev = msgs[cid].properties.get(Deadline.EVENT_KEY)
                    evt = bool(ev is not None and ev.Get())
                out.append([res_of(ar), n, depth, timer_of(cid), cid in lower_got, evt])
            return vfmt(out)

        def emit(op):
            rt.drain()
            steps.append([op, snapshot()])

        # pre-open calls have no stack yet: depth is reported as 1 (the response frame will be
        # pushed at dispatch) -- handled above by the default
        for st in script['steps']:
            kind = st[0]
            if kind == 'issue':
                T = st[1]
                cid = len(visible)
                t = now()
                issuing[0] = cid
                try:
                    ar = disp.DispatchMethodCall('m', (cid,), {}, timeout=(T / 1000.0 if T else None))
                finally:
                    issuing[0] = None
                visible.append(ar)
                info.append({'T': T * 1000, 'issue': t})
                emit('issue %d %d' % (T * 1000, t))
                tags.add('pre-open' if not open_ar.ready() else 'post-open')
            elif kind == 'open':
                if open_ar.ready():
                    continue
                if st[1]:
                    open_ar.set(True)
                else:
                    open_ar.set_exception(E(1))
                    tags.add('open-failed')
                emit('openDone %s %d' % ('T' if st[1] else 'F', now()))
            elif kind == 'lower':
                cid, o = st[1], st[2]
                if cid not in lower_got:
                    continue
                t = now()
                if o == 'timeout':
                    if not info[cid]['T'] or info[cid]['issue'] + info[cid]['T'] > t:
                        continue
                    m = MethodReturnMessage(error=STimeout())
                    tags.add('env-timeout')
                elif o[0] == 'ok':
                    m = MethodReturnMessage(o[1])
                else:
                    m = MethodReturnMessage(error=E(o[1]))
                if visible[cid].ready():
                    tags.add('late-arrival')
                lower_got[cid].AsyncProcessResponseMessage(m)
                emit('lower %d %s %d' % (cid, vfmt(tuple(o)) if o != 'timeout' else 'timeout', t))
            elif kind == 'adv':
                target = now() + int(round(st[1] * 10000))
                # stop at every grid point so that timer actions get their own observation
                while True:
                    del fired[:]
                    # stop 50 us past each grid point: the queue's own timer at the grid point has
                    # then certainly fired (float noise decides which of two timers at the "same"
                    # instant runs first)
                    nxt = min((now() // 10000 + 1) * 10000 + 50, target)
                    if not any(t['state'] == 'armed' for t in timers):
                        nxt = target
                    rt.advance_to_us(nxt)
                    evs = [(f[1], timers[f[0]]['call']) for f in fired
                           if f[0] != 'end' and timers[f[0]]['call'] is not None]
                    if evs:
                        tags.add('timer-fired')
                        if len(evs) > 1:
                            tags.add('simultaneous-timers')
                        rt.drain()
                        # one observation for everything that ran on the way to this point
                        steps.append(['fire %s %d' % (vfmt([c for _, c in evs]), max(t for t, _ in evs)), snapshot()])
                    if nxt >= target:
                        break
                emit('tick %d' % now())
        for cid, ar in enumerate(visible):
            if ar.ready():
                tags.add('done-' + (res_of(ar) if isinstance(res_of(ar), str) else res_of(ar)[0]))
            else:
                tags.add('never-completed')
    finally:
        (sinkmod.GLOBAL_TIMER_QUEUE, dispatch.AsyncResult, dispatch.ClientMessageSinkStack,
         dispatch.MethodCallMessage) = saved[:4]
        if saved[4] is not None:
            dispatch.GLOBAL_TIMER_QUEUE = saved[4]
    errs = rt.take_errors()
    if errs:
        tags.add('hub-error')
        steps.append(['tick 0', vfmt(['raised', errs[0][0]])])
    return {'comp': COMPONENT, 'cfg': '', 'steps': steps, 'tags': sorted(tags)}


def nontrivial(case):
    t = set(case.get('tags', []))
    return bool(t & {'pre-open', 'timer-fired', 'late-arrival', 'env-timeout', 'open-failed', 'never-completed'})
