"""C14 — framed Thrift calls and replies agree with the Thrift library's own codec.

The real client-side stack of scales (MessageDispatcher -> ThriftSerializerSink ->
SocketTransportSink -> VarzSocketWrapper -> ScalesSocket) runs on a fake socket handle.  The
server's end of that socket is the Thrift library itself: the generated `Processor` of the
interface over the pure-Python `TBinaryProtocol` decodes what scales wrote, calls a scripted
handler and encodes the reply, which is delivered to the client's socket cut into pieces.
"""
import collections
import random
import socket as _socket

from lib import vfmt

PROPERTY = 'C14'
SOURCE_IMPORTS = ['ScalesModel.Model.ThriftCodec']
SOURCE_CONSTANTS = {
    'Scales.ThriftCodec.mtCall': ('from thrift.Thrift import TMessageType as T', 'T.CALL'),
    'Scales.ThriftCodec.mtReply': ('from thrift.Thrift import TMessageType as T', 'T.REPLY'),
    'Scales.ThriftCodec.mtException': ('from thrift.Thrift import TMessageType as T', 'T.EXCEPTION'),
}
COMPONENT = 'thriftcodec'
QUICK = dict(gen=3000)
THOROUGH = dict(gen=100000)

TRUSTED = [
    'the Thrift library (thrift 0.24): pure-Python TBinaryProtocol and the generated Processor are the oracle',
    'hand-written generated-style interface harness/props/c14_iface.py (spec-driven read/write calling the '
    'protocol methods the generated code calls)',
    'fake socket handle (recv/recv_into/send/sendall) delivering the reply stream in pieces',
]
ASSUMPTIONS = [
    'text arguments are valid Unicode (no lone surrogates); i32/i64 values are in range (out-of-range integers are '
    'rejected by both codec back-ends before anything is written: struct.error / OverflowError reaches the caller); '
    'a message is shorter than 2^31 bytes',
    'a non-void method whose result has nothing set is held to the Thrift library\'s own client behaviour: the '
    'MISSING_RESULT application exception is raised as an error (clause reply-missing-result)',
    'when the server closes before the reply frame is complete the property demands nothing; the model still '
    'predicts EOFError exactly (correspondence)',
    'both codec back-ends of the library are exercised on the client side (accelerated C and pure Python); the '
    'oracle always runs the pure-Python protocol',
]
RULE = ('scripts drawn from the seeded generator plus an exhaustive sweep of every two-piece split and every '
        'truncation point of five fixed reply frames; distinct = distinct (cfg, op list) where the op list '
        'carries arguments, reply and the concrete piece sizes; non-trivial = anything beyond an ASCII call '
        'answered by a normal value delivered in one piece')


# ------------------------------------------------------------------ canonical values
# canonical value (JSON-able): ['b', bool] ['i32', n] ['i64', n] ['s', hex] ['st', [[fid, value], ...]]
def cfmt(c):
    t = c[0]
    if t == 'b':
        return '(b %s)' % ('T' if c[1] else 'F')
    if t in ('i32', 'i64'):
        return '(%s %d)' % (t, c[1])
    if t == 's':
        return '(s x%s)' % c[1]
    if t == 'st':
        return '(st %s)' % ffmt(c[1])
    raise TypeError(c)


def ffmt(fields):
    return '(' + ' '.join('(%d %s)' % (fid, cfmt(v)) for fid, v in fields) + ')'


def _T():
    from thrift.Thrift import TType
    return TType


def to_py(c, ftype, targs):
    TType = _T()
    if c is None:
        return None
    if ftype == TType.BOOL:
        return bool(c[1])
    if ftype in (TType.I32, TType.I64):
        return int(c[1])
    if ftype == TType.STRING:
        raw = bytes.fromhex(c[1])
        return raw if targs == 'BINARY' else raw.decode('utf-8')
    if ftype == TType.STRUCT:
        return fields_to_obj(targs[0], c[1])
    raise TypeError(ftype)


def fields_to_obj(cls, fields):
    obj = cls()
    by_id = {e[0]: e for e in cls.thrift_spec if e is not None}
    for fid, c in fields:
        e = by_id[fid]
        setattr(obj, e[2], to_py(c, e[1], e[3]))
    return obj


def from_py(v, ftype, targs):
    TType = _T()
    if ftype == TType.BOOL and isinstance(v, bool):
        return ['b', v]
    if ftype == TType.I32 and isinstance(v, int) and not isinstance(v, bool):
        return ['i32', v]
    if ftype == TType.I64 and isinstance(v, int) and not isinstance(v, bool):
        return ['i64', v]
    if ftype == TType.STRING:
        if targs == 'BINARY' and isinstance(v, (bytes, bytearray)):
            return ['s', bytes(v).hex()]
        if targs != 'BINARY' and isinstance(v, str):
            return ['s', v.encode('utf-8').hex()]
    if ftype == TType.STRUCT and isinstance(v, targs[0]):
        return ['st', obj_to_fields(v, targs[0].thrift_spec)]
    raise Uncanonical('%r is not a value of thrift type %s' % (type(v).__name__, ftype))


class Uncanonical(Exception):
    pass


def obj_to_fields(obj, spec):
    out = []
    for e in spec:
        if e is None:
            continue
        v = getattr(obj, e[2], None)
        if v is not None:
            out.append([e[0], from_py(v, e[1], e[3])])
    return out


# ------------------------------------------------------------------ interfaces
def iface(name):
    """-> (service module, Iface, Processor class)"""
    if name == 'hello':
        from test.scales.thrift.gen_py.hello import Hello
        return Hello, Hello.Iface, Hello.Processor
    from props import c14_iface
    return c14_iface, c14_iface.Iface, c14_iface.Processor


HELLO_METHODS = ['hi']
STORE_METHODS = ['ping', 'put', 'find', 'count', 'has', 'size', 'echo']


def method_info(mod, method):
    args_cls = getattr(mod, method + '_args')
    result_cls = getattr(mod, method + '_result')
    spec = result_cls.thrift_spec or ()
    success = spec[0] if spec and spec[0] is not None else None
    declared = [e for e in spec[1:] if e is not None]
    return args_cls, result_cls, success, declared


# ------------------------------------------------------------------ generation
TEXTS = ['', 'a', 'hello', 'héllo', '日本語', '\U0001F600', 'naïve €', '\x00', ' ', 'x' * 255, 'y' * 256,
         'é' * 130, 'tab\tnl\n', 'Жук']
I32S = [0, 1, -1, 127, 128, 255, 256, -128, -129, 65535, 65536, 2 ** 31 - 1, -2 ** 31, 2 ** 24, -2 ** 24 - 1]
I64S = I32S + [2 ** 31, -2 ** 31 - 1, 2 ** 32, 2 ** 40 + 5, -2 ** 40, 2 ** 63 - 1, -2 ** 63, 2 ** 56, -2 ** 56 - 1]


def gen_text(rng, tier):
    r = rng.random()
    if r < 0.6:
        return rng.choice(TEXTS)
    if r < 0.9:
        n = rng.choice([1, 2, 3, 5, 8, 17])
        return ''.join(chr(rng.choice([rng.randrange(32, 127), rng.randrange(0xa0, 0x800), rng.randrange(0x800, 0xd800),
                                       rng.randrange(0xe000, 0x10000), rng.randrange(0x10000, 0x10ffff)]))
                       for _ in range(n))
    return 'z' * rng.choice([300, 1000, 5000, 70000] if tier == 'thorough' and rng.random() < 0.1 else [300, 1000])


def gen_value(rng, tier, ftype, targs, p_none=0.2):
    TType = _T()
    if ftype == TType.BOOL:
        return ['b', rng.random() < 0.5]
    if ftype == TType.I32:
        return ['i32', rng.choice(I32S) if rng.random() < 0.6 else rng.randrange(-2 ** 31, 2 ** 31)]
    if ftype == TType.I64:
        return ['i64', rng.choice(I64S) if rng.random() < 0.6 else rng.randrange(-2 ** 63, 2 ** 63)]
    if ftype == TType.STRING:
        if targs == 'BINARY':
            n = rng.choice([0, 1, 2, 7, 32, 256])
            return ['s', bytes(rng.choice([0, 255, rng.randrange(256)]) for _ in range(n)).hex()]
        return ['s', gen_text(rng, tier).encode('utf-8').hex()]
    if ftype == TType.STRUCT:
        return ['st', gen_fields(rng, tier, targs[0].thrift_spec, p_none)]
    raise TypeError(ftype)


def gen_fields(rng, tier, spec, p_none):
    out = []
    for e in spec:
        if e is None:
            continue
        if rng.random() < p_none:
            continue
        out.append([e[0], gen_value(rng, tier, e[1], e[3], p_none)])
    return out


def gen_chunks(rng):
    r = rng.random()
    if r < 0.2:
        return {'sizes': [], 'rest': 'all'}
    if r < 0.35:
        return {'sizes': [], 'rest': 'ones'}
    if r < 0.5:      # split inside the 4-byte length prefix
        k = rng.choice([1, 2, 3])
        return {'sizes': [k] + ([rng.choice([1, 2, 3])] if rng.random() < 0.5 else []), 'rest': rng.choice(['all', 'ones'])}
    if r < 0.6:      # prefix exactly, then the payload
        return {'sizes': [4], 'rest': rng.choice(['all', 'ones'])}
    if r < 0.85:
        n = rng.choice([1, 2, 3, 5, 9])
        return {'sizes': [rng.choice([1, 2, 3, 4, 5, 7, 11, 16, 33, 100]) for _ in range(n)], 'rest': 'all'}
    # the server closes before the frame is complete
    n = rng.choice([0, 1, 2, 3])
    return {'sizes': [rng.choice([1, 2, 3, 4, 5, 9, 20]) for _ in range(n)], 'rest': 'close'}


def gen_round(rng, tier, mod, method):
    args_cls, result_cls, success, declared = method_info(mod, method)
    args = gen_fields(rng, tier, args_cls.thrift_spec, rng.choice([0.0, 0.2, 0.5]))
    r = rng.random()
    if r < 0.45:
        if success is not None:
            handler = ['ret', gen_value(rng, tier, success[1], success[3], rng.choice([0.0, 0.3]))]
        else:
            handler = ['ret', None]
    elif r < 0.55:
        handler = ['ret', None]            # non-void: nothing set (missing result); void: normal
    elif r < 0.75 and declared:
        e = rng.choice(declared)
        handler = ['raise', e[0], gen_fields(rng, tier, e[3][0].thrift_spec, rng.choice([0.0, 0.3, 1.0]))]
    elif r < 0.93:
        ty = rng.choice(list(range(0, 11)) + [-1, 2 ** 31 - 1, -2 ** 31, 1000])
        msg = rng.choice([None, '', 'boom', 'Internal error', 'café ☃', 'm' * 300])
        handler = ['app', ty, None if msg is None else msg.encode('utf-8').hex()]
    else:
        handler = ['crash']
    return {'args': args, 'handler': handler, 'chunks': gen_chunks(rng)}


def gen_script(rng, tier):
    if rng.random() < 0.3:
        name, method = 'hello', 'hi'
    else:
        name, method = 'store', rng.choice(STORE_METHODS)
    mod, _, _ = iface(name)
    nrounds = rng.choice([1, 1, 1, 2, 3])
    return {'iface': name, 'method': method, 'accel': rng.random() < 0.5, 'wrap': rng.random() < 0.65,
            'send_caps': rng.choice([None, None, [1], [3, 1, 100], [7]]),
            'rounds': [gen_round(rng, tier, mod, method) for _ in range(nrounds)]}


EXH = [
    ('hello', 'hi', [[1, ['s', '6162']]], ['ret', ['s', 'c3a9']]),
    ('store', 'ping', [], ['ret', None]),
    ('store', 'find', [[1, ['s', '6b']], [2, ['i64', 7]]], ['raise', 3, [[1, ['s', '6e6f']]]]),
    ('store', 'count', [[1, ['i32', -1]], [2, ['i64', 2 ** 40]]], ['app', 6, '6f6f7073']),
    ('store', 'size', [], ['ret', None]),
]


def exhaustive(tier, shard, shards):
    """every split of the reply stream into two pieces and every truncation point, for five
    fixed transactions, on both socket paths (quick: the wrapped path only)"""
    k = 0
    for (name, method, args, handler) in EXH:
        total = len(oracle(name, method, handler)[1]) + 4
        for wrap in ((True, False) if tier == 'thorough' else (True,)):
            for c in range(0, total + 1):
                for rest in ('all', 'close'):
                    k += 1
                    if k % shards != shard:
                        continue
                    yield {'iface': name, 'method': method, 'accel': bool(c % 2), 'wrap': wrap, 'send_caps': None,
                           'rounds': [{'args': args, 'handler': handler,
                                       'chunks': {'sizes': [c] if c else [], 'rest': rest}}]}


def shrink(script):
    rounds = script['rounds']
    if len(rounds) > 1:
        for i in range(len(rounds)):
            s = dict(script)
            s['rounds'] = rounds[:i] + rounds[i + 1:]
            yield s
    for flag in ('accel', 'wrap'):
        if script.get(flag):
            s = dict(script)
            s[flag] = False
            yield s
    if script.get('send_caps'):
        s = dict(script)
        s['send_caps'] = None
        yield s
    for i, r in enumerate(rounds):
        def with_round(nr):
            s = dict(script)
            s['rounds'] = rounds[:i] + [nr] + rounds[i + 1:]
            return s
        ch = r['chunks']
        if ch['sizes'] or ch['rest'] != 'all':
            yield with_round(dict(r, chunks={'sizes': [], 'rest': 'all'}))
        for j in range(len(ch['sizes'])):
            yield with_round(dict(r, chunks={'sizes': ch['sizes'][:j] + ch['sizes'][j + 1:], 'rest': ch['rest']}))
        for j in range(len(r['args'])):
            yield with_round(dict(r, args=r['args'][:j] + r['args'][j + 1:]))
        for j, (fid, v) in enumerate(r['args']):
            for v2 in shrink_value(v):
                yield with_round(dict(r, args=r['args'][:j] + [[fid, v2]] + r['args'][j + 1:]))
        h = r['handler']
        if h[0] == 'ret' and h[1] is not None:
            for v2 in shrink_value(h[1]):
                yield with_round(dict(r, handler=['ret', v2]))
        if h[0] == 'raise':
            for j in range(len(h[2])):
                yield with_round(dict(r, handler=['raise', h[1], h[2][:j] + h[2][j + 1:]]))
        if h[0] == 'app' and h[2]:
            yield with_round(dict(r, handler=['app', h[1], '']))


def shrink_value(v):
    if v[0] == 's' and v[1]:
        yield ['s', '']
        if len(v[1]) > 2:
            yield ['s', v[1][:2] if int(v[1][:2], 16) < 0x80 else '61']
    elif v[0] in ('i32', 'i64') and v[1] != 0:
        yield [v[0], 0]
    elif v[0] == 'b' and v[1]:
        yield ['b', False]
    elif v[0] == 'st':
        for j in range(len(v[1])):
            yield ['st', v[1][:j] + v[1][j + 1:]]
        for j, (fid, x) in enumerate(v[1]):
            for x2 in shrink_value(x):
                yield ['st', v[1][:j] + [[fid, x2]] + v[1][j + 1:]]


# ------------------------------------------------------------------ the oracle: the Thrift library
class ScriptedHandler(object):
    """a service handler whose behaviour is given by the script; records what it was called with"""

    def __init__(self, mod, method, behaviour):
        self.mod, self.method, self.behaviour = mod, method, behaviour
        self.calls = []

    def __getattr__(self, name):
        if name.startswith('_') or name in ('mod', 'method', 'behaviour', 'calls'):
            raise AttributeError(name)

        def call(*args):
            self.calls.append((name, args))
            return self._behave(name)
        return call

    def _behave(self, name):
        from thrift.Thrift import TApplicationException
        args_cls, result_cls, success, declared = method_info(self.mod, name)
        b = self.behaviour
        if b[0] == 'ret':
            if b[1] is None or success is None:
                return None
            return to_py(b[1], success[1], success[3])
        if b[0] == 'raise':
            e = [d for d in declared if d[0] == b[1]][0]
            raise fields_to_obj(e[3][0], b[2])
        if b[0] == 'app':
            raise TApplicationException(b[1], None if b[2] is None else bytes.fromhex(b[2]).decode('utf-8'))
        raise RuntimeError('handler crashed')


def serve(name, payload, behaviour):
    """feed one call message to the library's Processor.
    -> (decoded (method-name bytes, canonical args) | None, reply payload bytes | None)"""
    from thrift.protocol.TBinaryProtocol import TBinaryProtocol
    from thrift.transport.TTransport import TMemoryBuffer
    mod, _, Processor = iface(name)
    seen = {}
    names = []
    handler = None

    class Lazy(object):
        def __getattr__(self, n):
            return getattr(handler, n)
    try:
        itr, otr = TMemoryBuffer(payload), TMemoryBuffer()
        proc = Processor(Lazy())
        proc.on_message_begin(lambda n, t, s: names.append((n, t, s)))
        # the handler needs the method name, which is only known once the header is read
        handler = ScriptedHandler(mod, None, behaviour)
        proc.process(TBinaryProtocol(itr), TBinaryProtocol(otr))
        reply = otr.getvalue()
    except Exception as ex:  # the library could not read what scales wrote
        seen['error'] = repr(ex)
        return None, None, seen
    decoded = None
    if handler.calls and names:
        mname, args = handler.calls[0]
        args_cls = getattr(mod, mname + '_args', None)
        if args_cls is not None:
            entries = [e for e in args_cls.thrift_spec if e is not None]
            fields = []
            for e, a in zip(entries, args):
                if a is not None:
                    fields.append([e[0], from_py(a, e[1], e[3])])
            decoded = (names[0][0].encode('utf-8'), fields)
            seen['mtype'] = names[0][1]
            seen['seqid'] = names[0][2]
    return decoded, reply, seen


def oracle(name, method, behaviour):
    """the reply the library's Processor writes for a (well-formed, library-encoded) call of
    `method`; used by the exhaustive enumerator to know the frame length"""
    from thrift.protocol.TBinaryProtocol import TBinaryProtocol
    from thrift.transport.TTransport import TMemoryBuffer
    from thrift.Thrift import TMessageType
    mod, _, _ = iface(name)
    tb = TMemoryBuffer()
    p = TBinaryProtocol(tb)
    p.writeMessageBegin(method, TMessageType.CALL, 0)
    getattr(mod, method + '_args')().write(p)
    p.writeMessageEnd()
    dec, reply, _ = serve(name, tb.getvalue(), behaviour)
    return dec, reply


def reply_desc(mod, method, behaviour):
    """the `reply` operand: what the handler's behaviour means for the result struct"""
    args_cls, result_cls, success, declared = method_info(mod, method)
    b = behaviour
    if b[0] == 'ret':
        if b[1] is None or success is None:
            return '(result ())'
        return '(result ((0 %s)))' % cfmt(b[1])
    if b[0] == 'raise':
        return '(result ((%d %s)))' % (b[1], cfmt(['st', b[2]]))
    if b[0] == 'app':
        return '(app %d %s)' % (b[1], 'none' if b[2] is None else 'x' + b[2])
    return '(app 6 x%s)' % b'Internal error'.hex()


# ------------------------------------------------------------------ fake socket handle
class FakeHandle(object):
    """stands in for gevent.socket.socket underneath ScalesSocket"""
    last = None
    send_caps = None

    def __init__(self, family=None, type_=None):
        from gevent.event import Event
        self.pieces = collections.deque()
        self.evt = Event()
        self.server_closed = False
        self.closed = False
        self.written = bytearray()
        self.recvs = []
        self.sends = 0
        self.caps = list(FakeHandle.send_caps or [])
        FakeHandle.last = self

    def connect(self, addr):
        pass

    def setsockopt(self, *a):
        pass

    def close(self):
        self.closed = True
        self.evt.set()

    # client reads
    def _head(self):
        while not self.pieces:
            if self.closed:
                raise _socket.error(9, 'Bad file descriptor')
            if self.server_closed:
                return None
            self.evt.clear()
            self.evt.wait()
        return self.pieces[0]

    def recv(self, n):
        p = self._head()
        if p is None:
            self.recvs.append(0)
            return b''
        if n >= len(p):
            self.pieces.popleft()
            out = p
        else:
            out = p[:n]
            self.pieces[0] = p[n:]
        self.recvs.append(len(out))
        return bytes(out)

    def recv_into(self, view, n=0):
        data = self.recv(n or len(view))
        view[:len(data)] = data
        return len(data)

    # client writes
    def send(self, data):
        if self.closed:
            raise _socket.error(9, 'Bad file descriptor')
        cap = self.caps[self.sends % len(self.caps)] if self.caps else len(data)
        self.sends += 1
        n = min(cap, len(data))
        self.written += bytes(data[:n])
        return n

    def sendall(self, data):
        # as the real socket: repeat send() until everything has been accepted
        data = bytes(data)
        while data:
            n = self.send(data)
            data = data[n:]

    # server side
    def feed(self, piece):
        self.pieces.append(bytes(piece))
        self.evt.set()

    def server_close(self):
        self.server_closed = True
        self.evt.set()


_installed = []


def install():
    if _installed:
        return
    import scales.scales_socket as ss
    ss.gsocket = FakeHandle
    ss.ScalesSocket._resolveAddr = lambda self: [(2, 1, 6, '', (self.host, self.port))]
    _installed.append(1)


class Ep(object):
    host, port = 'srv', 9090


# ------------------------------------------------------------------ running the real code
def canon_outcome(ar, mod, method):
    """what the caller of the proxy got, canonical V text"""
    from thrift.Thrift import TApplicationException
    from scales.dispatch import ScalesError
    args_cls, result_cls, success, declared = method_info(mod, method)

    def opt(msg):
        if msg is None:
            return 'none'
        if isinstance(msg, bytes):
            return 'x' + msg.hex()
        return 'x' + str(msg).encode('utf-8').hex()
    if not ar.ready():
        return '(err F (other Pending))'
    if ar.exception is None:
        v = ar.value
        if v is None:
            return 'none'
        if isinstance(v, TApplicationException):
            return '(valapp %d %s)' % (v.type, opt(v.message))
        if success is None:
            return '(err F (other ValueFromVoid-%s))' % type(v).__name__
        try:
            return '(val %s)' % cfmt(from_py(v, success[1], success[3]))
        except Uncanonical:
            return '(err F (other WrongValueType-%s))' % type(v).__name__
    ex = ar.exception
    wrapped = isinstance(ex, ScalesError)
    inner = ex.inner_exception if wrapped else ex
    w = 'T' if wrapped else 'F'
    for e in declared:
        if isinstance(inner, e[3][0]):
            try:
                return '(err %s (declared %d %s))' % (w, e[0], cfmt(['st', obj_to_fields(inner, e[3][0].thrift_spec)]))
            except Uncanonical:
                return '(err %s (other WrongFieldType))' % w
    if isinstance(inner, TApplicationException):
        return '(err %s (app %d %s))' % (w, inner.type, opt(inner.message))
    if isinstance(inner, EOFError):
        return '(err %s eof)' % w
    return '(err %s (other %s))' % (w, type(inner).__name__)


def run_script(script):
    import rt
    install()
    from thrift.protocol.TBinaryProtocol import TBinaryProtocolFactory, TBinaryProtocolAcceleratedFactory
    from scales.constants import SinkProperties
    from scales.dispatch import MessageDispatcher
    from scales.scales_socket import ScalesSocket
    from scales.thrift.sink import ThriftSerializerSink, SocketTransportSink
    name, method = script['iface'], script['method']
    mod, Iface, _ = iface(name)
    args_cls, result_cls, success, declared = method_info(mod, method)
    tags = set()
    steps = []
    cfg = 'x%s %s (%s)' % (method.encode().hex(), 'T' if success is not None else 'F',
                           ' '.join(str(e[0]) for e in declared))
    FakeHandle.send_caps = script.get('send_caps')
    pf = TBinaryProtocolAcceleratedFactory() if script.get('accel') else TBinaryProtocolFactory()
    ser = ThriftSerializerSink.Builder(protocol_factory=pf)
    if script.get('wrap'):
        ser.next_provider = SocketTransportSink.Builder()      # VarzSocketWrapper(ScalesSocket)
        tags.add('varz-wrapper')
    else:
        class RawProvider(object):
            def CreateSink(self, properties):
                return SocketTransportSink(ScalesSocket(Ep.host, Ep.port), 'c14')
        ser.next_provider = RawProvider()
        tags.add('raw-socket')
    if script.get('send_caps'):
        tags.add('partial-sends')
    tags.add('accel' if script.get('accel') else 'pure-python')
    props = {SinkProperties.Endpoint: Ep, SinkProperties.ServiceInterface: Iface, SinkProperties.Label: 'c14'}
    disp = MessageDispatcher(Iface, ser, None, props)
    disp.Open()
    rt.drain()
    h = FakeHandle.last
    if len(script['rounds']) > 1:
        tags.add('multi-round')
    for rnd in script['rounds']:
        # ---- call
        entries = [e for e in args_cls.thrift_spec if e is not None]
        given = dict((fid, v) for fid, v in rnd['args'])
        pyargs = tuple(to_py(given.get(e[0]), e[1], e[3]) for e in entries)
        before = len(h.written)
        ar = disp.DispatchMethodCall(method, pyargs, {})
        rt.drain()
        sent = bytes(h.written[before:])
        decoded, reply, seen = serve(name, sent[4:], rnd['handler']) if len(sent) >= 4 else (None, None, {})
        if decoded is None:
            steps.append(['call %s' % ffmt(rnd['args']), '(call x%s none)' % sent.hex()])
        else:
            steps.append(['call %s' % ffmt(rnd['args']),
                          '(call x%s x%s %d %s)' % (sent.hex(), decoded[0].hex(), seen['mtype'], ffmt(decoded[1]))])
        value_tags(rnd['args'], tags)
        if not rnd['args']:
            tags.add('no-args')
        if reply is None:
            # the library could not answer: the transaction ends here
            steps.append(['reply (result ()) ()', '(reply x %s)' % canon_outcome(ar, mod, method)])
            tags.add('oracle-rejected-call')
            break
        # ---- reply
        stream = pack_i32(len(reply)) + reply
        ch = rnd['chunks']
        sizes = []
        left = len(stream)
        for s in ch['sizes']:
            s = min(s, left)
            if s > 0:
                sizes.append(s)
                left -= s
        if ch['rest'] == 'all' and left:
            sizes.append(left)
            left = 0
        elif ch['rest'] == 'ones':
            # one byte at a time; for very long streams only the first 1500 bytes (keeps the
            # quadratic list-append of the Lean read loop affordable)
            ones = min(left, 1500)
            sizes += [1] * ones
            if left > ones:
                sizes.append(left - ones)
            left = 0
        pos = 0
        for s in sizes:
            h.feed(stream[pos:pos + s])
            pos += s
            rt.drain()
        if left:
            h.server_close()
            rt.drain()
            tags.add('server-closed-early')
            if pos < 4:
                tags.add('closed-inside-prefix')
        out = canon_outcome(ar, mod, method)
        steps.append(['reply %s (%s)' % (reply_desc(mod, method, rnd['handler']), ' '.join(map(str, sizes))),
                      '(reply x%s %s)' % (stream.hex(), out)])
        # tags
        hb = rnd['handler']
        if hb[0] == 'ret':
            if success is None:
                tags.add('void')
            elif hb[1] is None:
                tags.add('missing-result')
            else:
                tags.add('value')
                value_tags([[0, hb[1]]], tags)
        elif hb[0] == 'raise':
            tags.add('declared-exception')
            if hb[1] != declared[0][0]:
                tags.add('declared-after-gap')
            value_tags([[hb[1], ['st', hb[2]]]], tags)
        elif hb[0] == 'app':
            tags.add('app-exception')
            if hb[2] is None:
                tags.add('app-no-message')
        else:
            tags.add('handler-crash')
        if len(sizes) > 1:
            tags.add('chunked')
        if sizes and sizes[0] < 4:
            tags.add('split-inside-prefix')
        if len(sizes) > 8 and all(s == 1 for s in sizes):
            tags.add('one-byte-pieces')
        if left:
            break
    errs = rt.take_errors()
    if errs:
        tags.add('hub-error')
        steps.append(['reply (result ()) ()', '(reply x (err F (other Hub-%s)))' % errs[0][0]])
    disp.Close()
    rt.drain()
    rt.take_errors()
    return {'comp': COMPONENT, 'cfg': cfg, 'steps': steps, 'tags': sorted(tags)}


def pack_i32(n):
    from struct import pack
    return pack('!i', n)


def value_tags(fields, tags):
    for fid, v in fields:
        if v[0] == 's':
            raw = bytes.fromhex(v[1])
            if not raw:
                tags.add('empty-string')
            elif any(b >= 0x80 for b in raw):
                tags.add('non-ascii')
            if len(raw) >= 256:
                tags.add('long-string')
        elif v[0] in ('i32', 'i64'):
            if v[1] < 0:
                tags.add('negative-int')
            if v[1] in (2 ** 31 - 1, -2 ** 31, 2 ** 63 - 1, -2 ** 63):
                tags.add('int-boundary')
        elif v[0] == 'st':
            tags.add('struct')
            if any(x[1][0] == 'st' for x in v[1]):
                tags.add('nested-struct')
            if not v[1]:
                tags.add('empty-struct')
            value_tags(v[1], tags)


def nontrivial(case):
    t = set(case.get('tags', []))
    return bool(t & {'non-ascii', 'empty-string', 'struct', 'declared-exception', 'app-exception', 'void',
                     'missing-result', 'chunked', 'server-closed-early', 'multi-round', 'negative-int',
                     'handler-crash', 'partial-sends', 'long-string'})
