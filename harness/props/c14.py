"""C14 — framed Thrift calls and replies agree with the Thrift library's own codec.

The real client-side stack of scales (MessageDispatcher -> ThriftSerializerSink ->
SocketTransportSink -> VarzSocketWrapper -> ScalesSocket) runs on a fake socket handle.  The
server's end of that socket is the Thrift library itself: the generated `Processor` of the
interface over the pure-Python `TBinaryProtocol` decodes what scales wrote, calls a scripted
handler and encodes the reply, which is delivered to the client's socket cut into pieces.

Two kinds of scripts, two Lean components:
  thriftcodec   one method, one connection, one call at a time (`rounds`)
  thriftshared  `kind: multi` — ONE ThriftSerializerSink (it sits above balancer and pool, so all
                connections of a client share it) above two or more real SocketTransportSinks; calls
                of different methods are open at the same time and the replies are delivered in any
                order, interleaved piece by piece

Four interfaces of one family: `hello` (the repository's generated test interface), `store`
(c14_iface.py) and two with Thrift service inheritance, `derived` (c14_derived.py: Archive extends
Store) and `derived2` (c14_derived2.py: Vault extends Archive).  The Thrift compiler leaves the
`<m>_args` / `<m>_result` classes of an inherited method in the module of the service that declares
it; the harness finds them through the modules' own METHODS / BASE (`owner_module`), the code under
test through `MessageSerializer._FindClass`.  The Lean configuration is per method (name, nonvoid,
declared), so the models need nothing for this.

A second, UNRELATED family: `otherbase` (c14_other_base.py: service Journal) and `other`
(c14_other.py: Ledger extends Journal).  Nine of its eleven method names are also method names of
the first family — with other argument types / field ids, return types and declared exceptions.

  kind: two     ONE process, TWO clients: a serializer sink for an interface of the first family and
                one for an interface of the second, each built the way a client builds it (its own
                MessageDispatcher / ThriftSerializerSink.Builder / connections), used in ONE script:
                calls and replies of both interleaved, either family first, same-named methods on
                both sides.  Mapping to Lean: two instances of the component `thriftshared`, one per
                serializer, each with the per-method configuration of ITS interface; every call /
                reply is judged with the configuration of its own serializer's method.  A case
                carries one component instance, so the script names the side whose history it
                reports (`judge`); the generator and the sweep always emit a script together with
                its twin (same events, the other side judged), and in both runs the real code
                performs the operations of both sides.

Every script starts from freshly loaded `scales.thrift.serializer` / `scales.thrift.sink` modules
(`isolate`): what a script observes never depends on which scripts the worker process ran before.
"""
import importlib
import collections
import random
import socket as _socket

from lib import vfmt

PROPERTY = 'C14'
import isolation as _iso
ISOLATION = [(n, getattr(_iso, n)) for n in ['thrift_serializer']]      # instance-isolation obligation (harness/isolation.py)
SOURCE_IMPORTS = ['ScalesModel.Model.ThriftCodec']
SOURCE_CONSTANTS = {
    'Scales.ThriftCodec.mtCall': ('from thrift.Thrift import TMessageType as T', 'T.CALL'),
    'Scales.ThriftCodec.mtReply': ('from thrift.Thrift import TMessageType as T', 'T.REPLY'),
    'Scales.ThriftCodec.mtException': ('from thrift.Thrift import TMessageType as T', 'T.EXCEPTION'),
}
COMPONENT = 'thriftcodec'          # and 'thriftshared': every case names its own component
QUICK = dict(gen=4200)
THOROUGH = dict(gen=100000)

TRUSTED = [
    'the Thrift library (thrift 0.24): pure-Python TBinaryProtocol and the generated Processor are the oracle',
    'hand-written generated-style interface harness/props/c14_iface.py (spec-driven read/write calling the '
    'protocol methods the generated code calls) and the two services extending it, c14_derived.py / '
    'c14_derived2.py, laid out as the Thrift compiler lays out `service X extends Y`: own Iface(Y.Iface), '
    'Processor(Y.Processor, Iface, TProcessor), `<m>_args`/`<m>_result` of the own methods only; a second, unrelated '
    'family in the same layout, c14_other_base.py (service Journal) / c14_other.py (Ledger extends Journal), sharing '
    'nothing with the first but the struct plumbing and nine method NAMES',
    'fake socket handle (recv/recv_into/send/sendall) delivering the reply stream in pieces',
    'several calls at once: a trivial router sink below the real ThriftSerializerSink stands in for balancer + pool; '
    'it forwards each call to the real SocketTransportSink (own ScalesSocket, own fake handle) the script names',
]
ASSUMPTIONS = [
    'text arguments are valid Unicode (no lone surrogates); i32/i64 values are in range (out-of-range integers are '
    'rejected by both codec back-ends before anything is written: struct.error / OverflowError reaches the caller); '
    'a message is shorter than 2^31 bytes',
    'a non-void method whose result has nothing set is held to the Thrift library\'s own client behaviour: the '
    'MISSING_RESULT application exception is raised as an error (clause reply-missing-result)',
    'when the server closes before the reply frame is complete the property demands nothing; the model still '
    'predicts EOFError exactly (correspondence)',
    'both codec back-ends of the library are exercised on the client side (accelerated C and pure Python); the '
    'oracle always runs the pure-Python protocol',
    'several calls at once: a serial connection carries one transaction at a time (a call is sent on a connection '
    'with no pending call which the server has not closed; guaranteed by the pool, C08) and the methods of an '
    'interface have distinct names; no deadline is set on the calls',
    'two clients in one process (kind two): each serializer is one instance of the several-calls component with the '
    'configuration of its own interface, and a case reports the history of one of them (the script is run once per '
    'side; both runs perform the operations of both clients).  The theorems are per serializer: its observations are '
    'a function of its own interface and its own calls.  That nothing reaches a serializer from another serializer of '
    'the process is checked on the real code by these scripts; the model has no process-wide state to prove it about',
]
RULE = ('scripts drawn from the seeded generator (30% of them with 2-5 calls open at once on 2-4 connections) plus an '
        'exhaustive sweep of every two-piece split and every truncation point of twelve fixed reply frames and of every '
        'ordered pair of Store methods open at once with the replies in both orders; about a quarter of the generated '
        'scripts (single calls and several calls at once) use an interface with Thrift service inheritance (one and '
        'two levels), own and inherited methods equally likely, and every (own, inherited) pair of methods of those '
        'interfaces is open at once in either call order and either reply order; about a fifth of the generated scripts use TWO '
        'serializers in one process, one for an interface of the Store family and one for an interface of the unrelated '
        'Journal/Ledger family (same method names, other signatures), calls and replies of both interleaved, either family '
        'first, each script twice (once per judged side), plus a sweep over every method name the two families share x '
        'which family is used first x which side is judged x reply order / one after the other; '
        'distinct = distinct (cfg, op list) where the op list '
        'carries arguments, reply and the concrete piece sizes; non-trivial = anything beyond an ASCII call '
        'answered by a normal value delivered in one piece')


# ------------------------------------------------------------------ canonical values
# canonical value (JSON-able): ['b', bool] ['i32', n] ['i64', n] ['s', hex] ['st', [[fid, value], ...]]
def cfmt(c):
    t = c[0]
    if t == 'b':
        return '(b %s)' % ('T' if c[1] else 'F')
    if t in ('i32', 'i64'):
        return '(%s %d)' % (t, c[1])
    if t == 's':
        return '(s x%s)' % c[1]
    if t == 'st':
        return '(st %s)' % ffmt(c[1])
    raise TypeError(c)


def ffmt(fields):
    return '(' + ' '.join('(%d %s)' % (fid, cfmt(v)) for fid, v in fields) + ')'


def _T():
    from thrift.Thrift import TType
    return TType


def to_py(c, ftype, targs):
    TType = _T()
    if c is None:
        return None
    if ftype == TType.BOOL:
        return bool(c[1])
    if ftype in (TType.I32, TType.I64):
        return int(c[1])
    if ftype == TType.STRING:
        raw = bytes.fromhex(c[1])
        return raw if targs == 'BINARY' else raw.decode('utf-8')
    if ftype == TType.STRUCT:
        return fields_to_obj(targs[0], c[1])
    raise TypeError(ftype)


def fields_to_obj(cls, fields):
    obj = cls()
    by_id = {e[0]: e for e in cls.thrift_spec if e is not None}
    for fid, c in fields:
        e = by_id[fid]
        setattr(obj, e[2], to_py(c, e[1], e[3]))
    return obj


def from_py(v, ftype, targs):
    TType = _T()
    if ftype == TType.BOOL and isinstance(v, bool):
        return ['b', v]
    if ftype == TType.I32 and isinstance(v, int) and not isinstance(v, bool):
        return ['i32', v]
    if ftype == TType.I64 and isinstance(v, int) and not isinstance(v, bool):
        return ['i64', v]
    if ftype == TType.STRING:
        if targs == 'BINARY' and isinstance(v, (bytes, bytearray)):
            return ['s', bytes(v).hex()]
        if targs != 'BINARY' and isinstance(v, str):
            return ['s', v.encode('utf-8').hex()]
    if ftype == TType.STRUCT and isinstance(v, targs[0]):
        return ['st', obj_to_fields(v, targs[0].thrift_spec)]
    raise Uncanonical('%r is not a value of thrift type %s' % (type(v).__name__, ftype))


class Uncanonical(Exception):
    pass


def obj_to_fields(obj, spec):
    out = []
    for e in spec:
        if e is None:
            continue
        v = getattr(obj, e[2], None)
        if v is not None:
            out.append([e[0], from_py(v, e[1], e[3])])
    return out


# ------------------------------------------------------------------ interfaces
def iface(name):
    """-> (service module, Iface, Processor class)

    hello     the repository's generated test interface
    store     c14_iface:    service Store
    derived   c14_derived:  service Archive extends Store      (one level of service inheritance)
    derived2  c14_derived2: service Vault extends Archive      (two levels)
    otherbase c14_other_base: service Journal                  (second, unrelated family)
    other     c14_other:      service Ledger extends Journal"""
    if name == 'hello':
        from test.scales.thrift.gen_py.hello import Hello
        return Hello, Hello.Iface, Hello.Processor
    if name == 'derived':
        from props import c14_derived
        return c14_derived, c14_derived.Iface, c14_derived.Processor
    if name == 'derived2':
        from props import c14_derived2
        return c14_derived2, c14_derived2.Iface, c14_derived2.Processor
    if name == 'other':
        from props import c14_other
        return c14_other, c14_other.Iface, c14_other.Processor
    if name == 'otherbase':
        from props import c14_other_base
        return c14_other_base, c14_other_base.Iface, c14_other_base.Processor
    from props import c14_iface
    return c14_iface, c14_iface.Iface, c14_iface.Processor


HELLO_METHODS = ['hi']
STORE_METHODS = ['ping', 'put', 'find', 'count', 'has', 'size', 'echo']
DERIVED_OWN = ['flush', 'drop', 'latest', 'tally']
DERIVED2_OWN = ['seal', 'purge', 'sealed']
DERIVED_IFACES = ('derived', 'derived2')
# the second family (c14_other_base.py, c14_other.py)
JOURNAL_METHODS = ['ping', 'put', 'find', 'count', 'size', 'total']
LEDGER_OWN = ['latest', 'flush', 'drop', 'seal', 'balance']
FAMILY = {'hello': 1, 'store': 1, 'derived': 1, 'derived2': 1, 'otherbase': 2, 'other': 2}
INHERITING = ('derived', 'derived2', 'other')        # interfaces with `extends`: the serializer's lookup walks modules


def owner_module(mod, method):
    """the module that holds `<method>_args` / `<method>_result` of a method of the service of
    `mod`, as the Thrift compiler lays them out: the module of the service that DECLARES the
    method — the service's own module for its own methods, the module of the base service
    (`extends`) for inherited ones.  This is the harness's own statement of the layout (the
    modules' `METHODS` and `BASE`); it does not use the lookup of the code under test."""
    m = mod
    while m is not None:
        own = getattr(m, 'METHODS', None)
        if own is None or method in own:      # a compiler-generated module (Hello): no base service
            return m
        m = getattr(m, 'BASE', None)
    return None


def inheritance_depth(mod, method):
    """0: own method of the service; 1: declared by its base service; 2: by the base's base"""
    d, m = 0, mod
    while m is not None and getattr(m, 'METHODS', None) is not None and method not in m.METHODS:
        d, m = d + 1, getattr(m, 'BASE', None)
    return d


def method_info(mod, method):
    home = owner_module(mod, method)
    args_cls = getattr(home, method + '_args')
    result_cls = getattr(home, method + '_result')
    spec = result_cls.thrift_spec or ()
    success = spec[0] if spec and spec[0] is not None else None
    declared = [e for e in spec[1:] if e is not None]
    return args_cls, result_cls, success, declared


# ------------------------------------------------------------------ generation
TEXTS = ['', 'a', 'hello', 'héllo', '日本語', '\U0001F600', 'naïve €', '\x00', ' ', 'x' * 255, 'y' * 256,
         'é' * 130, 'tab\tnl\n', 'Жук']
I32S = [0, 1, -1, 127, 128, 255, 256, -128, -129, 65535, 65536, 2 ** 31 - 1, -2 ** 31, 2 ** 24, -2 ** 24 - 1]
I64S = I32S + [2 ** 31, -2 ** 31 - 1, 2 ** 32, 2 ** 40 + 5, -2 ** 40, 2 ** 63 - 1, -2 ** 63, 2 ** 56, -2 ** 56 - 1]


def gen_text(rng, tier):
    r = rng.random()
    if r < 0.6:
        return rng.choice(TEXTS)
    if r < 0.9:
        n = rng.choice([1, 2, 3, 5, 8, 17])
        return ''.join(chr(rng.choice([rng.randrange(32, 127), rng.randrange(0xa0, 0x800), rng.randrange(0x800, 0xd800),
                                       rng.randrange(0xe000, 0x10000), rng.randrange(0x10000, 0x10ffff)]))
                       for _ in range(n))
    return 'z' * rng.choice([300, 1000, 5000, 70000] if tier == 'thorough' and rng.random() < 0.1 else [300, 1000])


def gen_value(rng, tier, ftype, targs, p_none=0.2):
    TType = _T()
    if ftype == TType.BOOL:
        return ['b', rng.random() < 0.5]
    if ftype == TType.I32:
        return ['i32', rng.choice(I32S) if rng.random() < 0.6 else rng.randrange(-2 ** 31, 2 ** 31)]
    if ftype == TType.I64:
        return ['i64', rng.choice(I64S) if rng.random() < 0.6 else rng.randrange(-2 ** 63, 2 ** 63)]
    if ftype == TType.STRING:
        if targs == 'BINARY':
            n = rng.choice([0, 1, 2, 7, 32, 256])
            return ['s', bytes(rng.choice([0, 255, rng.randrange(256)]) for _ in range(n)).hex()]
        return ['s', gen_text(rng, tier).encode('utf-8').hex()]
    if ftype == TType.STRUCT:
        return ['st', gen_fields(rng, tier, targs[0].thrift_spec, p_none)]
    raise TypeError(ftype)


def gen_fields(rng, tier, spec, p_none):
    out = []
    for e in spec:
        if e is None:
            continue
        if rng.random() < p_none:
            continue
        out.append([e[0], gen_value(rng, tier, e[1], e[3], p_none)])
    return out


def gen_chunks(rng):
    r = rng.random()
    if r < 0.2:
        return {'sizes': [], 'rest': 'all'}
    if r < 0.35:
        return {'sizes': [], 'rest': 'ones'}
    if r < 0.5:      # split inside the 4-byte length prefix
        k = rng.choice([1, 2, 3])
        return {'sizes': [k] + ([rng.choice([1, 2, 3])] if rng.random() < 0.5 else []), 'rest': rng.choice(['all', 'ones'])}
    if r < 0.6:      # prefix exactly, then the payload
        return {'sizes': [4], 'rest': rng.choice(['all', 'ones'])}
    if r < 0.85:
        n = rng.choice([1, 2, 3, 5, 9])
        return {'sizes': [rng.choice([1, 2, 3, 4, 5, 7, 11, 16, 33, 100]) for _ in range(n)], 'rest': 'all'}
    # the server closes before the frame is complete
    n = rng.choice([0, 1, 2, 3])
    return {'sizes': [rng.choice([1, 2, 3, 4, 5, 9, 20]) for _ in range(n)], 'rest': 'close'}


def gen_round(rng, tier, mod, method):
    args_cls, result_cls, success, declared = method_info(mod, method)
    args = gen_fields(rng, tier, args_cls.thrift_spec, rng.choice([0.0, 0.2, 0.5]))
    r = rng.random()
    if r < 0.45:
        if success is not None:
            handler = ['ret', gen_value(rng, tier, success[1], success[3], rng.choice([0.0, 0.3]))]
        else:
            handler = ['ret', None]
    elif r < 0.55:
        handler = ['ret', None]            # non-void: nothing set (missing result); void: normal
    elif r < 0.75 and declared:
        e = rng.choice(declared)
        handler = ['raise', e[0], gen_fields(rng, tier, e[3][0].thrift_spec, rng.choice([0.0, 0.3, 1.0]))]
    elif r < 0.93:
        ty = rng.choice(list(range(0, 11)) + [-1, 2 ** 31 - 1, -2 ** 31, 1000])
        msg = rng.choice([None, '', 'boom', 'Internal error', 'café ☃', 'm' * 300])
        handler = ['app', ty, None if msg is None else msg.encode('utf-8').hex()]
    else:
        handler = ['crash']
    return {'args': args, 'handler': handler, 'chunks': gen_chunks(rng)}


def gen_method(rng, name):
    """a method of the interface; for the derived interfaces own and inherited methods (of every
    level) are equally likely"""
    if name == 'derived':
        return rng.choice(DERIVED_OWN if rng.random() < 0.5 else STORE_METHODS)
    if name == 'derived2':
        return rng.choice(rng.choice([DERIVED2_OWN, DERIVED_OWN, STORE_METHODS]))
    if name == 'other':
        return rng.choice(LEDGER_OWN if rng.random() < 0.5 else JOURNAL_METHODS)
    return rng.choice(IFACE_METHODS[name])


def gen_single(rng, tier):
    r = rng.random()
    name = ('hello' if r < 0.20 else 'store' if r < 0.68 else 'derived' if r < 0.82 else 'derived2' if r < 0.92
            else 'other' if r < 0.98 else 'otherbase')
    method = gen_method(rng, name)
    mod, _, _ = iface(name)
    nrounds = rng.choice([1, 1, 1, 2, 3])
    return {'iface': name, 'method': method, 'accel': rng.random() < 0.5, 'wrap': rng.random() < 0.65,
            'send_caps': rng.choice([None, None, [1], [3, 1, 100], [7]]),
            'rounds': [gen_round(rng, tier, mod, method) for _ in range(nrounds)]}


EXH = [
    ('hello', 'hi', [[1, ['s', '6162']]], ['ret', ['s', 'c3a9']]),
    ('store', 'ping', [], ['ret', None]),
    ('store', 'find', [[1, ['s', '6b']], [2, ['i64', 7]]], ['raise', 3, [[1, ['s', '6e6f']]]]),
    ('store', 'count', [[1, ['i32', -1]], [2, ['i64', 2 ** 40]]], ['app', 6, '6f6f7073']),
    ('store', 'size', [], ['ret', None]),
    # service inheritance: an own and an inherited method of the derived interface, and a method two levels up
    ('derived', 'drop', [[2, ['st', [[1, ['i64', -1]]]]]], ['raise', 2, [[1, ['s', '6b']]]]),
    ('derived', 'find', [[1, ['s', '6b']]], ['ret', ['st', [[2, ['i32', 3]]]]]),
    ('derived2', 'put', [[2, ['b', True]]], ['raise', 1, [[1, ['s', '6e6f']]]]),
    ('derived2', 'latest', [[1, ['s', 'c3a9']]], ['raise', 2, []]),
    ('derived2', 'sealed', [[1, ['i64', 2 ** 40]]], ['ret', ['b', False]]),
    # the second family: an inherited method (argument field ids 2 and 4) and an own one
    ('other', 'find', [[2, ['i64', -7]], [4, ['b', True]]], ['raise', 1, [[1, ['i64', 9]], [2, ['s', 'c3a9']]]]),
    ('other', 'drop', [[1, ['s', '00ff']]], ['ret', ['i32', -2]]),
]


def exhaustive_single(tier, shard, shards):
    """every split of the reply stream into two pieces and every truncation point, for twelve
    fixed transactions (seven of them on the interfaces with service inheritance), on both socket
    paths (quick: the wrapped path only)"""
    k = 0
    for (name, method, args, handler) in EXH:
        total = len(oracle(name, method, handler)[1]) + 4
        for wrap in ((True, False) if tier == 'thorough' else (True,)):
            for c in range(0, total + 1):
                for rest in ('all', 'close'):
                    k += 1
                    if k % shards != shard:
                        continue
                    yield {'iface': name, 'method': method, 'accel': bool(c % 2), 'wrap': wrap, 'send_caps': None,
                           'rounds': [{'args': args, 'handler': handler,
                                       'chunks': {'sizes': [c] if c else [], 'rest': rest}}]}


def shrink_single(script):
    rounds = script['rounds']
    if len(rounds) > 1:
        for i in range(len(rounds)):
            s = dict(script)
            s['rounds'] = rounds[:i] + rounds[i + 1:]
            yield s
    for flag in ('accel', 'wrap'):
        if script.get(flag):
            s = dict(script)
            s[flag] = False
            yield s
    if script.get('send_caps'):
        s = dict(script)
        s['send_caps'] = None
        yield s
    for i, r in enumerate(rounds):
        def with_round(nr):
            s = dict(script)
            s['rounds'] = rounds[:i] + [nr] + rounds[i + 1:]
            return s
        ch = r['chunks']
        if ch['sizes'] or ch['rest'] != 'all':
            yield with_round(dict(r, chunks={'sizes': [], 'rest': 'all'}))
        for j in range(len(ch['sizes'])):
            yield with_round(dict(r, chunks={'sizes': ch['sizes'][:j] + ch['sizes'][j + 1:], 'rest': ch['rest']}))
        for j in range(len(r['args'])):
            yield with_round(dict(r, args=r['args'][:j] + r['args'][j + 1:]))
        for j, (fid, v) in enumerate(r['args']):
            for v2 in shrink_value(v):
                yield with_round(dict(r, args=r['args'][:j] + [[fid, v2]] + r['args'][j + 1:]))
        h = r['handler']
        if h[0] == 'ret' and h[1] is not None:
            for v2 in shrink_value(h[1]):
                yield with_round(dict(r, handler=['ret', v2]))
        if h[0] == 'raise':
            for j in range(len(h[2])):
                yield with_round(dict(r, handler=['raise', h[1], h[2][:j] + h[2][j + 1:]]))
        if h[0] == 'app' and h[2]:
            yield with_round(dict(r, handler=['app', h[1], '']))


def shrink_value(v):
    if v[0] == 's' and v[1]:
        yield ['s', '']
        if len(v[1]) > 2:
            yield ['s', v[1][:2] if int(v[1][:2], 16) < 0x80 else '61']
    elif v[0] in ('i32', 'i64') and v[1] != 0:
        yield [v[0], 0]
    elif v[0] == 'b' and v[1]:
        yield ['b', False]
    elif v[0] == 'st':
        for j in range(len(v[1])):
            yield ['st', v[1][:j] + v[1][j + 1:]]
        for j, (fid, x) in enumerate(v[1]):
            for x2 in shrink_value(x):
                yield ['st', v[1][:j] + [[fid, x2]] + v[1][j + 1:]]


# ------------------------------------------------------------------ the oracle: the Thrift library
class ScriptedHandler(object):
    """a service handler whose behaviour is given by the script; records what it was called with"""

    def __init__(self, mod, method, behaviour):
        self.mod, self.method, self.behaviour = mod, method, behaviour
        self.calls = []

    def __getattr__(self, name):
        if name.startswith('_') or name in ('mod', 'method', 'behaviour', 'calls'):
            raise AttributeError(name)

        def call(*args):
            self.calls.append((name, args))
            return self._behave(name)
        return call

    def _behave(self, name):
        from thrift.Thrift import TApplicationException
        args_cls, result_cls, success, declared = method_info(self.mod, name)
        b = self.behaviour
        if b[0] == 'ret':
            if b[1] is None or success is None:
                return None
            return to_py(b[1], success[1], success[3])
        if b[0] == 'raise':
            e = [d for d in declared if d[0] == b[1]][0]
            raise fields_to_obj(e[3][0], b[2])
        if b[0] == 'app':
            raise TApplicationException(b[1], None if b[2] is None else bytes.fromhex(b[2]).decode('utf-8'))
        raise RuntimeError('handler crashed')


def serve(name, payload, behaviour):
    """feed one call message to the library's Processor.
    -> (decoded (method-name bytes, canonical args) | None, reply payload bytes | None)"""
    from thrift.protocol.TBinaryProtocol import TBinaryProtocol
    from thrift.transport.TTransport import TMemoryBuffer
    mod, _, Processor = iface(name)
    seen = {}
    names = []
    handler = None

    class Lazy(object):
        def __getattr__(self, n):
            return getattr(handler, n)
    try:
        itr, otr = TMemoryBuffer(payload), TMemoryBuffer()
        proc = Processor(Lazy())
        proc.on_message_begin(lambda n, t, s: names.append((n, t, s)))
        # the handler needs the method name, which is only known once the header is read
        handler = ScriptedHandler(mod, None, behaviour)
        proc.process(TBinaryProtocol(itr), TBinaryProtocol(otr))
        reply = otr.getvalue()
    except Exception as ex:  # the library could not read what scales wrote
        seen['error'] = repr(ex)
        return None, None, seen
    decoded = None
    if handler.calls and names:
        mname, args = handler.calls[0]
        home = owner_module(mod, mname)
        args_cls = getattr(home, mname + '_args', None) if home is not None else None
        if args_cls is not None:
            entries = [e for e in args_cls.thrift_spec if e is not None]
            fields = []
            for e, a in zip(entries, args):
                if a is not None:
                    fields.append([e[0], from_py(a, e[1], e[3])])
            decoded = (names[0][0].encode('utf-8'), fields)
            seen['mtype'] = names[0][1]
            seen['seqid'] = names[0][2]
    return decoded, reply, seen


def oracle(name, method, behaviour):
    """the reply the library's Processor writes for a (well-formed, library-encoded) call of
    `method`; used by the exhaustive enumerator to know the frame length"""
    from thrift.protocol.TBinaryProtocol import TBinaryProtocol
    from thrift.transport.TTransport import TMemoryBuffer
    from thrift.Thrift import TMessageType
    mod, _, _ = iface(name)
    tb = TMemoryBuffer()
    p = TBinaryProtocol(tb)
    p.writeMessageBegin(method, TMessageType.CALL, 0)
    method_info(mod, method)[0]().write(p)
    p.writeMessageEnd()
    dec, reply, _ = serve(name, tb.getvalue(), behaviour)
    return dec, reply


def reply_desc(mod, method, behaviour):
    """the `reply` operand: what the handler's behaviour means for the result struct"""
    args_cls, result_cls, success, declared = method_info(mod, method)
    b = behaviour
    if b[0] == 'ret':
        if b[1] is None or success is None:
            return '(result ())'
        return '(result ((0 %s)))' % cfmt(b[1])
    if b[0] == 'raise':
        return '(result ((%d %s)))' % (b[1], cfmt(['st', b[2]]))
    if b[0] == 'app':
        return '(app %d %s)' % (b[1], 'none' if b[2] is None else 'x' + b[2])
    return '(app 6 x%s)' % b'Internal error'.hex()


# ------------------------------------------------------------------ fake socket handle
class FakeHandle(object):
    """stands in for gevent.socket.socket underneath ScalesSocket"""
    last = None
    send_caps = None

    def __init__(self, family=None, type_=None):
        from gevent.event import Event
        self.pieces = collections.deque()
        self.evt = Event()
        self.server_closed = False
        self.closed = False
        self.written = bytearray()
        self.recvs = []
        self.sends = 0
        self.caps = list(FakeHandle.send_caps or [])
        FakeHandle.last = self

    def connect(self, addr):
        pass

    def setsockopt(self, *a):
        pass

    def close(self):
        self.closed = True
        self.evt.set()

    # client reads
    def _head(self):
        while not self.pieces:
            if self.closed:
                raise _socket.error(9, 'Bad file descriptor')
            if self.server_closed:
                return None
            self.evt.clear()
            self.evt.wait()
        return self.pieces[0]

    def recv(self, n):
        p = self._head()
        if p is None:
            self.recvs.append(0)
            return b''
        if n >= len(p):
            self.pieces.popleft()
            out = p
        else:
            out = p[:n]
            self.pieces[0] = p[n:]
        self.recvs.append(len(out))
        return bytes(out)

    def recv_into(self, view, n=0):
        data = self.recv(n or len(view))
        view[:len(data)] = data
        return len(data)

    # client writes
    def send(self, data):
        if self.closed:
            raise _socket.error(9, 'Bad file descriptor')
        cap = self.caps[self.sends % len(self.caps)] if self.caps else len(data)
        self.sends += 1
        n = min(cap, len(data))
        self.written += bytes(data[:n])
        return n

    def sendall(self, data):
        # as the real socket: repeat send() until everything has been accepted
        data = bytes(data)
        while data:
            n = self.send(data)
            data = data[n:]

    # server side
    def feed(self, piece):
        self.pieces.append(bytes(piece))
        self.evt.set()

    def server_close(self):
        self.server_closed = True
        self.evt.set()


_installed = []


def install():
    if _installed:
        return
    import scales.scales_socket as ss
    ss.gsocket = FakeHandle
    ss.ScalesSocket._resolveAddr = lambda self: [(2, 1, 6, '', (self.host, self.port))]
    _installed.append(1)


def isolate():
    """every script starts from freshly loaded serializer / serializer-sink modules: whatever a
    script left behind in them (module- or class-level) is gone, so that what a script observes —
    and the replay of a script on its own — never depends on the scripts the worker ran before"""
    import scales.thrift.serializer
    import scales.thrift.sink
    importlib.reload(scales.thrift.serializer)
    importlib.reload(scales.thrift.sink)


class Ep(object):
    host, port = 'srv', 9090


# ------------------------------------------------------------------ running the real code
def canon_outcome(ar, mod, method):
    """what the caller of the proxy got, canonical V text"""
    from thrift.Thrift import TApplicationException
    from scales.dispatch import ScalesError
    args_cls, result_cls, success, declared = method_info(mod, method)

    def opt(msg):
        if msg is None:
            return 'none'
        if isinstance(msg, bytes):
            return 'x' + msg.hex()
        return 'x' + str(msg).encode('utf-8').hex()
    if not ar.ready():
        return '(err F (other Pending))'
    if ar.exception is None:
        v = ar.value
        if v is None:
            return 'none'
        if isinstance(v, TApplicationException):
            return '(valapp %d %s)' % (v.type, opt(v.message))
        if success is None:
            return '(err F (other ValueFromVoid-%s))' % type(v).__name__
        try:
            return '(val %s)' % cfmt(from_py(v, success[1], success[3]))
        except Uncanonical:
            return '(err F (other WrongValueType-%s))' % type(v).__name__
    ex = ar.exception
    wrapped = isinstance(ex, ScalesError)
    inner = ex.inner_exception if wrapped else ex
    w = 'T' if wrapped else 'F'
    for e in declared:
        if isinstance(inner, e[3][0]):
            try:
                return '(err %s (declared %d %s))' % (w, e[0], cfmt(['st', obj_to_fields(inner, e[3][0].thrift_spec)]))
            except Uncanonical:
                return '(err %s (other WrongFieldType))' % w
    if isinstance(inner, TApplicationException):
        return '(err %s (app %d %s))' % (w, inner.type, opt(inner.message))
    if isinstance(inner, EOFError):
        return '(err %s eof)' % w
    return '(err %s (other %s))' % (w, type(inner).__name__)


def run_single(script):
    import rt
    install()
    isolate()
    from thrift.protocol.TBinaryProtocol import TBinaryProtocolFactory, TBinaryProtocolAcceleratedFactory
    from scales.constants import SinkProperties
    from scales.dispatch import MessageDispatcher
    from scales.scales_socket import ScalesSocket
    from scales.thrift.sink import ThriftSerializerSink, SocketTransportSink
    name, method = script['iface'], script['method']
    mod, Iface, _ = iface(name)
    args_cls, result_cls, success, declared = method_info(mod, method)
    tags = set()
    iface_tags(name, mod, method, tags)
    steps = []
    cfg = 'x%s %s (%s)' % (method.encode().hex(), 'T' if success is not None else 'F',
                           ' '.join(str(e[0]) for e in declared))
    FakeHandle.send_caps = script.get('send_caps')
    pf = TBinaryProtocolAcceleratedFactory() if script.get('accel') else TBinaryProtocolFactory()
    ser = ThriftSerializerSink.Builder(protocol_factory=pf)
    if script.get('wrap'):
        ser.next_provider = SocketTransportSink.Builder()      # VarzSocketWrapper(ScalesSocket)
        tags.add('varz-wrapper')
    else:
        class RawProvider(object):
            def CreateSink(self, properties):
                return SocketTransportSink(ScalesSocket(Ep.host, Ep.port), 'c14')
        ser.next_provider = RawProvider()
        tags.add('raw-socket')
    if script.get('send_caps'):
        tags.add('partial-sends')
    tags.add('accel' if script.get('accel') else 'pure-python')
    props = {SinkProperties.Endpoint: Ep, SinkProperties.ServiceInterface: Iface, SinkProperties.Label: 'c14'}
    disp = MessageDispatcher(Iface, ser, None, props)
    disp.Open()
    rt.drain()
    h = FakeHandle.last
    if len(script['rounds']) > 1:
        tags.add('multi-round')
    for rnd in script['rounds']:
        # ---- call
        entries = [e for e in args_cls.thrift_spec if e is not None]
        given = dict((fid, v) for fid, v in rnd['args'])
        pyargs = tuple(to_py(given.get(e[0]), e[1], e[3]) for e in entries)
        before = len(h.written)
        ar = disp.DispatchMethodCall(method, pyargs, {})
        rt.drain()
        sent = bytes(h.written[before:])
        decoded, reply, seen = serve(name, sent[4:], rnd['handler']) if len(sent) >= 4 else (None, None, {})
        if decoded is None:
            steps.append(['call %s' % ffmt(rnd['args']), '(call x%s none)' % sent.hex()])
        else:
            steps.append(['call %s' % ffmt(rnd['args']),
                          '(call x%s x%s %d %s)' % (sent.hex(), decoded[0].hex(), seen['mtype'], ffmt(decoded[1]))])
        value_tags(rnd['args'], tags)
        if not rnd['args']:
            tags.add('no-args')
        if reply is None:
            # the library could not answer: the transaction ends here
            steps.append(['reply (result ()) ()', '(reply x %s)' % canon_outcome(ar, mod, method)])
            tags.add('oracle-rejected-call')
            break
        # ---- reply
        stream = pack_i32(len(reply)) + reply
        ch = rnd['chunks']
        sizes = []
        left = len(stream)
        for s in ch['sizes']:
            s = min(s, left)
            if s > 0:
                sizes.append(s)
                left -= s
        if ch['rest'] == 'all' and left:
            sizes.append(left)
            left = 0
        elif ch['rest'] == 'ones':
            # one byte at a time; for very long streams only the first 1500 bytes (keeps the
            # quadratic list-append of the Lean read loop affordable)
            ones = min(left, 1500)
            sizes += [1] * ones
            if left > ones:
                sizes.append(left - ones)
            left = 0
        pos = 0
        for s in sizes:
            h.feed(stream[pos:pos + s])
            pos += s
            rt.drain()
        if left:
            h.server_close()
            rt.drain()
            tags.add('server-closed-early')
            if pos < 4:
                tags.add('closed-inside-prefix')
        out = canon_outcome(ar, mod, method)
        steps.append(['reply %s (%s)' % (reply_desc(mod, method, rnd['handler']), ' '.join(map(str, sizes))),
                      '(reply x%s %s)' % (stream.hex(), out)])
        # tags
        hb = rnd['handler']
        if hb[0] == 'ret':
            if success is None:
                tags.add('void')
            elif hb[1] is None:
                tags.add('missing-result')
            else:
                tags.add('value')
                value_tags([[0, hb[1]]], tags)
        elif hb[0] == 'raise':
            tags.add('declared-exception')
            if hb[1] != declared[0][0]:
                tags.add('declared-after-gap')
            value_tags([[hb[1], ['st', hb[2]]]], tags)
        elif hb[0] == 'app':
            tags.add('app-exception')
            if hb[2] is None:
                tags.add('app-no-message')
        else:
            tags.add('handler-crash')
        if len(sizes) > 1:
            tags.add('chunked')
        if sizes and sizes[0] < 4:
            tags.add('split-inside-prefix')
        if len(sizes) > 8 and all(s == 1 for s in sizes):
            tags.add('one-byte-pieces')
        if left:
            break
    errs = rt.take_errors()
    if errs:
        tags.add('hub-error')
        steps.append(['reply (result ()) ()', '(reply x (err F (other Hub-%s)))' % errs[0][0]])
    disp.Close()
    rt.drain()
    rt.take_errors()
    return {'comp': COMPONENT, 'cfg': cfg, 'steps': steps, 'tags': sorted(tags)}


def iface_tags(name, mod, method, tags):
    """service inheritance: which interface, and where the called method's classes live"""
    if FAMILY[name] == 2:
        tags.add('iface-other-family')
    if name not in INHERITING:
        return
    tags.add('iface-derived' if name in DERIVED_IFACES else 'iface-other-derived')
    if name == 'derived2':
        tags.add('iface-derived2')
    d = inheritance_depth(mod, method)
    tags.add('own-method' if d == 0 else 'inherited-method')
    if d >= 2:
        tags.add('inherited-two-levels')


def pack_i32(n):
    from struct import pack
    return pack('!i', n)


def value_tags(fields, tags):
    for fid, v in fields:
        if v[0] == 's':
            raw = bytes.fromhex(v[1])
            if not raw:
                tags.add('empty-string')
            elif any(b >= 0x80 for b in raw):
                tags.add('non-ascii')
            if len(raw) >= 256:
                tags.add('long-string')
        elif v[0] in ('i32', 'i64'):
            if v[1] < 0:
                tags.add('negative-int')
            if v[1] in (2 ** 31 - 1, -2 ** 31, 2 ** 63 - 1, -2 ** 63):
                tags.add('int-boundary')
        elif v[0] == 'st':
            tags.add('struct')
            if any(x[1][0] == 'st' for x in v[1]):
                tags.add('nested-struct')
            if not v[1]:
                tags.add('empty-struct')
            value_tags(v[1], tags)


def nontrivial(case):
    t = set(case.get('tags', []))
    return bool(t & {'non-ascii', 'empty-string', 'struct', 'declared-exception', 'app-exception', 'void',
                     'missing-result', 'chunked', 'server-closed-early', 'multi-round', 'negative-int',
                     'handler-crash', 'partial-sends', 'long-string', 'overlap', 'multi'})


# ====================================================================== several calls open at once
# One ThriftSerializerSink (one MessageSerializer) above several real SocketTransportSinks: the
# serializer sink of a client sits above the balancer and the pool and is shared by all
# connections.  A trivial router sink stands in for balancer + pool: it forwards a call to the
# connection the script names (the pool's choice is an input of the model, not a prediction).
#
# script: {'kind': 'multi', 'iface', 'accel', 'wrap', 'send_caps',
#          'events': [['call', k, method, conn, args, handler (, parked)] | ['send', k] | ['chunk', k, n] |
#                     ['rest', k, 'all'|'ones'] | ['close', k]]}
# Events that make no sense when they are reached (bytes for a call that is complete, a call on
# a connection that is busy -> the next free one, ...) are resolved here, so that every op list
# produced lies inside `wf` of the component.
SHARED = 'thriftshared'
IFACE_METHODS = {'hello': HELLO_METHODS, 'store': STORE_METHODS,
                 'derived': STORE_METHODS + DERIVED_OWN,                       # inherited + own
                 'derived2': STORE_METHODS + DERIVED_OWN + DERIVED2_OWN,
                 'otherbase': JOURNAL_METHODS,
                 'other': JOURNAL_METHODS + LEDGER_OWN}
MULTI_ONES = 48


def gen_handler(rng, tier, mod, method):
    return gen_round(rng, tier, mod, method)['handler']


def gen_multi(rng, tier):
    r = rng.random()
    name = ('hello' if r < 0.10 else 'store' if r < 0.66 else 'derived' if r < 0.80 else 'derived2' if r < 0.91
            else 'other' if r < 0.98 else 'otherbase')
    mod, _, _ = iface(name)
    ncalls = rng.choice([2, 2, 2, 3, 3, 4, 5])
    nconn = rng.choice([2, 2, 3])
    events, pending, made = [], [], 0
    while made < ncalls or pending:
        r = rng.random()
        if made < ncalls and (not pending or r < 0.45):
            method = gen_method(rng, name)
            args_cls = method_info(mod, method)[0]
            args = gen_fields(rng, tier, args_cls.thrift_spec, rng.choice([0.0, 0.2, 0.5]))
            handler = gen_handler(rng, tier, mod, method)
            ev = ['call', made, method, rng.randrange(nconn), args, handler]
            if rng.random() < 0.25:
                ev.append(True)          # parked below the serializer until it is sent
            events.append(ev)
            pending.append(made)
            made += 1
            continue
        k = rng.choice(pending)
        r = rng.random()
        if r < 0.08:
            events.append(['send', k])
            continue
        if r < 0.45:
            events.append(['rest', k, 'ones' if rng.random() < 0.15 else 'all'])
            pending.remove(k)
        elif r < 0.93:
            events.append(['chunk', k, rng.choice([1, 2, 3, 4, 5, 7, 11, 16, 33, 100])])
        else:
            events.append(['close', k])
            pending.remove(k)
    return {'kind': 'multi', 'iface': name, 'accel': rng.random() < 0.5, 'wrap': rng.random() < 0.65,
            'send_caps': rng.choice([None, None, None, [1], [3, 1, 100], [7]]), 'events': events}


# a fixed normal (or declared-exception) answer per method for the systematic part
EXH_ANSWER = {
    'hi': ([[1, ['s', '6162']]], ['ret', ['s', 'c3a9']]),
    'ping': ([], ['ret', None]),
    'put': ([[2, ['b', True]]], ['raise', 1, [[1, ['s', '6e6f']]]]),
    'find': ([[1, ['s', '6b']], [2, ['i64', 7]]], ['ret', ['st', [[1, ['s', '6b']], [2, ['i32', 3]]]]]),
    'count': ([[1, ['i32', -1]], [2, ['i64', 2 ** 40]]], ['ret', ['i64', 2 ** 40 - 1]]),
    'has': ([[1, ['s', '00ff']]], ['ret', ['b', True]]),
    'size': ([], ['ret', ['i32', 17]]),
    'echo': ([[1, ['s', 'c3a9']]], ['ret', ['s', '']]),
    # Archive extends Store
    'flush': ([], ['ret', None]),
    'drop': ([[1, ['st', [[1, ['s', '6e']]]]], [2, ['st', [[1, ['i64', -1]], [3, ['st', [[1, ['i32', 5]]]]]]]]],
             ['raise', 2, [[1, ['s', '6b']], [2, ['i32', 404]]]]),
    'latest': ([[1, ['s', 'c3a9']]], ['ret', ['st', [[1, ['s', '6b']], [6, ['st', [[2, ['s', '']]]]]]]]),
    'tally': ([[1, ['s', '00ff']], [2, ['b', False]]], ['ret', ['i32', -3]]),
    # Vault extends Archive
    'seal': ([[2, ['s', 'e697a5']]], ['raise', 3, [[1, ['i64', 2 ** 40]], [2, ['st', [[1, ['s', '6e6f']]]]]]]),
    'purge': ([[1, ['st', [[2, ['i64', 9]]]]]], ['raise', 1, [[2, ['i32', 250]]]]),
    'sealed': ([[1, ['i64', -2 ** 63]]], ['ret', ['b', True]]),
}
# the second family (Journal / Ledger): a value or a declared exception the same-named method of the first family
# cannot produce
EXH_ANSWER_OTHER = {
    'ping': ([], ['ret', None]),
    'put': ([[1, ['st', [[1, ['i64', 2 ** 40]], [2, ['s', 'c3a9']], [3, ['st', [[1, ['i64', -5]], [2, ['i32', 2]]]]]]]]],
            ['ret', ['i64', -2 ** 40]]),
    'find': ([[2, ['i64', 7]], [4, ['b', True]]], ['raise', 1, [[1, ['i64', 250]], [2, ['s', '6163']]]]),
    'count': ([[1, ['s', '6163']]], ['ret', ['b', True]]),
    'size': ([[1, ['i32', 17]]], ['raise', 1, [[1, ['s', '6163']], [2, ['st', [[1, ['i64', 1]]]]]]]),
    'total': ([[1, ['s', '']], [2, ['st', [[2, ['i32', -1]]]]]], ['ret', ['st', [[1, ['i64', 3]], [2, ['i32', 2]]]]]),
    'latest': ([[1, ['i64', -1]]], ['ret', ['st', [[1, ['i64', 8]], [4, ['s', '00ff']]]]]),
    'flush': ([[1, ['b', True]]], ['raise', 1, [[1, ['i64', 1]]]]),
    'drop': ([[1, ['s', '00ff']]], ['ret', ['i32', -2]]),
    'seal': ([[1, ['i64', 2 ** 40]]], ['ret', ['s', 'e697a5']]),
    'balance': ([[1, ['s', '6163']], [3, ['st', [[2, ['s', '']]]]]], ['ret', ['i64', 0]]),
}


def exh_answer(name, method):
    """(arguments, handler behaviour) of the systematic part for a method of interface `name`"""
    return (EXH_ANSWER_OTHER if FAMILY[name] == 2 else EXH_ANSWER)[method]


def exhaustive_multi(tier, shard, shards):
    """every ordered pair of methods of the Store interface open at once on two connections,
    the replies arriving in both orders (thorough: also interleaved byte by byte, and triples
    sharing a third connection); every (own, inherited) pair of methods of the two derived
    interfaces, either called first, the replies in both orders"""
    k = 0
    orders = [[0, 1], [1, 0]]
    for x in STORE_METHODS:
        for y in STORE_METHODS:
            for order in orders:
                for mode in (('all', 'ilv') if tier == 'thorough' else ('all',)):
                    k += 1
                    if k % shards != shard:
                        continue
                    ev = [['call', 0, x, 0, EXH_ANSWER[x][0], EXH_ANSWER[x][1]],
                          ['call', 1, y, 1, EXH_ANSWER[y][0], EXH_ANSWER[y][1]]]
                    if mode == 'ilv':
                        for _ in range(6):
                            ev += [['chunk', order[0], 3], ['chunk', order[1], 2]]
                    ev += [['rest', order[0], 'all'], ['rest', order[1], 'all']]
                    yield {'kind': 'multi', 'iface': 'store', 'accel': bool(k % 2), 'wrap': bool(k % 3),
                           'send_caps': None, 'events': ev}
            # x is serialized, waits below the serializer (pool queue), y is serialized and sent, then x is sent
            k += 1
            if k % shards == shard:
                yield {'kind': 'multi', 'iface': 'store', 'accel': bool(k % 2), 'wrap': bool(k % 3), 'send_caps': None,
                       'events': [['call', 0, x, 0, EXH_ANSWER[x][0], EXH_ANSWER[x][1], True],
                                  ['call', 1, y, 1, EXH_ANSWER[y][0], EXH_ANSWER[y][1]],
                                  ['send', 0], ['rest', 0, 'all'], ['rest', 1, 'all']]}
    # service inheritance: every own method of a derived interface together with every inherited one, either
    # called first, the replies arriving in both orders (the shared serializer remembers the classes it found)
    for name, own, inherited in (('derived', DERIVED_OWN, STORE_METHODS),
                                 ('derived2', DERIVED2_OWN, STORE_METHODS + DERIVED_OWN)):
        for a in own:
            for b in inherited:
                for (x, y) in ((a, b), (b, a)):
                    for order in orders:
                        k += 1
                        if k % shards != shard:
                            continue
                        yield {'kind': 'multi', 'iface': name, 'accel': bool(k % 2), 'wrap': bool(k % 3),
                               'send_caps': None,
                               'events': [['call', 0, x, 0, EXH_ANSWER[x][0], EXH_ANSWER[x][1]],
                                          ['call', 1, y, 1, EXH_ANSWER[y][0], EXH_ANSWER[y][1]],
                                          ['rest', order[0], 'all'], ['rest', order[1], 'all']]}
    if tier == 'thorough':
        for x in STORE_METHODS:
            for y in STORE_METHODS:
                for z in ('ping', 'find', 'size'):
                    k += 1
                    if k % shards != shard:
                        continue
                    ev = [['call', 0, x, 0, EXH_ANSWER[x][0], EXH_ANSWER[x][1]],
                          ['call', 1, y, 1, EXH_ANSWER[y][0], EXH_ANSWER[y][1]],
                          ['rest', 1, 'all'],
                          ['call', 2, z, 1, EXH_ANSWER[z][0], EXH_ANSWER[z][1]],
                          ['rest', 0, 'all'], ['rest', 2, 'all']]
                    yield {'kind': 'multi', 'iface': 'store', 'accel': bool(k % 2), 'wrap': True,
                           'send_caps': None, 'events': ev}


def shrink_multi(script):
    ev = script['events']
    ids = [e[1] for e in ev if e[0] == 'call']
    if len(ids) > 1:
        for k in ids:
            s = dict(script)
            s['events'] = [e for e in ev if e[1] != k]
            yield s
    for flag in ('accel', 'wrap'):
        if script.get(flag):
            s = dict(script)
            s[flag] = False
            yield s
    if script.get('send_caps'):
        s = dict(script)
        s['send_caps'] = None
        yield s
    for i, e in enumerate(ev):
        def with_event(ne):
            s = dict(script)
            s['events'] = ev[:i] + ([ne] if ne is not None else []) + ev[i + 1:]
            return s
        if e[0] in ('chunk', 'close', 'send'):
            yield with_event(None)
        if e[0] == 'call' and len(e) > 6 and e[6]:
            yield with_event(e[:6])
        if e[0] == 'rest' and e[2] != 'all':
            yield with_event(['rest', e[1], 'all'])
        if e[0] == 'call':
            k, method, conn, args, h = e[1], e[2], e[3], e[4], e[5]
            park = e[6:]
            for j in range(len(args)):
                yield with_event(['call', k, method, conn, args[:j] + args[j + 1:], h] + park)
            for j, (fid, v) in enumerate(args):
                for v2 in shrink_value(v):
                    yield with_event(['call', k, method, conn, args[:j] + [[fid, v2]] + args[j + 1:], h] + park)
            if h[0] == 'ret' and h[1] is not None:
                for v2 in shrink_value(h[1]):
                    yield with_event(['call', k, method, conn, args, ['ret', v2]] + park)
            if h[0] == 'raise':
                for j in range(len(h[2])):
                    yield with_event(['call', k, method, conn, args, ['raise', h[1], h[2][:j] + h[2][j + 1:]]] + park)
            if h[0] == 'app' and h[2]:
                yield with_event(['call', k, method, conn, args, ['app', h[1], '']] + park)


def sig_text(mod, method):
    _, _, success, declared = method_info(mod, method)
    return '(x%s %s (%s))' % (method.encode().hex(), 'T' if success is not None else 'F',
                              ' '.join(str(e[0]) for e in declared))


def handler_tags(hb, success, declared, tags):
    if hb[0] == 'ret':
        if success is None:
            tags.add('void')
        elif hb[1] is None:
            tags.add('missing-result')
        else:
            tags.add('value')
            value_tags([[0, hb[1]]], tags)
    elif hb[0] == 'raise':
        tags.add('declared-exception')
        if hb[1] != declared[0][0]:
            tags.add('declared-after-gap')
        value_tags([[hb[1], ['st', hb[2]]]], tags)
    elif hb[0] == 'app':
        tags.add('app-exception')
        if hb[2] is None:
            tags.add('app-no-message')
    else:
        tags.add('handler-crash')


def script_sides(script):
    """-> (interface names of the clients, judged side, side of call k).  kind multi: one client;
    kind two: two clients in one process, the case reports the history of the judged one."""
    if script.get('kind') == 'two':
        side = script['side']
        return list(script['ifaces']), int(script.get('judge', 0)), (lambda k: side[k] if k < len(side) else 0)
    return [script['iface']], 0, (lambda k: 0)


def run_multi(script):
    import rt
    install()
    isolate()
    from thrift.protocol.TBinaryProtocol import TBinaryProtocolFactory, TBinaryProtocolAcceleratedFactory
    from scales.asynchronous import AsyncResult
    from scales.constants import ChannelState, SinkProperties
    from scales.dispatch import MessageDispatcher
    from scales.scales_socket import ScalesSocket
    from scales.sink import ClientMessageSink
    from scales.thrift.sink import ThriftSerializerSink, SocketTransportSink
    names, judge, side_of = script_sides(script)
    two = len(names) > 1
    tags = {'multi'}
    steps = []
    FakeHandle.send_caps = script.get('send_caps')
    accel = script.get('accel')
    accel = [bool(x) for x in accel] if isinstance(accel, list) else [bool(accel)] * len(names)
    wrap = bool(script.get('wrap'))
    tags.add('varz-wrapper' if wrap else 'raw-socket')
    if script.get('send_caps'):
        tags.add('partial-sends')

    class Router(ClientMessageSink):
        """balancer + pool reduced to their effect on this property: which connection a call
        travels on.  Every connection is a real SocketTransportSink."""

        def __init__(self, props):
            super(Router, self).__init__()
            self.props = props
            self.transports, self.handles, self.route = [], [], 0
            self.hold, self.parked = None, {}

        def add(self):
            if wrap:
                t = SocketTransportSink.Builder().CreateSink(self.props)       # VarzSocketWrapper(ScalesSocket)
            else:
                t = SocketTransportSink(ScalesSocket(Ep.host, Ep.port), 'c14')
            t.Open()
            rt.drain()
            self.transports.append(t)
            self.handles.append(FakeHandle.last)
            return len(self.transports) - 1

        def Open(self):
            return AsyncResult.Complete()

        def Close(self):
            for t in self.transports:
                t.Close()

        @property
        def state(self):
            return ChannelState.Open

        def AsyncProcessRequest(self, sink_stack, msg, stream, headers):
            if self.hold is not None:
                self.parked[self.hold] = (sink_stack, msg, stream, headers)
                return
            self.transports[self.route].AsyncProcessRequest(sink_stack, msg, stream, headers)

        def release(self, k, c):
            self.transports[c].AsyncProcessRequest(*self.parked.pop(k))

        def AsyncProcessResponse(self, sink_stack, context, stream, msg):
            pass

    class RouterProvider(object):
        def __init__(self, router):
            self.router = router

        def CreateSink(self, properties):
            return self.router

    class Client(object):
        """one client of the process: its interface, its dispatcher above its own serializer sink
        (built as a client's builder does: ThriftSerializerSink.Builder(...) with the interface in the
        sink properties) above its own connections"""

        def __init__(self, idx, name):
            self.idx, self.name = idx, name
            self.mod, self.Iface, _ = iface(name)
            self.methods = IFACE_METHODS[name]
            self.owner = {}           # conn -> last call sent on it
            self.dead = set()
            props = {SinkProperties.Endpoint: Ep, SinkProperties.ServiceInterface: self.Iface,
                     SinkProperties.Label: 'c14'}
            self.router = Router(props)
            pf = TBinaryProtocolAcceleratedFactory() if accel[idx] else TBinaryProtocolFactory()
            ser = ThriftSerializerSink.Builder(protocol_factory=pf)
            ser.next_provider = RouterProvider(self.router)
            self.disp = MessageDispatcher(self.Iface, ser, None, props)
            self.disp.Open()
            rt.drain()

    clients = [Client(i, n) for i, n in enumerate(names)]
    judged = clients[judge]
    cfg = ' '.join(sig_text(judged.mod, m) for m in judged.methods)
    tags.add('accel' if accel[judge] else 'pure-python')
    if two:
        tags.add('two-families')
        tags.add('judged: %s-family' % ('first' if judge == 0 else 'second'))
        if all(n in INHERITING for n in names):
            tags.add('both-interfaces-inherit')
        if accel[0] != accel[1]:
            tags.add('two-families-different-codec-backends')

    # (side, method) of every call the script makes
    script_calls = set((side_of(e[1]), e[2]) for e in script['events'] if e[0] == 'call')
    calls = {}            # k -> dict(side, method, conn, ar, stream, pos, answered, closed, done)
    order = []            # call ids in the order they were made (all sides)

    def record(k, op, obs):
        """the case is the history of the judged serializer"""
        if calls[k]['side'] == judge:
            steps.append([op, obs])

    def pending(k):
        c = calls[k]
        return not c['done']

    def same_side(k):
        return [j for j in order if calls[j]['side'] == calls[k]['side']]

    def observe(k):
        c = calls[k]
        out = canon_outcome(c['ar'], clients[c['side']].mod, c['method'])
        if out == '(err F (other Pending))':
            return '(out pending)'
        return '(out %s)' % out

    def ensure_answer(k):
        c = calls[k]
        if c['answered']:
            return
        c['answered'] = True
        record(k, 'answer %d %s' % (k, reply_desc(clients[c['side']].mod, c['method'], c['handler'])),
               '(frame x%s)' % c['stream'].hex())

    def deliver(k, n):
        c = calls[k]
        cl = clients[c['side']]
        mine = c['side'] == judge
        n = min(n, len(c['stream']) - c['pos'])
        if n <= 0:
            return
        ensure_answer(k)
        open_others = [j for j in same_side(k) if j != k and pending(j)]
        open_foreign = [j for j in order if calls[j]['side'] != c['side'] and calls[j]['sent'] and pending(j)]
        cl.router.handles[c['conn']].feed(c['stream'][c['pos']:c['pos'] + n])
        c['pos'] += n
        c['pieces'] += 1
        rt.drain()
        if c['pos'] >= len(c['stream']):
            c['done'] = True
            if mine:
                if any(j < k for j in open_others):
                    tags.add('reply-overtakes-earlier-call')
                later = [j for j in same_side(k) if j > k]
                if any(calls[j]['method'] != c['method'] for j in later):
                    tags.add('reply-after-later-call-of-other-method')
                if later:
                    tags.add('reply-after-later-call')
                if open_foreign:
                    tags.add('reply-while-other-family-call-open')
                if any(calls[j]['method'] == c['method'] for j in open_foreign):
                    tags.add('reply-while-same-name-call-of-other-family-open')
                if any(calls[j]['side'] != c['side'] and calls[j]['method'] == c['method'] and calls[j]['done']
                       and calls[j]['pos'] > 0 for j in order):
                    tags.add('reply-after-same-name-reply-of-other-family')
        if mine and open_others and any(calls[j]['pos'] > 0 for j in open_others) and c['pos'] < len(c['stream']):
            tags.add('interleaved-chunks')
        if mine and c['pos'] < len(c['stream']) and any(calls[j]['pos'] > 0 for j in open_foreign):
            tags.add('interleaved-chunks-across-families')
        record(k, 'chunk %d %d' % (k, n), observe(k))

    def py_args(args_cls, args):
        entries = [x for x in args_cls.thrift_spec if x is not None]
        given = dict((fid, v) for fid, v in args)
        return tuple(to_py(given.get(x[0]), x[1], x[3]) for x in entries)

    def serialized(k):
        """the call goes through its client's serializer now: two-family bookkeeping"""
        c = calls[k]
        c['serial'] = len([j for j in order if calls[j].get('serial') is not None])
        if not two:
            return
        if c['serial'] == 0:
            tags.add('first-used: %s-family' % ('first' if c['side'] == 0 else 'second'))
        if c['side'] != judge:
            return
        if c['method'] in clients[1 - judge].methods:
            tags.add('method-name-exists-in-other-family')
        if (1 - judge, c['method']) in script_calls:
            # both clients call a method of this name in this script
            tags.add('same-name-other-family')
            if sig_text(clients[0].mod, c['method']) != sig_text(clients[1].mod, c['method']):
                tags.add('same-name-other-result-shape')
            users = [calls[j]['side'] for j in order if calls[j]['method'] == c['method']]     # k itself is in `order`
            tags.add('same-name-used-first-by-%s-family' % ('judged' if users[0] == judge else 'other'))

    def send(k):
        """the call reaches a connection (straight away, or when the pool takes it off its queue)"""
        cl = calls[k]
        if cl['sent']:
            return
        client = clients[cl['side']]
        mine = cl['side'] == judge
        router, owner, dead, mod = client.router, client.owner, client.dead, client.mod
        method, conn, args, handler = cl['method'], cl['want'], cl['args'], cl['handler']
        args_cls, result_cls, success, declared = method_info(mod, method)

        # the connection: the one asked for if it is free, else the first free one, else a new one
        def free(c):
            return c not in dead and (c not in owner or not pending(owner[c]))
        while len(router.transports) <= conn and len(router.transports) < 4:
            router.add()
        cands = [conn] + list(range(len(router.transports)))
        cands = [c for c in cands if c < len(router.transports) and free(c)]
        c = cands[0] if cands else router.add()
        if c in owner and mine:
            tags.add('conn-reused')
        h = router.handles[c]
        before = len(h.written)
        if cl['parked']:
            others = [j for j in same_side(k) if j != k and calls[j]['serial'] is not None
                      and calls[j]['serial'] > cl['serial']]
            if others and mine:
                tags.add('sent-after-later-call-was-serialized')
            if k in router.parked:
                router.release(k, c)
            # else the call never came out of the serializer sink (it failed there): nothing is sent
        else:
            router.route = c
            serialized(k)
            cl['ar'] = client.disp.DispatchMethodCall(method, py_args(args_cls, args), {})
        rt.drain()
        sent = bytes(h.written[before:])
        decoded, reply, seen = serve(client.name, sent[4:], handler) if len(sent) >= 4 else (None, None, {})
        op = 'call %d %d %d %s' % (k, client.methods.index(method), c, ffmt(args))
        if decoded is None:
            record(k, op, '(call x%s none)' % sent.hex())
        else:
            record(k, op, '(call x%s x%s %d %s)' % (sent.hex(), decoded[0].hex(), seen['mtype'], ffmt(decoded[1])))
        open_now = [j for j in same_side(k) if j != k and calls[j]['sent'] and pending(j)]
        open_foreign = [j for j in order if calls[j]['side'] != cl['side'] and calls[j]['sent'] and pending(j)]
        if mine:
            if open_now:
                tags.add('overlap')
                if any(calls[j]['method'] != method for j in open_now):
                    tags.add('overlap-different-methods')
                if len(open_now) >= 2:
                    tags.add('three-open')
            if open_foreign:
                tags.add('overlap-across-families')
                if any(calls[j]['method'] == method for j in open_foreign):
                    tags.add('same-name-open-at-once-in-both-families')
            value_tags(args, tags)
            handler_tags(handler, success, declared, tags)
            iface_tags(client.name, mod, method, tags)
            if client.name in INHERITING and any((inheritance_depth(mod, calls[j]['method']) == 0)
                                                 != (inheritance_depth(mod, method) == 0) for j in open_now):
                tags.add('overlap-own-and-inherited')
        if reply is None:
            if mine:
                tags.add('oracle-rejected-call')
            reply = b''
        cl.update({'conn': c, 'stream': (pack_i32(len(reply)) + reply) if reply else b'', 'sent': True})
        owner[c] = k
        if mine and len(router.transports) >= 3:
            tags.add('three-conns')

    for e in script['events']:
        kind, k = e[0], e[1]
        if kind == 'call':
            if k in calls:
                continue
            method, conn, args, handler = e[2], e[3], e[4], e[5]
            parked = len(e) > 6 and bool(e[6])
            calls[k] = {'side': side_of(k), 'method': method, 'want': conn, 'conn': None, 'ar': None, 'args': args,
                        'handler': handler, 'stream': b'', 'pos': 0, 'pieces': 0, 'answered': False, 'closed': False,
                        'done': False, 'sent': False, 'parked': parked, 'serial': None}
            order.append(k)
            if parked:
                # serialized now by the shared sink, held below it (as a call queued by a saturated pool,
                # or waiting for a connection to open) until the script sends it
                client = clients[calls[k]['side']]
                if calls[k]['side'] == judge:
                    tags.add('parked')
                args_cls = method_info(client.mod, method)[0]
                client.router.hold = k
                serialized(k)
                calls[k]['ar'] = client.disp.DispatchMethodCall(method, py_args(args_cls, args), {})
                rt.drain()
                client.router.hold = None
            else:
                send(k)
            continue
        if k not in calls or calls[k]['closed']:
            continue
        send(k)
        if kind == 'send':
            continue
        if kind == 'chunk':
            deliver(k, e[2])
        elif kind == 'rest':
            c = calls[k]
            if e[2] == 'ones':
                for _ in range(MULTI_ONES):
                    deliver(k, 1)
                if c['side'] == judge:
                    tags.add('one-byte-pieces')
            deliver(k, len(c['stream']) - c['pos'])
        elif kind == 'close':
            c = calls[k]
            client = clients[c['side']]
            if client.owner.get(c['conn']) != k or c['conn'] in client.dead:
                continue
            if c['side'] == judge:
                if not c['answered']:
                    tags.add('closed-before-answer')
                if not c['done']:
                    tags.add('server-closed-early')
            client.router.handles[c['conn']].server_close()
            rt.drain()
            c['closed'] = True
            c['done'] = True
            client.dead.add(c['conn'])
            record(k, 'close %d' % k, observe(k))
    for k in order:
        if calls[k]['pieces'] > 1 and calls[k]['side'] == judge:
            tags.add('chunked')
    errs = rt.take_errors()
    if errs:
        tags.add('hub-error')
        steps.append(['close 999', '(out (err F (other Hub-%s)))' % errs[0][0]])
    for client in clients:
        client.disp.Close()
    rt.drain()
    rt.take_errors()
    return {'comp': SHARED, 'cfg': cfg, 'steps': steps, 'tags': sorted(tags)}


# ====================================================================== two clients, two families, one process
# script: {'kind': 'two', 'ifaces': [first-family interface, second-family interface], 'judge': 0 | 1,
#          'side': [side of call k ...], 'accel': [bool, bool], 'wrap', 'send_caps', 'events': as kind multi}
def shared_names(a, b):
    """the method names two interfaces have in common"""
    return [m for m in IFACE_METHODS[a] if m in IFACE_METHODS[b]]


def gen_two(rng, tier):
    r = rng.random()
    first = 'derived' if r < 0.45 else 'derived2' if r < 0.85 else 'store' if r < 0.95 else 'hello'
    second = 'other' if rng.random() < 0.88 else 'otherbase'
    ifaces = [first, second]
    mods = [iface(n)[0] for n in ifaces]
    shared = shared_names(first, second)
    focus = rng.choice(shared) if shared and rng.random() < 0.7 else None
    start = rng.randrange(2)               # which family is used first
    ncalls = rng.choice([2, 2, 3, 3, 4, 5, 6])
    nconn = rng.choice([1, 2, 2, 3])
    events, pending, side, made = [], [], [], 0
    while made < ncalls or pending:
        r = rng.random()
        if made < ncalls and (not pending or r < 0.45):
            sd = (start + made) % 2 if made < 2 else rng.randrange(2)
            if focus is not None and (made < 2 or rng.random() < 0.4):
                method = focus                                   # the same name on both sides
            elif shared and rng.random() < 0.5:
                method = rng.choice(shared)                      # a name the other family has as well
            else:
                method = gen_method(rng, ifaces[sd])
            if method not in IFACE_METHODS[ifaces[sd]]:
                method = gen_method(rng, ifaces[sd])
            args_cls = method_info(mods[sd], method)[0]
            args = gen_fields(rng, tier, args_cls.thrift_spec, rng.choice([0.0, 0.2, 0.5]))
            handler = gen_handler(rng, tier, mods[sd], method)
            ev = ['call', made, method, rng.randrange(nconn), args, handler]
            if rng.random() < 0.2:
                ev.append(True)
            events.append(ev)
            pending.append(made)
            side.append(sd)
            made += 1
            continue
        k = rng.choice(pending)
        r = rng.random()
        if r < 0.08:
            events.append(['send', k])
            continue
        if r < 0.5:
            events.append(['rest', k, 'ones' if rng.random() < 0.12 else 'all'])
            pending.remove(k)
        elif r < 0.94:
            events.append(['chunk', k, rng.choice([1, 2, 3, 4, 5, 7, 11, 16, 33, 100])])
        else:
            events.append(['close', k])
            pending.remove(k)
    return {'kind': 'two', 'ifaces': ifaces, 'judge': rng.randrange(2), 'side': side,
            'accel': [rng.random() < 0.5, rng.random() < 0.5], 'wrap': rng.random() < 0.65,
            'send_caps': rng.choice([None, None, None, [1], [3, 1, 100], [7]]), 'events': events}


def exhaustive_two(tier, shard, shards):
    """every method name an interface of the Store family with service inheritance shares with Ledger
    (extends Journal): one call of that name through each client's serializer x which family is used
    first x which side is judged x {both open at once, the replies in either order | one after the
    other | one after the other and then the first family again | the first call parked below its
    serializer while the other family's call is serialized and sent}"""
    k = 0
    for first in ('derived', 'derived2'):
        ifaces = [first, 'other']
        for name in shared_names(first, 'other'):
            for start in (0, 1):
                sides = [start, 1 - start]

                def call(i, sd, parked=False):
                    args, handler = exh_answer(ifaces[sd], name)
                    return ['call', i, name, 0, args, handler] + ([True] if parked else [])
                shapes = [
                    ([call(0, sides[0]), call(1, sides[1]), ['rest', 0, 'all'], ['rest', 1, 'all']], sides),
                    ([call(0, sides[0]), call(1, sides[1]), ['rest', 1, 'all'], ['rest', 0, 'all']], sides),
                    ([call(0, sides[0]), ['rest', 0, 'all'], call(1, sides[1]), ['rest', 1, 'all']], sides),
                    ([call(0, sides[0]), ['rest', 0, 'all'], call(1, sides[1]), ['rest', 1, 'all'],
                      call(2, sides[0]), ['rest', 2, 'all']], sides + [sides[0]]),
                    ([call(0, sides[0], True), call(1, sides[1]), ['send', 0], ['rest', 1, 'all'], ['rest', 0, 'all']],
                     sides),
                ]
                if tier == 'thorough':
                    ilv = [call(0, sides[0]), call(1, sides[1])]
                    for _ in range(8):
                        ilv += [['chunk', 0, 3], ['chunk', 1, 2]]
                    shapes.append((ilv + [['rest', 0, 'all'], ['rest', 1, 'all']], sides))
                for events, side in shapes:
                    for judge in (0, 1):
                        k += 1
                        if k % shards != shard:
                            continue
                        yield {'kind': 'two', 'ifaces': ifaces, 'judge': judge, 'side': side,
                               'accel': [bool(k % 2), bool((k // 2) % 2)], 'wrap': bool(k % 3), 'send_caps': None,
                               'events': events}


def shrink_two(script):
    for s in shrink_multi(script):
        yield s
    if isinstance(script.get('accel'), list) and any(script['accel']):
        yield dict(script, accel=[False, False])


# ====================================================================== entry points
def is_multi(script):
    return script.get('kind') in ('multi', 'two')


_twins = []


def gen_script(rng, tier):
    """a two-family script is always followed by its twin: the same events, the other side judged
    (about a fifth of the scripts are two-family ones)"""
    if _twins:
        return _twins.pop()
    r = rng.random()
    if r < 0.11:
        s = gen_two(rng, tier)
        _twins.append(dict(s, judge=1 - s['judge']))
        return s
    if r < 0.11 + 0.89 * 0.3:
        return gen_multi(rng, tier)
    return gen_single(rng, tier)


def exhaustive(tier, shard, shards):
    for s in exhaustive_single(tier, shard, shards):
        yield s
    for s in exhaustive_multi(tier, shard, shards):
        yield s
    for s in exhaustive_two(tier, shard, shards):
        yield s


def shrink(script):
    if script.get('kind') == 'two':
        return shrink_two(script)
    return shrink_multi(script) if is_multi(script) else shrink_single(script)


def run_script(script):
    return run_multi(script) if is_multi(script) else run_single(script)
