"""C05 — balancer membership equals the server set after any join/leave history: the real
HeapBalancerSink and ApertureBalancerSink (with base.py's gating in front) vs Model/LBBase.lean over
Model/Aperture.lean + Model/Heap.lean; spec `specC05` (Adapter/LB.lean)."""
import itertools

import lbrun

PROPERTY = 'C05'
import isolation as _iso
ISOLATION = [(n, getattr(_iso, n)) for n in ['heap_balancer','aperture_balancer']]      # instance-isolation obligation (harness/isolation.py)
COMPONENT = 'lbheap'          # and 'lbaperture': every case names its own component
QUICK = dict(gen=2400)
THOROUGH = dict(gen=30000)
TRUSTED = ['harness channels / server set standing for the next sinks and the provider (harness/lbrun.py)',
           'random.shuffle / random.choice / random.randint results are recorded from the run and passed to the model',
           'EMA values are taken from the real Ema.Update as exact rationals']
ASSUMPTIONS = ['server-set callbacks are truthful: each join/leave reports a change the server set has made; '
               'GetServers returns the server set as it was at some moment after Open()',
               'Open() may be called again any number of times after the first call (the balancer is opening or open: '
               'same open result, nothing re-run); Close() followed by a new open sequence of the same balancer is '
               'outside the property',
               'channel states change only between balancer calls (gevent is cooperative)']
RULE = ('scripts from the seeded generator (both balancer classes, slow initial load with callbacks and requests '
        'arriving meanwhile, duplicate joins, unknown leaves, re-joins, traffic, channel faults, slow/failed opens, '
        'jitter; in a quarter of them Open() is called again one to three times anywhere after the first call) plus every join/leave word up to the exhaustive length over 3 endpoints; distinct = distinct '
        '(cfg, op list); non-trivial = reaches gating, a duplicate/unknown notification, a removal, an expansion '
        'or contraction, a failed open or a queued request')


def comp_of(script):
    return 'lbaperture' if script['kind'] == 'aperture' else 'lbheap'


def gen_script(rng, tier):
    return lbrun.gen_script(rng, tier, 5)


def exhaustive(tier, shard, shards):
    """every join/leave word of length <= L (quick 3, thorough 6) over 3 endpoints, split at every point
    (length 6: at 0, 3, 6) into the part that arrives while the initial list is loading and the part that
    arrives afterwards; both balancers (length 6: alternating)"""
    L = 6 if tier == 'thorough' else 3
    letters = [('join', e) for e in range(3)] + [('leave', e) for e in range(3)]
    k = 0
    for n in range(0, L + 1):
        for word in itertools.product(letters, repeat=n):
            cuts = range(n + 1) if n <= 5 else (0, 3, 6)
            for cut in cuts:
                kinds = ('heap', 'aperture') if n <= 5 else (('heap', 'aperture')[(k // 3) % 2],)
                for kind in kinds:
                    k += 1
                    if k % shards != shard:
                        continue
                    ops = [['open']] + [list(w) for w in word[:cut]] + [['loaded']] + [list(w) for w in word[cut:]]
                    ops += [['get'], ['get']]
                    yield {'kind': kind, 'min_size': 1, 'max_size': 2, 'min_load': [1, 2], 'max_load': [2, 1],
                           'slow_open': False, 'initial': [0, 1], 'ops': ops, 'seed': k}


shrink = lbrun.shrink
nontrivial = lbrun.nontrivial


def run_script(script):
    return lbrun.run_script(script, comp_of(script))
