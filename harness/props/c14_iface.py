"""A hand-written Thrift interface in the style of the Thrift compiler's Python output
(thrift 0.13 `py` generator), used by the C14 check beside test/scales/thrift/gen_py/hello.

    struct Inner  { 1: i32 x, 2: string label }
    struct Item   { 1: string name, 2: i32 count, 3: i64 big, 4: bool flag, 5: binary blob, 6: Inner inner }
    exception NotFound { 1: string key, 2: i32 code }
    exception Denied   { 1: string reason, 2: Inner detail }
    service Store {
      void   ping(),
      void   put(1: Item item, 2: bool overwrite) throws (1: Denied denied),
      Item   find(1: string key, 2: i64 version) throws (1: NotFound nf, 3: Denied denied),
      i64    count(1: i32 a, 2: i64 b),
      bool   has(1: binary key),
      i32    size(),
      string echo(1: string text, 2: Inner inner) throws (1: NotFound nf),
    }

Every struct has `thrift_spec`, `read` and `write` with the accelerated (`_fast_decode` /
`_fast_encode`) branch and the field-by-field branch of the generated code.  The
field-by-field branch is written once, driven by `thrift_spec`, instead of being unrolled per
class; it calls exactly the protocol methods the unrolled code calls.  The module contains,
as the generated service module does, `<method>_args` / `<method>_result` classes, `Iface`
and `Processor`.
"""
import logging

from thrift.Thrift import TType, TMessageType, TException, TApplicationException, TProcessor
from thrift.transport import TTransport


# ----------------------------------------------------------------------------- struct plumbing
def _read_value(iprot, ftype, targs):
    if ftype == TType.BOOL:
        return iprot.readBool()
    if ftype == TType.I32:
        return iprot.readI32()
    if ftype == TType.I64:
        return iprot.readI64()
    if ftype == TType.STRING:
        return iprot.readBinary() if targs == 'BINARY' else iprot.readString()
    if ftype == TType.STRUCT:
        obj = targs[0]()
        obj.read(iprot)
        return obj
    raise TypeError(ftype)


def _write_value(oprot, ftype, targs, val):
    if ftype == TType.BOOL:
        oprot.writeBool(val)
    elif ftype == TType.I32:
        oprot.writeI32(val)
    elif ftype == TType.I64:
        oprot.writeI64(val)
    elif ftype == TType.STRING:
        if targs == 'BINARY':
            oprot.writeBinary(val)
        else:
            oprot.writeString(val)
    elif ftype == TType.STRUCT:
        val.write(oprot)
    else:
        raise TypeError(ftype)


class _Struct(object):
    thrift_spec = ()

    def __init__(self, *args, **kwargs):
        names = [e[2] for e in self.thrift_spec if e is not None]
        for n in names:
            setattr(self, n, None)
        if len(args) > len(names):
            raise TypeError('too many arguments')
        for n, a in zip(names, args):
            setattr(self, n, a)
        for k, v in kwargs.items():
            if k not in names:
                raise TypeError('unexpected argument %s' % k)
            setattr(self, k, v)

    def read(self, iprot):
        if iprot._fast_decode is not None and isinstance(iprot.trans, TTransport.CReadableTransport) \
                and self.thrift_spec is not None:
            iprot._fast_decode(self, iprot, [self.__class__, self.thrift_spec])
            return
        by_id = {e[0]: e for e in self.thrift_spec if e is not None}
        iprot.readStructBegin()
        while True:
            (fname, ftype, fid) = iprot.readFieldBegin()
            if ftype == TType.STOP:
                break
            e = by_id.get(fid)
            if e is not None and ftype == e[1]:
                setattr(self, e[2], _read_value(iprot, ftype, e[3]))
            else:
                iprot.skip(ftype)
            iprot.readFieldEnd()
        iprot.readStructEnd()

    def write(self, oprot):
        if oprot._fast_encode is not None and self.thrift_spec is not None:
            oprot.trans.write(oprot._fast_encode(self, [self.__class__, self.thrift_spec]))
            return
        oprot.writeStructBegin(self.__class__.__name__)
        for e in self.thrift_spec:
            if e is None:
                continue
            val = getattr(self, e[2])
            if val is not None:
                oprot.writeFieldBegin(e[2], e[1], e[0])
                _write_value(oprot, e[1], e[3], val)
                oprot.writeFieldEnd()
        oprot.writeFieldStop()
        oprot.writeStructEnd()

    def validate(self):
        return

    def __repr__(self):
        L = ['%s=%r' % (e[2], getattr(self, e[2])) for e in self.thrift_spec if e is not None]
        return '%s(%s)' % (self.__class__.__name__, ', '.join(L))

    def __eq__(self, other):
        return isinstance(other, self.__class__) and self.__dict__ == other.__dict__

    def __ne__(self, other):
        return not (self == other)


class _Exc(TException):
    """generated exceptions derive from TException and carry the same read/write"""
    thrift_spec = ()

    def __init__(self, *args, **kwargs):
        names = [e[2] for e in self.thrift_spec if e is not None]
        for n in names:
            setattr(self, n, None)
        for n, a in zip(names, args):
            setattr(self, n, a)
        for k, v in kwargs.items():
            setattr(self, k, v)

    read = _Struct.read
    write = _Struct.write

    def __str__(self):
        return repr(self)

    __repr__ = _Struct.__repr__

    def __eq__(self, other):
        return isinstance(other, self.__class__) and self.__dict__ == other.__dict__

    def __ne__(self, other):
        return not (self == other)

    __hash__ = TException.__hash__


# ----------------------------------------------------------------------------- types
class Inner(_Struct):
    pass


Inner.thrift_spec = (
    None,  # 0
    (1, TType.I32, 'x', None, None, ),  # 1
    (2, TType.STRING, 'label', 'UTF8', None, ),  # 2
)


class Item(_Struct):
    pass


Item.thrift_spec = (
    None,  # 0
    (1, TType.STRING, 'name', 'UTF8', None, ),  # 1
    (2, TType.I32, 'count', None, None, ),  # 2
    (3, TType.I64, 'big', None, None, ),  # 3
    (4, TType.BOOL, 'flag', None, None, ),  # 4
    (5, TType.STRING, 'blob', 'BINARY', None, ),  # 5
    (6, TType.STRUCT, 'inner', [Inner, Inner.thrift_spec], None, ),  # 6
)


class NotFound(_Exc):
    pass


NotFound.thrift_spec = (
    None,  # 0
    (1, TType.STRING, 'key', 'UTF8', None, ),  # 1
    (2, TType.I32, 'code', None, None, ),  # 2
)


class Denied(_Exc):
    pass


Denied.thrift_spec = (
    None,  # 0
    (1, TType.STRING, 'reason', 'UTF8', None, ),  # 1
    (2, TType.STRUCT, 'detail', [Inner, Inner.thrift_spec], None, ),  # 2
)


# ----------------------------------------------------------------------------- service
class Iface(object):
    def ping(self):
        pass

    def put(self, item, overwrite):
        pass

    def find(self, key, version):
        pass

    def count(self, a, b):
        pass

    def has(self, key):
        pass

    def size(self):
        pass

    def echo(self, text, inner):
        pass


def _cls(name, spec):
    c = type(name, (_Struct,), {})
    c.thrift_spec = spec
    c.__module__ = __name__
    return c


ping_args = _cls('ping_args', ())
ping_result = _cls('ping_result', ())

put_args = _cls('put_args', (
    None,  # 0
    (1, TType.STRUCT, 'item', [Item, Item.thrift_spec], None, ),  # 1
    (2, TType.BOOL, 'overwrite', None, None, ),  # 2
))
put_result = _cls('put_result', (
    None,  # 0
    (1, TType.STRUCT, 'denied', [Denied, Denied.thrift_spec], None, ),  # 1
))

find_args = _cls('find_args', (
    None,  # 0
    (1, TType.STRING, 'key', 'UTF8', None, ),  # 1
    (2, TType.I64, 'version', None, None, ),  # 2
))
find_result = _cls('find_result', (
    (0, TType.STRUCT, 'success', [Item, Item.thrift_spec], None, ),  # 0
    (1, TType.STRUCT, 'nf', [NotFound, NotFound.thrift_spec], None, ),  # 1
    None,  # 2
    (3, TType.STRUCT, 'denied', [Denied, Denied.thrift_spec], None, ),  # 3
))

count_args = _cls('count_args', (
    None,  # 0
    (1, TType.I32, 'a', None, None, ),  # 1
    (2, TType.I64, 'b', None, None, ),  # 2
))
count_result = _cls('count_result', (
    (0, TType.I64, 'success', None, None, ),  # 0
))

has_args = _cls('has_args', (
    None,  # 0
    (1, TType.STRING, 'key', 'BINARY', None, ),  # 1
))
has_result = _cls('has_result', (
    (0, TType.BOOL, 'success', None, None, ),  # 0
))

size_args = _cls('size_args', ())
size_result = _cls('size_result', (
    (0, TType.I32, 'success', None, None, ),  # 0
))

echo_args = _cls('echo_args', (
    None,  # 0
    (1, TType.STRING, 'text', 'UTF8', None, ),  # 1
    (2, TType.STRUCT, 'inner', [Inner, Inner.thrift_spec], None, ),  # 2
))
echo_result = _cls('echo_result', (
    (0, TType.STRING, 'success', 'UTF8', None, ),  # 0
    (1, TType.STRUCT, 'nf', [NotFound, NotFound.thrift_spec], None, ),  # 1
))

METHODS = ['ping', 'put', 'find', 'count', 'has', 'size', 'echo']       # the service's OWN methods
BASE = None                                                               # `extends`: the base service's module


def _process_fn(name, args_cls, result_cls):
    """the generated `process_<name>`: reads `<name>_args`, calls the handler, fills
    `<name>_result` (success / the declared exception that was raised), maps
    TApplicationException and any other exception to an EXCEPTION message.  The classes are
    those of the module that defines the method (a derived service's module has them for its
    own methods only; inherited methods are processed by the base module's functions)."""

    def process_method(self, seqid, iprot, oprot):
        args = args_cls()
        args.read(iprot)
        iprot.readMessageEnd()
        result = result_cls()
        spec = result_cls.thrift_spec
        has_success = bool(spec) and spec[0] is not None
        declared = [e for e in spec[1:] if e is not None]
        try:
            ret = getattr(self._handler, name)(*[getattr(args, e[2]) for e in args.thrift_spec if e is not None])
            if has_success:
                result.success = ret
            msg_type = TMessageType.REPLY
        except TTransport.TTransportException:
            raise
        except TApplicationException as ex:
            logging.exception('TApplication exception in handler')
            msg_type = TMessageType.EXCEPTION
            result = ex
        except Exception as ex:
            for e in declared:
                if isinstance(ex, e[3][0]):
                    msg_type = TMessageType.REPLY
                    setattr(result, e[2], ex)
                    break
            else:
                logging.exception('Unexpected exception in handler')
                msg_type = TMessageType.EXCEPTION
                result = TApplicationException(TApplicationException.INTERNAL_ERROR, 'Internal error')
        oprot.writeMessageBegin(name, msg_type, seqid)
        result.write(oprot)
        oprot.writeMessageEnd()
        oprot.trans.flush()
    process_method.__name__ = 'process_' + name
    return process_method


def _process_request(self, iprot, oprot):
    """the generated `Processor.process` (every generated Processor has its own copy)"""
    (name, type, seqid) = iprot.readMessageBegin()
    if self._on_message_begin:
        self._on_message_begin(name, type, seqid)
    if name not in self._processMap:
        iprot.skip(TType.STRUCT)
        iprot.readMessageEnd()
        x = TApplicationException(TApplicationException.UNKNOWN_METHOD, 'Unknown function %s' % (name))
        oprot.writeMessageBegin(name, TMessageType.EXCEPTION, seqid)
        x.write(oprot)
        oprot.writeMessageEnd()
        oprot.trans.flush()
        return
    else:
        self._processMap[name](self, seqid, iprot, oprot)
    return True


class Processor(Iface, TProcessor):
    """the generated Processor: `process` dispatches on the name through `_processMap`
    (name -> `Processor.process_<m>`)"""

    def __init__(self, handler):
        self._handler = handler
        self._processMap = {}
        for m in METHODS:
            self._processMap[m] = getattr(Processor, 'process_' + m)
        self._on_message_begin = None

    def on_message_begin(self, func):
        self._on_message_begin = func

    process = _process_request


for _m in METHODS:
    setattr(Processor, 'process_' + _m, _process_fn(_m, globals()[_m + '_args'], globals()[_m + '_result']))
del _m
