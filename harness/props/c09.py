"""C09 — failed endpoints fail fast and are used again once reachable.

Four components:
  resurrector  the real ResurrectorSink over harness channels (harness/c09res.py), predictive,
               turn-by-turn on the virtual loop, reachability histories with virtual minutes of back-off;
  respool      the real ResurrectorSink over the real WatermarkPoolSink and the real serial Thrift
               transport on fake sockets (harness/c09pool.py): the fault signal's way
               transport -> pool -> resurrector (finding F5), for the pool configurations
               min_watermark 0 / 1 / 2 x max_watermark 1 / 2 / unbounded (with min_watermark = 0 the pool
               closes the probe connection of Open() / of a reconnection again and every request opens its own);
  heap9        the real HeapBalancerSink over harness channels (harness/c09heap.py, driver harness/heaprun.py):
               the balancer's down list — a member whose channel is Open again is marked up by the next
               dispatch, whatever else is listed and in whatever order members went down and came back;
  resmux       the chain the ThriftMux builder assembles below the balancer — the real ResurrectorSink over the real
               ThriftMux SocketTransportSink (no pool in between) — on the step-controlled socket harness/stepnet.py
               (harness/c09mux.py): connects accepted / refused, every write and read of the connection (single, in
               bursts, and a fault between the dispatch of the handshake's Rping and the resumption of the opener),
               the clock with the retry sleep, the 5 s ping helper and the ping loop, traffic, Close() (finding F16).
"""
from lib import vfmt  # noqa

PROPERTY = 'C09'
import isolation as _iso
ISOLATION = [(n, getattr(_iso, n)) for n in ['resurrector','observable']]      # instance-isolation obligation (harness/isolation.py)
COMPONENT = 'resurrector'
QUICK = dict(gen=3000, timeout=240, exhaustive_r=3)
THOROUGH = dict(gen=200000, exhaustive_r=4)
# constants the ThriftMux chain model shares with the source: re-read from the working tree on every run and checked
# by the Lean kernel against the model (`example : <model constant> = <value> := by decide`)
SOURCE_IMPORTS = ['ScalesModel.Adapter.ResMux']
SOURCE_CONSTANTS = {
    'Scales.ResMux.pingTimeout': (
        'import scales.thriftmux.sink as tms, stepnet',
        'round(tms.SocketTransportSink(stepnet.StepSocket("h", 1), "svc")._ping_timeout * 1e6)'),
    'Scales.ResMux.defaultCfg.init': (
        'import scales.resurrector as rs',
        'round(rs.ResurrectorSink.Builder().sink_properties.initial_wait_interval * 1e6)'),
    'Scales.ResMux.defaultCfg.maxW': (
        'import scales.resurrector as rs',
        'round(rs.ResurrectorSink.Builder().sink_properties.max_wait_interval * 1e6)'),
}
HEAP_SHARE = 0.2        # share of generated scripts for component heap9
MUX_SHARE = 0.3         # share of generated scripts for component resmux (harness/c09mux.py)
TRUSTED = ['resmux: step-controlled socket harness/stepnet.py standing for the network underneath the real transport (one '
           'sendall / recv_into is atomic; a connect completes or is refused at once); the timers of the implementation are '
           'read off the virtual loop (harness/vloop.py) and the clock never jumps one; random.randint of the ping loop is '
           'replaced by the period of the script (30-40 s); request ids stand for tags (C11: tags of requests in flight are distinct)',
           'harness channels standing for the resurrector\'s next sink (harness/c09res.py): Open() follows the '
           'scripted reachability, the fault signal is raised by the script',
           'fake sockets standing for the network (harness/fakenet.py)',
           'logging proxy for the name `gevent` inside scales.resurrector (sleep durations, spawned greenlets)',
           'the back-off waits are computed by the real _TryResurrect and passed to the model as the table defining f',
           'heap9: harness channels/server set standing for the balancer\'s next sinks (harness/mocks.py); the channel '
           'state the balancer reads is set by the script; random.randint drawn by __Put is recorded and passed to the model']
ASSUMPTIONS = ['resmux: observations are taken at quiescence (one stimulus, then a full drain of the callback list); Open() is '
               'called once and first, Close() once; I/O outcomes are only given to a greenlet that is blocked in that call; '
               'requests carry no deadline (C12); one connection at a time',
               'initial_wait <= max_wait and w <= w ** exponent for the configured values (checked on the '
               'table computed by the real code: it must grow until capped; configurations with initial_wait <= 1 s are outside the claim)',
               'float arithmetic of the back-off is not modelled: waits are compared in integer microseconds',
               'a channel is not re-opened after Close() (the balancers create a new sink instead)',
               'respool: max_watermark >= 1 (with 0 the pool queues every request for ever); requests are issued one at a '
               'time, so the pool never counts more than one transport (the theorems hold for every min_watermark and '
               'every max_watermark >= 1; the check runs min_watermark 0/1/2 x max_watermark 1/2/Int.MaxValue)',
               'a connect that hangs for ever blocks the retry greenlet for ever (no connect timeout in this layer); '
               'the recovery bound is stated from the later of: endpoint reachable, last pending connect resolved',
               'heap9: channel states change only between balancer calls (gevent is cooperative); fewer than 2^31-1 '
               'dispatches in the history (theorem hypothesis, part of the reported wf)']
RULE = ('scripts drawn from the seeded generators of the four components; distinct = distinct (cfg, op list); respool: the '
        'pool configuration (min_watermark 0/1/2 x max_watermark 1/2/unbounded) is part of cfg, half of the generated '
        'scripts run min_watermark = 0; '
        'non-trivial = the endpoint went down at least once (fault delivered or connect refused) and at least one '
        'of: a retry, a hang, a close while down, a stale fault, recovery; for heap9: a member was marked down and '
        'at least one of: a member marked up again, two members listed at once, a listed member removed; for resmux: the '
        'connection went down and at least one of: a retry, recovery, three back-off steps, the cap, Close() while down, a '
        'burst or race fault, ping silence; resmux exhaustive: 19 phases (first handshake, open connection, reconnection '
        'handshake) x 14 faults x 2 continuations + 64 outcome sequences of three consecutive attempts')

CFGS = [[5, 60, 1.2], [5, 60, 1.2], [2, 30, 1.5], [3, 10, 2], [1.5, 20, 1.3], [10, 10, 1.2], [4, 45, 1.1]]


E2E_SHARE = 0.06


def gen_script(rng, tier):
    if rng.random() < (E2E_SHARE if tier == 'quick' else E2E_SHARE / 5):
        # the assembled Thrift / ThriftMux clients (component e2e9, monitor Adapter/E2E.lean): closed, then left alone
        import e2e
        return dict(e2e.gen_script(rng, tier, rng.choice(['close', 'close', 'resume'])), kind='e2e')
    if rng.random() < MUX_SHARE:
        import c09mux
        return c09mux.gen_script(rng, tier)
    if rng.random() < HEAP_SHARE:
        import c09heap
        return c09heap.gen_script(rng, tier)
    if rng.random() < 0.3:
        import c09pool
        return c09pool.gen_script(rng, tier)
    return gen_res(rng, tier)


def gen_res(rng, tier):
    cfg = rng.choice(CFGS)
    ops = []
    n = rng.choice([6, 12, 20, 30, 45] if tier == 'quick' else [6, 12, 20, 30, 45, 70])
    style = rng.choice(['mixed', 'mixed', 'down-at-first', 'flap', 'long-down', 'hangs', 'close-races'])
    reach0 = 'up'
    if style == 'down-at-first' or rng.random() < 0.15:
        reach0 = rng.choice(['down', 'hang'])
        ops.append(['reach', reach0])
    if rng.random() < 0.1:
        ops.append(['req'])
    ops.append(['open'])
    if reach0 != 'up':
        # the transport's contract: a failed connect raises the fault signal
        if reach0 == 'hang' and rng.random() < 0.7:
            ops.append(['done', 0, rng.random() < 0.4])
        if rng.random() < 0.85:
            ops.append(['fault', 0])
    w = {'mixed': dict(req=5, fault=2, turn=4, reach=3, tick=4, wake=3, done=2, close=0.3),
         'down-at-first': dict(req=4, fault=1, turn=3, reach=2, tick=3, wake=5, done=2, close=0.2),
         'flap': dict(req=4, fault=3, turn=3, reach=6, tick=3, wake=6, done=2, close=0.1),
         'long-down': dict(req=3, fault=1, turn=2, reach=0.5, tick=2, wake=9, done=1, close=0.1),
         'hangs': dict(req=3, fault=2, turn=4, reach=4, tick=2, wake=5, done=6, close=0.4),
         'close-races': dict(req=3, fault=3, turn=3, reach=3, tick=1, wake=4, done=4, close=2)}[style]
    names = list(w)
    weights = [w[k] for k in names]
    if style == 'long-down':
        ops += [['fault', 0], ['turn'], ['reach', 'down']]
    for _ in range(n):
        k = rng.choices(names, weights)[0]
        if k == 'fault':
            # mostly the newest sink (the current one), sometimes a stale one
            ops.append(['fault', -1 if rng.random() < 0.8 else rng.randrange(0, 8)])
        elif k == 'reach':
            if style == 'hangs':
                ops.append(['reach', rng.choice(['up', 'down', 'hang', 'hang'])])
            else:
                ops.append(['reach', rng.choice(['up', 'down', 'down', 'hang'])])
        elif k == 'tick':
            ops.append(['tick', rng.choice([1, 10, 500, 1000, 3700, 5000, 20000, 61000])] if rng.random() < 0.85 else ['near'])
        elif k == 'done':
            ops.append(['done', rng.randrange(0, 4), rng.random() < 0.5])
        else:
            ops.append([k])
    if style == 'close-races' or rng.random() < 0.1:
        # Close() lands between the completion of a pending connect and the greenlet's resumption
        ops += [['reach', 'hang'], ['fault', -1], ['turn'], ['turn'], ['wake'], ['done', 0, rng.random() < 0.7]]
        if rng.random() < 0.5:
            ops += [['fault', -1]]
        ops += [['close'], ['turn'], ['fault', -1], ['turn'], ['turn'], ['tick', 61000], ['tick', 61000]]
    if rng.random() < 0.5:
        # endpoint comes back for good: traffic must resume within one maximum interval
        ops += [['reach', 'up'], ['done', 0, False], ['turn'], ['tick', int(cfg[1] * 1000)], ['req'], ['req']]
    if rng.random() < 0.3:
        ops += [['close'], ['turn'], ['tick', 200000], ['req']]
    return {'kind': 'res', 'cfg': cfg, 'ops': ops}


def exhaustive(tier, shard, shards):
    """every sequence of outcomes of up to R consecutive reconnection attempts (refused, accepted,
    hanging then refused, hanging then accepted), the reachability flipping 1 ms before the attempt or
    long before it, with a request probing after every step, optionally closed at the end; and the same
    (refused / accepted) for the resurrector over the real pool and transport, for each of the nine pool
    configurations (min_watermark 0/1/2 x max_watermark 1/2/unbounded)"""
    import itertools
    rmax = (THOROUGH if tier == 'thorough' else QUICK)['exhaustive_r']
    k = 0
    for r in range(1, rmax + 1):
        for outs in itertools.product(['down', 'up', 'hangF', 'hangT'], repeat=r):
            for late_flip in (False, True):
                for close in (False, True):
                    k += 1
                    if k % shards != shard:
                        continue
                    ops = [['open'], ['req'], ['fault', 0], ['turn'], ['req']]
                    for i, o in enumerate(outs):
                        reach = {'down': 'down', 'up': 'up', 'hangF': 'hang', 'hangT': 'hang'}[o]
                        if late_flip:
                            # all but the last millisecond with the opposite reachability
                            ops += [['reach', 'up' if reach != 'up' else 'down'], ['near'], ['reach', reach], ['wake']]
                        else:
                            ops += [['reach', reach], ['wake']]
                        ops += [['req']]
                        if o in ('hangF', 'hangT'):
                            ops += [['done', 0, o == 'hangT'], ['req'], ['turn'], ['req']]
                        if o in ('up', 'hangT') and i + 1 < len(outs):
                            ops += [['fault', -1], ['req'], ['turn'], ['req']]
                    if close:
                        ops += [['close'], ['turn'], ['tick', 200000], ['req']]
                    yield {'kind': 'res', 'cfg': [5, 60, 1.2], 'ops': ops}
        import c09pool
        for outs in itertools.product(['down', 'up'], repeat=r):
            for close in (False, True):
                for first in ('down', 'up'):
                    for wm in c09pool.WMS:
                        k += 1
                        if k % shards != shard:
                            continue
                        ops = [['reach', first], ['open'], ['req', 'reply']]
                        if first == 'up':
                            # the connection breaks under a request / (alternating) the endpoint goes away between
                            # requests: noticed by the request's own connect when the pool keeps no connection
                            ops += ([['req', 'eof']] if len(outs) % 2 else [['reach', 'down'], ['req', 'reply']])
                            ops += [['req', 'reply']]
                        for i, o in enumerate(outs):
                            ops += [['reach', o], ['wake'], ['req', 'reply'], ['req', 'reply']]
                            if o == 'up' and i + 1 < len(outs):
                                ops += [['req', 'eof'], ['req', 'reply']]
                        if close:
                            ops += [['close'], ['tick', 200000]]
                        yield {'kind': 'pool', 'cfg': [5, 60, 1.2], 'wm': wm, 'ops': ops}
    # the balancer hop: every order of going down x every order of coming back (harness/c09heap.py)
    import c09heap
    for s in c09heap.exhaustive(tier, shard, shards):
        yield s
    # the ThriftMux chain: a fault of every kind at every point of the handshakes, of traffic and of the retry sleep
    import c09mux
    for s in c09mux.exhaustive(tier, shard, shards):
        yield s


def shrink(script):
    if script.get('kind') == 'e2e':
        import e2e
        for s in e2e.shrink(script):
            yield s
        return
    if script.get('kind') == 'heap':
        import c09heap
        for s in c09heap.shrink(script):
            yield s
        return
    if script.get('kind') == 'mux':
        import c09mux
        for s in c09mux.shrink(script):
            yield s
        return
    ops = script['ops']
    for i in range(len(ops)):
        s = dict(script)
        s['ops'] = ops[:i] + ops[i + 1:]
        yield s
    for i in range(len(ops)):
        if ops[i][0] == 'tick' and ops[i][1] > 1:
            s = dict(script)
            s['ops'] = ops[:i] + [['tick', ops[i][1] // 2]] + ops[i + 1:]
            yield s


def run_script(script):
    if script.get('kind') == 'e2e':
        import e2e
        return e2e.run_script(script, 'e2e9')
    if script.get('kind') == 'heap':
        import c09heap
        return c09heap.run_script(script)
    if script.get('kind') == 'pool':
        import c09pool
        return c09pool.run_script(script)
    if script.get('kind') == 'mux':
        import c09mux
        return c09mux.run_script(script)
    import c09res
    return c09res.run_script(script)


def nontrivial(case):
    if case.get('comp') == 'e2e9':
        return bool(set(case.get('tags', [])) & {'unreachable', 'conn-killed', 'pre-open', 'after-close-down'})
    if case.get('comp') == 'heap9':
        import c09heap
        return c09heap.nontrivial(case)
    if case.get('comp') == 'resmux':
        import c09mux
        return c09mux.nontrivial(case)
    t = set(case.get('tags', []))
    went_down = bool(t & {'went-down', 'connect-refused', 'fault-mid-traffic'})
    return went_down and bool(t & {'retry', 'hang-resolved-ok', 'hang-resolved-fail', 'close-while-down',
                                   'fault-stale', 'recovered', 'backoff3', 'capped'})
