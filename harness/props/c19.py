"""C19 — ZooKeeper server set: the real scales.loadbalancer.zookeeper.ServerSet on top of kazoo's
real DataWatch / ChildrenWatch recipes over harness/fakezk.FakeZk.

A script is a list of intents
    ['cp'] ['dp'] ['cc', n] ['dc', n]      create / delete the watched path, a child
    ['start']                               construct the ServerSet (with callbacks)
    ['deliver']                             the oldest fired watch event reaches its watcher
    ['serve'] ['ret']                       the worker's member read in flight is answered / returns
    ['list']                                the consumer lists the members: prov.GetServers() in a greenlet of
                                            its own (what every client does once, right after 'start')
    ['lserve', k] ['lret', k]               the member read in flight of the k-th listing in progress is
                                            answered / returns (the listing then reads on, or returns)
    ['settle']                              deliver / serve / ret / lserve / lret until nothing is on its way
Intents that are not enabled in the current state are skipped (so every sub-list of a script is
a script).  What is recorded per executed operation is the operation with its observed label
(which member read the worker — or the listing — requested next; listings are named by their
sequence number) and the canonical observation (Adapter/ServerSet `Obs`; it includes the members
every listing returned).  Names: child n is `member_%04d` if n < lim (passes the member filter) else `other_%04d`.
Content: znode n carries the Member with port 9000 + key(n), key(n) = script['keys'][n] (n itself
beyond the list / without 'keys'); two znodes with the same key carry Members that are equal by
`Member.__eq__` (which ignores the znode name) — a server that re-registered.  The key recorded with
every notification is read off the Member object the callback was handed.
"""
from lib import vfmt

PROPERTY = 'C19'
COMPONENT = 'serverset'
QUICK = dict(gen=2400, exhaustive_len=6, exhaustive_list_len=5)
THOROUGH = dict(gen=30000, exhaustive_len=9, exhaustive_list_len=7)
TRUSTED = ['harness/fakezk.py: ZooKeeper watch semantics (one-shot watches, events delivered in order, one at a '
           'time; recipe reads and the get_children of a listing atomic, member reads (the worker\'s and each listing\'s, '
           'independently) served and returned at separate instants)',
           'kazoo 2.11 DataWatch/ChildrenWatch recipes run unmodified; their behaviour is part of the model '
           '(Model/ServerSet.lean dataDeliver/childDeliver) and is compared on every run']
ASSUMPTIONS = ['the data of a znode name never changes (a name that is re-created carries the same Member)',
               'Member-equality clauses (member-join-twice / member-leave-unknown / member-missing / member-stale) are '
               'judged only while the history never had two member znodes with equal Members at the same time; '
               'after that only the by-name clauses are judged (the property text does not say what a consumer '
               'that goes by Member equality should hold then)',
               'member data is well-formed JSON (member_factory does not raise)',
               'no session loss / reconnect; ServerSet.stop() is not exercised',
               'quiet (where the consumer must hold exactly the members present) = no scheduler step is enabled: no fired '
               'watch event undelivered, no member read in flight, no listing in progress — judged from the fake '
               'ensemble and the listing greenlets only, so a worker that is stuck is judged, not waited for',
               'the members a listing returns are compared with the model (exact prediction) but not judged by the '
               'specification: the property text speaks of the notification stream only',
               'recipe reads (get/exists/get_children on the watched path) are answered at once; only member reads '
               'have latency']
RULE = ('scripts drawn from the seeded generator and the word enumerator; distinct = distinct (cfg, op list with labels); non-trivial = '
        'reaches at least one of: a member read that misses, parent deletion with members, re-creation of a name, a '
        'raising callback, a read in flight across a parent deletion, two registered child watches, two queued '
        'updates, a path operation the DataWatch has not been told about, one update that removes a znode and '
        'adds another with an equal Member, two znodes with equal Members present together, the worker held back by '
        'a listing and released when the last one returns, overlapping listings, a listing whose read misses')


def cname(n, lim):
    return ('member_%04d' if n < lim else 'other_%04d') % n


def cid(name):
    return int(name.split('_')[1])


def keyof(script, n):
    keys = script.get('keys') or []
    return keys[n] if n < len(keys) else n


# ------------------------------------------------------------------ generation
def gen_script(rng, tier):
    lim = rng.choice([3, 4, 4, 5, 6])
    nnames = lim + rng.choice([0, 0, 1, 2])
    p_raise = rng.choice([0.0, 0.0, 0.2, 0.5])
    # content of the znodes: half of the scripts have names that carry equal Members
    if rng.random() < 0.5:
        keys = []
    else:
        pool = max(1, nnames - rng.choice([1, 2, 2, 3]))
        keys = [rng.randrange(pool) for _ in range(nnames)]
    key = lambda n: keys[n] if n < len(keys) else n
    p_dup = rng.choice([0.0, 0.0, 0.1, 0.5])     # how readily two equal Members are present together

    def clash(n, kids):
        return n < lim and any(m != n and m < lim and key(m) == key(n) for m in kids)
    rj = sorted(n for n in range(lim) if rng.random() < p_raise)
    rl = sorted(n for n in range(lim) if rng.random() < p_raise)
    length = rng.choice([8, 15, 25, 40] if tier == 'quick' else [10, 20, 40, 80, 120])
    eager = rng.choice([0.2, 0.5, 0.8])           # how promptly the schedule moves
    # listings by the consumer: most clients list once right after 'start' (LoadBalancerSink does); some scripts
    # list again and again, also while earlier listings are still reading
    p_first = rng.choice([0.0, 0.6, 0.9, 0.9, 1.0])
    p_list = rng.choice([0.0, 0.0, 0.04, 0.1, 0.25])

    def sched():
        r = rng.random()
        if r < 0.45:
            return [rng.choice(['deliver', 'deliver', 'serve', 'ret', 'ret'])]
        k = rng.choice([0, 0, 0, 1, 1, 2])
        return [rng.choice(['lserve', 'lret', 'lret']), k]

    def start_ops():
        out = [['start']]
        if rng.random() < p_first:
            out.append(['list'])
            if rng.random() < 0.15:
                out.append(['list'])
        return out
    ops = []
    parent, kids, started = False, set(), False
    # initial tree before the client exists
    if rng.random() < 0.7:
        ops.append(['cp'])
        parent = True
        for n in range(nnames):
            if rng.random() < 0.4 and (not clash(n, kids) or rng.random() < p_dup):
                ops.append(['cc', n])
                kids.add(n)
    if rng.random() < 0.9:
        ops += start_ops()
        started = True
    while len(ops) < length:
        r = rng.random()
        if r < eager * 0.5:
            ops.append(sched() if p_first + p_list > 0 else [rng.choice(['deliver', 'deliver', 'serve', 'ret', 'ret'])])
        elif r < eager * 0.5 + 0.08:
            ops.append(['settle'])
        elif not started and rng.random() < 0.3:
            ops += start_ops()
            started = True
        elif started and rng.random() < p_list:
            ops.append(['list'])
        elif not parent:
            if rng.random() < 0.6:
                ops.append(['cp'])
                parent = True
            else:
                ops.append([rng.choice(['deliver', 'serve', 'ret'])])
        else:
            r2 = rng.random()
            if r2 < 0.12:
                # tear the path down: children first, then the path (ZooKeeper order)
                for n in sorted(kids):
                    ops.append(['dc', n])
                    if rng.random() < 0.3:
                        ops.append([rng.choice(['deliver', 'serve', 'ret'])])
                ops.append(['dp'])
                kids.clear()
                parent = False
                if rng.random() < 0.5:
                    ops.append(['deliver'])
                    if rng.random() < 0.7:
                        ops.append(['deliver'])
            elif r2 < 0.20 and not kids:
                # the path flaps faster than the client is told
                ops.append(['dp'])
                if rng.random() < 0.4:
                    ops.append(['deliver'])
                ops.append(['cp'])
                if rng.random() < 0.3:
                    ops.append(['dp'])
                    ops.append(['cp'])
            elif r2 < 0.32 and keys and any(m < lim for m in kids):
                # a server restarts: its znode goes and it re-registers under another name with an equal
                # Member, usually before the client has listed the children again
                a = rng.choice(sorted(m for m in kids if m < lim))
                twins = [b for b in range(lim) if b not in kids and key(b) == key(a)]
                if twins:
                    b = rng.choice(twins)
                    both = [['dc', a], ['cc', b]]
                    if rng.random() < p_dup:
                        both.reverse()             # registers again before the old znode has gone
                    ops.append(both[0])
                    if rng.random() < 0.15:
                        ops.append([rng.choice(['deliver', 'serve', 'ret'])])
                    ops.append(both[1])
                    kids.discard(a)
                    kids.add(b)
                else:
                    ops.append(['dc', a])
                    kids.discard(a)
            elif r2 < 0.60 and len(kids) < nnames:
                free = [x for x in range(nnames) if x not in kids]
                calm = [x for x in free if not clash(x, kids)]
                n = rng.choice(calm if calm and rng.random() >= p_dup else free)
                ops.append(['cc', n])
                kids.add(n)
            elif kids:
                n = rng.choice(sorted(kids))
                ops.append(['dc', n])
                kids.discard(n)
                if rng.random() < 0.3:        # flap: the same name comes back at once
                    ops.append(['cc', n])
                    kids.add(n)
            else:
                ops.append(['cc', rng.randrange(nnames)])
    if rng.random() < 0.9:
        ops.append(['settle'])
    script = {'lim': lim, 'rj': rj, 'rl': rl, 'ops': ops}
    if keys:
        script['keys'] = keys
    return script


EXH_PREFIXES = [
    [['cp'], ['cc', 0], ['start']],                 # the worker's first read is in flight
    [['cp'], ['start'], ['settle']],                # watching an empty path
]
EXH_ALPHABET = [['dp'], ['cp'], ['cc', 0], ['dc', 0], ['cc', 1], ['deliver'], ['serve'], ['ret']]
EXH_LIST_PREFIXES = [
    [['cp'], ['cc', 0], ['start'], ['list']],       # the worker's and the listing's first reads are in flight
]
EXH_LIST_ALPHABET = [['cc', 1], ['dc', 0], ['deliver'], ['serve'], ['ret'], ['list'], ['lserve', 0], ['lret', 0],
                     ['lserve', 1], ['lret', 1]]


def exhaustive(tier, shard, shards):
    """every word of enabled operations up to the given length over path/child operations and
    scheduler steps, after two fixed prefixes, each followed by settling.  Enabledness is found
    by running the real code on the word (depth-first; sharded on the first two letters)."""
    n = (THOROUGH if tier == 'thorough' else QUICK)['exhaustive_len']
    base = {'lim': 2, 'rj': [], 'rl': [1]}
    # the same words once more with znodes 0 and 1 carrying equal Members (which operations are enabled
    # does not depend on the content)
    twin = dict(base, keys=[5, 5])

    def enabled(ops):
        return run_script(dict(base, ops=ops))['enabled'][-1]

    def walk(prefix, word, depth, alphabet):
        for a in alphabet:
            w = word + [a]
            if len(w) == 2 and (alphabet.index(w[0]) * len(alphabet) + alphabet.index(w[1])) % shards != shard:
                continue
            if not enabled(prefix + w):
                continue
            if len(w) >= 2 or shard == 0:
                yield dict(base, ops=prefix + w + [['settle']])
                if ['cc', 1] in w:
                    yield dict(twin, ops=prefix + w + [['settle']])
            if depth > 1:
                for x in walk(prefix, w, depth - 1, alphabet):
                    yield x

    for prefix in EXH_PREFIXES:
        for x in walk(prefix, [], n, EXH_ALPHABET):
            yield x
    # the same with a listing by the consumer begun right after construction (what every client does), further
    # listings, and the listings' reads stepped on their own
    nl = (THOROUGH if tier == 'thorough' else QUICK)['exhaustive_list_len']
    for prefix in EXH_LIST_PREFIXES:
        for x in walk(prefix, [], nl, EXH_LIST_ALPHABET):
            yield x


def shrink(script):
    ops = script['ops']
    for i in range(len(ops)):
        s = dict(script)
        s['ops'] = ops[:i] + ops[i + 1:]
        yield s
    for key in ('rj', 'rl', 'keys'):
        if script.get(key):
            s = dict(script)
            s[key] = []
            yield s
    for i, op in enumerate(ops):
        if op[0] == 'settle':
            for rep in (['deliver'], ['serve'], ['ret'], ['lserve', 0], ['lret', 0]):
                s = dict(script)
                s['ops'] = ops[:i] + [rep] + ops[i:]
                yield s


# ------------------------------------------------------------------ running the real code
def run_script(script):
    import rt
    from fakezk import FakeZk, member_data
    from scales.loadbalancer.zookeeper import ServerSet

    lim, rj, rl = script['lim'], set(script.get('rj', [])), set(script.get('rl', []))
    keys = list(script.get('keys') or [])
    key = lambda n: keyof(script, n)
    import gevent
    zk = FakeZk('/svc')
    zk.start()
    box = {'ss': None, 'notes': [], 'mkeys': [], 'errs': 0}
    steps, tags, enabled = [], set(), []
    joined_once = set()
    # listings by the consumer: {'id', 'g' (the greenlet running prov.GetServers())}, in start order
    listings, done = [], []
    zk.owner_of = lambda g: next((l['id'] for l in listings if l['g'] is g), None)

    def on_join(m):
        n = cid(m.name)
        box['notes'].append(('j', n))
        box['mkeys'].append(m.service_endpoint.port - 9000)
        if n in joined_once:
            tags.add('rejoin')
        joined_once.add(n)
        if n in rj:
            box['errs'] += 1
            tags.add('raise')
            raise ValueError('on_join %d' % n)

    def on_leave(m):
        n = cid(m.name)
        box['notes'].append(('l', n))
        box['mkeys'].append(m.service_endpoint.port - 9000)
        tags.add('leave')
        if n in rl:
            box['errs'] += 1
            tags.add('raise')
            raise ValueError('on_leave %d' % n)

    def reading(owner='w'):
        r = zk.reads.get(owner)
        if r is None:
            return None
        if r['phase'] == 'requested':
            return ['req', cid(r['name'])]
        return ['srv', cid(r['name']), r['data'] is not None]

    def reap():
        """listings that have returned: their result joins the observation"""
        for l in list(listings):
            if l['g'].ready():
                listings.remove(l)
                if l['g'].successful():
                    done.append([l['id'], [cid(m.name) for m in l['g'].value]])
                else:
                    tags.add('listing-raised-' + type(l['g'].exception).__name__)
                    done.append([l['id'], [999999]])

    def observe():
        ss = box['ss']
        notes, box['notes'] = box['notes'], []
        mkeys, box['mkeys'] = box['mkeys'], []
        left = [k for (t, _), k in zip(notes, mkeys) if t == 'l']
        if any(t == 'j' and k in left for (t, _), k in zip(notes, mkeys)):
            tags.add('restart-in-one-update')
        errs, box['errs'] = box['errs'], 0
        hub = rt.take_errors()
        if hub:
            tags.add('uncaught-' + hub[0][0])
        if ss is None:
            return [False, notes, mkeys, errs, False, [], [], 0, False, [], False, 0, None, len(hub), 0, True, [], []]
        reap()
        # nothing is on its way, judged from the outside (the fake ensemble and the listing greenlets): no scheduler
        # step is enabled.  Nothing of the ServerSet's own state enters, so a worker that is stuck is judged too.
        quiet = (not zk.pending) and (not zk.reads) and (not listings)
        blk = ss._cb_blocker
        if blk.event.linkcount() > 0:
            tags.add('worker-held')
        return [False, notes, mkeys, errs, quiet, sorted(cid(x) for x in ss._nodes), [cid(x) for x in ss._members],
                ss._notification_queue.qsize(), bool(ss._watching), [('d' if k == 'data' else 'c') for k, _, _ in zk.pending],
                bool(zk.data_watch), len(zk.child_watch), reading(), len(hub),
                blk._count, blk.event.is_set(), [[l['id'], reading(l['id'])] for l in listings],
                [list(d) for d in done]]

    def do(op):
        """op: intent; returns False if not enabled"""
        k = op[0]
        ss = box['ss']
        nreq = len(zk.requested)
        labelled = False
        by = 'w'          # whose next read the label names
        if k in ('cp', 'dp'):
            if (k == 'cp') != (zk.parent is None) or (k == 'dp' and zk.kids):
                return False
            if ss is not None and not zk.data_watch:
                # the DataWatch has not yet been told of the previous deletion / creation
                tags.add('parent-op-unobserved')
            if k == 'dp':
                if ss is not None and ss._members:
                    tags.add('parent-deleted-with-members')
                if zk.read is not None:
                    tags.add('inflight-at-parent-delete')
                zk.t_delete_parent()
            else:
                if zk.zxid and ss is not None:
                    tags.add('parent-recreated')
                zk.t_create_parent()
            text = k
        elif k == 'cc':
            n = op[1]
            if zk.parent is None or cname(n, lim) in zk.kids:
                return False
            if n >= lim:
                tags.add('filtered-child')
            zk.t_create_child(cname(n, lim), member_data('h', 9000 + key(n)))
            present = [key(cid(x)) for x in zk.kids if x.startswith('member_')]
            if len(set(present)) < len(present):
                tags.add('equal-members-together')
            text = 'cc %d' % n
        elif k == 'dc':
            n = op[1]
            if cname(n, lim) not in zk.kids:
                return False
            zk.t_delete_child(cname(n, lim))
            text = 'dc %d' % n
        elif k == 'start':
            if ss is not None:
                return False
            # built the way a client builds it: through the real ZooKeeperServerSetProvider (its member-prefix
            # filter and its wiring of the callbacks are code under test), over the harness's KazooClient
            from scales.loadbalancer.serverset import ZooKeeperServerSetProvider
            prov = ZooKeeperServerSetProvider(zk, '/svc', member_prefix='member_')
            prov.Initialize(on_join, on_leave)
            box['prov'] = prov
            box['ss'] = prov._server_set
            text, labelled = 'start', True
        elif k == 'deliver':
            if ss is None or not zk.pending:
                return False
            zk.t_deliver()
            text, labelled = 'deliver', True
        elif k == 'serve':
            if zk.read is None or zk.read['phase'] != 'requested':
                return False
            zk.t_serve()
            if zk.read['data'] is None:
                tags.add('miss')
            text = 'serve'
        elif k == 'ret':
            if zk.read is None or zk.read['phase'] != 'served':
                return False
            zk.t_return()
            text, labelled = 'ret', True
        elif k == 'list':
            if ss is None:
                return False
            # the consumer lists the members through the real provider, in a greenlet of its own
            lid = box.get('lgen', 0)
            box['lgen'] = lid + 1
            if listings:
                tags.add('list-overlap')
            if zk.read is not None:
                tags.add('list-during-update')
            tags.add('list')
            l = {'id': lid, 'g': None}
            listings.append(l)
            l['g'] = gevent.spawn(box['prov'].GetServers)
            text, labelled, by = 'list', True, lid
        elif k in ('lserve', 'lret'):
            if op[1] >= len(listings):
                return False
            lid = listings[op[1]]['id']
            r = zk.reads.get(lid)
            if r is None or r['phase'] != ('requested' if k == 'lserve' else 'served'):
                return False
            if k == 'lserve':
                zk.t_serve(lid)
                if r['data'] is None:
                    tags.add('list-miss')
                text = 'lserve %d' % lid
            else:
                held = ss._cb_blocker.event.linkcount() > 0
                zk.t_return(lid)
                text, labelled, by = 'lret %d' % lid, True, None      # the listing's next read, or the worker's
        else:
            raise ValueError(op)
        rt.drain()
        if labelled:
            new = [(o, n) for o, n in zip(zk.requested_by[nreq:], zk.requested[nreq:]) if by is None or o == by]
            nxt = cid(new[0][1]) if new else None
            text += ' ' + vfmt(nxt)
        obs = observe()
        if k == 'lret' and held and not ss._cb_blocker.event.linkcount() and not listings:
            tags.add('worker-released')
        if obs[11] >= 2:
            tags.add('two-child-watches')
        if obs[7] >= 2:
            tags.add('queue-2')
        steps.append([text, vfmt(obs)])
        return True

    def settle():
        for _ in range(10000):
            if zk.read is not None:
                do(['serve'] if zk.read['phase'] == 'requested' else ['ret'])
            elif listings and zk.reads.get(listings[0]['id']) is not None:
                do(['lserve' if zk.reads[listings[0]['id']]['phase'] == 'requested' else 'lret', 0])
            elif zk.pending and box['ss'] is not None:
                do(['deliver'])
            else:
                return
        raise RuntimeError('settle: never quiet')

    for op in script['ops']:
        if op[0] == 'settle':
            settle()
            enabled.append(True)
        else:
            enabled.append(do(op))
    if steps and box['ss'] is not None:
        last = steps[-1][1]
        tags.add('ends-quiet' if (not zk.pending and not zk.reads and not listings) else 'ends-busy')
    if box['ss'] is not None:
        box['ss'].stop()
        for l in listings:
            l['g'].kill(block=False)
        rt.drain()
        rt.take_errors()
    cfg = vfmt([lim, sorted(rj), sorted(rl)] + ([keys] if keys else []))[1:-1]
    return {'comp': COMPONENT, 'cfg': cfg, 'steps': steps, 'tags': sorted(tags), 'enabled': enabled}


def nontrivial(case):
    t = set(case.get('tags', []))
    return bool(t & {'miss', 'parent-deleted-with-members', 'rejoin', 'raise', 'inflight-at-parent-delete',
                     'two-child-watches', 'queue-2', 'parent-recreated', 'parent-op-unobserved',
                     'restart-in-one-update', 'equal-members-together', 'worker-held', 'worker-released',
                     'list-overlap', 'list-miss', 'list-during-update'})
