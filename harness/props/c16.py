"""C16 — singleton pool, ref-counted sink, shared sink provider.

Three components, each the *real* class from scales over harness-controlled neighbours:

  singleton   scales.pool.singleton.SingletonPoolSink  over a provider whose sinks open only when
              the script says so (`ok`/`fail`), so requests can arrive during a slow open, and whose
              Close() is not atomic for the pool: like scales/mux/sink.py `_Shutdown` it marks the sink
              Closed and then fails the requests in flight on it, calling their callers back - a caller
              the script armed re-submits through the pool from inside that Close() (`pclose retry`) -
              and, if the script says so, it yields first and stays suspended until resumed, so that
              requests of other greenlets reach the pool during the underlying Close()
              (`pclose yield` … `cresume`)
  refcount    scales.sink.RefCountedSink               over a counting sink; the calls of a batch run
              concurrently (one greenlet each), optionally with an underlying sink that yields
  sharedprov  scales.sink.SharedSinkProvider           over a provider of real-enough sinks (state
              Idle/Open/Closed, Open/Close, transport fault); holders keep or drop their (strong)
              references and call Open()/Close() on what they hold, underlying sinks fail at any
              point - so CreateSink(key) also happens while the cached shared sink is Closed and
              older holders are alive

Any exception that escapes the implementation where the model predicts a normal outcome becomes the
observation `(raised <TypeName>)` of that operation, which the Lean specification judges (clause
`raised`); the script stops there.
"""
import itertools

from lib import vfmt

PROPERTY = 'C16'
import isolation as _iso
ISOLATION = [(n, getattr(_iso, n)) for n in ['singleton_pool']]      # instance-isolation obligation (harness/isolation.py)
COMPONENT = 'singleton'
QUICK = dict(gen=4000, exh_len=5, exh_prov=4, exh_close=4)
THOROUGH = dict(gen=40000, exh_len=6, exh_prov=5, exh_close=5)

SOURCE_IMPORTS = ['ScalesModel.Model.Shared']
_RC_VARS = {'self._ref_count': 'count', 'opens': 'opens', 'closes': 'closes'}
_RC_GHOST = {'self.next_sink.Open()': 'opens', 'self.next_sink.Close()': 'closes'}
# RefCountedSink.Open / Close translated from the current source on every run (harness/pytrans.py): the reference
# count and the number of Open()/Close() calls that reach the underlying sink (ghost counters), as functions of
# the state before; the obligations say that the hand-written model step is exactly that, for every state
SOURCE_SITES = [
    dict(name='genRcOpenCount', file='scales/sink.py', func='RefCountedSink.Open', kind='final', var='self._ref_count',
         varmap=_RC_VARS, ghost=_RC_GHOST, params=['count', 'opens', 'closes'], obligation='open Scales.Shared'),
    dict(name='genRcOpenOpens', file='scales/sink.py', func='RefCountedSink.Open', kind='final', var='opens',
         varmap=_RC_VARS, ghost=_RC_GHOST, params=['count', 'opens', 'closes'], obligation='theorem genRcOpen_eq (s : RC) (h : Nat) :\n    ((s.step (.ropen h)).1.count : Int) = genRcOpenCount s.count s.opens s.closes ∧\n    ((s.step (.ropen h)).1.opens : Int) = genRcOpenOpens s.count s.opens s.closes ∧\n    (s.step (.ropen h)).1.closes = s.closes := by\n  unfold RC.step genRcOpenCount genRcOpenOpens\n  by_cases hc : s.count = 0\n  · simp [hc]\n  · have h1 : ¬ ((s.count : Int) + 1 = 1) := by omega\n    have h2 : ¬ (s.count + 1 = 1) := by omega\n    simp [hc, h1]\n'),
    dict(name='genRcCloseCount', file='scales/sink.py', func='RefCountedSink.Close', kind='final', var='self._ref_count',
         varmap=_RC_VARS, ghost=_RC_GHOST, params=['count', 'opens', 'closes'], obligation=''),
    dict(name='genRcCloseCloses', file='scales/sink.py', func='RefCountedSink.Close', kind='final', var='closes',
         varmap=_RC_VARS, ghost=_RC_GHOST, params=['count', 'opens', 'closes'], obligation="theorem genRcClose_eq (s : RC) (h : Nat) :\n    ((s.step (.rclose h)).1.count : Int) = genRcCloseCount s.count s.opens s.closes ∧\n    ((s.step (.rclose h)).1.closes : Int) = genRcCloseCloses s.count s.opens s.closes ∧\n    (s.step (.rclose h)).1.opens = s.opens := by\n  unfold RC.step genRcCloseCount genRcCloseCloses\n  by_cases h0 : s.count = 0\n  · simp [h0]\n  · have h0' : ¬ ((s.count : Int) = 0) := by omega\n    by_cases h1 : s.count = 1\n    · simp [h1]\n    · have h1' : ¬ ((s.count : Int) - 1 = 0) := by omega\n      have h1'' : ¬ (s.count - 1 = 0) := by omega\n      simp [h0, h0', h1', h1'']\n      omega\n"),
]
TRUSTED = [
    'contract of an underlying sink as implemented by the harness sink (and by the socket transports and the '
    'test mocks): Idle until its open completes, Open() idempotent while an open result exists, Close()/fault '
    'set Closed and fail a pending open; Close() then fails the requests in flight on the sink by an error '
    'response up their sink stacks (as scales/mux/sink.py _Shutdown does) and may yield before that',
    'CPython reference counting drops a WeakValueDictionary entry as soon as the last strong reference goes',
    'gevent wakes waiters of an AsyncResult / RLock in FIFO order',
]
ASSUMPTIONS = [
    'singleton: a request that is waiting for the open when the pool\'s Close() closes the sink is handed to nobody '
    '(the real _Get re-reads next_sink after the wait, AttributeError in the request\'s greenlet); this is modelled '
    'exactly (sink id 0) and tolerated by the specification in exactly that situation - it is outside C16 (C01-type)',
    'singleton: each operation is followed by running the loop until every greenlet is blocked or finished; '
    'the only yield point inside _Get is Open().wait(), so this reaches every interleaving at that point',
    'singleton: whether a request enters the pool from inside an underlying Close() is the environment\'s doing '
    '(a failed caller that retries); the wire operation records that it happened (`pcloseR r`, `cresumeR k r`) or '
    'that the underlying Close() is suspended at its yield (`pcloseY`, resumed by `cresume k`); what the pool does '
    'with it is predicted by the model.  At most one caller re-submits per underlying Close(); the other '
    'in-flight requests of that sink are failed without retry',
    'refcount: the order in which concurrent Open/Close calls take effect is observed from the real run '
    '(completion order) and given to the model; the effect of each call is predicted',
    'sharedprov: a holder is a strong reference kept by the harness; dropping it is the only way a sink dies; '
    'the harness keeps the underlying sinks themselves alive (to observe and to fault them), never the wrappers',
    'sharedprov: the underlying sinks open synchronously: Open() makes an Idle/Open sink Open and leaves a Closed '
    'sink Closed (failed open result); Close() and a transport fault make it Closed',
    'an exception escaping the implementation is an observation `(raised <TypeName>)` judged by the specification; '
    'the rest of that script is not run',
]
RULE = ('scripts from the seeded generator plus the exhaustive enumerator (all singleton histories over '
        '{req, Open, Close, open-ok, open-fail, fault} up to a length, all singleton histories over that alphabet '
        'plus {Close with a re-entrant retry, the same also without an in-flight request, Close that yields, resume, '
        'resume with a re-entrant retry} that use one of the latter, up to a (shorter) length, '
        'all refcount Open/Close words up to a length, '
        'all provider histories of two holders of one key over {CreateSink, drop, Open, Close, fault} up to a length); '
        'distinct = distinct (cfg, op list); non-trivial = reaches a branch beyond the happy path: a request or '
        'Open()/Close() arriving while the sink is still opening, a request arriving during the underlying Close() '
        '(re-entrant, or from another greenlet during its yield), a replaced sink, a failed open, a surplus close, '
        'a re-open, contended lock, a cache hit, a collected cache entry, CreateSink while the cached sink is Closed, '
        'Open/Close of a shared sink by a second holder, a fault of a shared sink')

SINGLE_ALPHA = [['req'], ['popen'], ['pclose'], ['ok', 'cur'], ['fail', 'cur'], ['fault', 'cur']]
# requests arriving during the underlying Close(): re-entrant (`retry`: the caller of a failed in-flight request;
# `retry!`: also when nothing the pool handed over is in flight), or from another greenlet during a yield
CLOSE_ALPHA = [['pclose', 'retry'], ['pclose', 'retry!'], ['pclose', 'yield'], ['cresume'], ['cresume', 'retry!']]
PROV_ALPHA = [['create', 1, 1], ['create', 2, 1], ['drop', 1], ['drop', 2], ['hopen', 1], ['hopen', 2],
              ['hclose', 1], ['hclose', 2], ['fault', 1], ['fault', 2]]


# ------------------------------------------------------------------ generation
def gen_script(rng, tier):
    kind = rng.choice(['singleton'] * 5 + ['refcount'] * 3 + ['sharedprov'] * 3)
    if kind == 'singleton':
        n = rng.choice([3, 5, 8, 12, 16, 24] if tier == 'quick' else [3, 5, 8, 12, 16, 24, 40])
        style = rng.choice(['mixed', 'mixed', 'requests', 'flaky', 'holders', 'closing', 'closing'])
        weights = {
            'mixed': dict(req=35, popen=8, pclose=6, pclosex=4, cresume=3, ok=20, fail=8, fault=12, faultold=3),
            'requests': dict(req=55, popen=2, pclose=2, pclosex=1, cresume=1, ok=25, fail=5, fault=10, faultold=1),
            'flaky': dict(req=35, popen=3, pclose=3, pclosex=2, cresume=2, ok=12, fail=20, fault=22, faultold=5),
            'holders': dict(req=25, popen=22, pclose=18, pclosex=10, cresume=6, ok=18, fail=3, fault=5, faultold=2),
            # the last holder closes again and again over transports whose Close() calls back or yields
            'closing': dict(req=30, popen=6, pclose=3, pclosex=22, cresume=12, ok=22, fail=3, fault=3, faultold=1),
        }[style]
        names = list(weights)
        ops = []
        for _ in range(n):
            k = rng.choices(names, [weights[x] for x in names])[0]
            if k == 'req':
                ops.append(['req'])
            elif k in ('popen', 'pclose'):
                ops.append([k])
            elif k == 'pclosex':
                ops.append(['pclose', rng.choice(['retry', 'retry', 'yield', 'yield', 'retry!'])])
            elif k == 'cresume':
                ops.append(rng.choice([['cresume'], ['cresume'], ['cresume', 'retry'], ['cresume', 'retry!']]))
            elif k == 'faultold':
                ops.append(['fault', rng.randrange(1, 5)])
            else:
                ops.append([k, rng.choice(['cur', 'cur', 'cur', 'last'])])
        return {'kind': 'singleton', 'ops': ops}
    if kind == 'refcount':
        nb = rng.choice([2, 4, 6, 10, 16])
        p_open = rng.choice([0.35, 0.5, 0.5, 0.65])
        batches = []
        for _ in range(nb):
            size = rng.choice([1, 1, 1, 2, 2, 3, 4])
            b = []
            for _ in range(size):
                x = rng.random()
                if x < 0.08:
                    b.append(['rfault'])
                elif x < 0.08 + 0.92 * p_open:
                    b.append(['ropen', rng.randrange(1, 5)])
                else:
                    b.append(['rclose', rng.randrange(1, 5)])
            batches.append(b)
        return {'kind': 'refcount', 'yield': rng.random() < 0.6, 'batches': batches}
    n = rng.choice([3, 6, 10, 16, 24])
    nkeys = rng.choice([1, 1, 2, 3])
    nhold = rng.choice([2, 3, 4])
    style = rng.choice(['identity', 'mixed', 'mixed', 'faulty', 'openclose'])
    weights = {
        'identity': dict(create=60, drop=40, hopen=0, hclose=0, fault=0),
        'mixed': dict(create=35, drop=15, hopen=20, hclose=15, fault=15),
        'faulty': dict(create=40, drop=10, hopen=15, hclose=5, fault=30),
        'openclose': dict(create=25, drop=10, hopen=30, hclose=30, fault=5),
    }[style]
    names = list(weights)
    ops = []
    ncreate = 0
    if style != 'identity' and rng.random() < 0.5:
        # everybody holds the shared sink of key 1 first, so that Open/Close/fault meet several live holders
        for h in range(1, nhold + 1):
            ops.append(['create', h, 1])
            ncreate += 1
    for _ in range(n):
        k = rng.choices(names, [weights[x] for x in names])[0]
        if k == 'create':
            key = 0 if rng.random() < 0.12 else rng.randrange(1, nkeys + 1)
            ops.append(['create', rng.randrange(1, nhold + 1), key])
            ncreate += 1
        elif k == 'fault':
            ops.append(['fault', rng.randrange(1, max(1, ncreate) + 2)])
        else:
            ops.append([k, rng.randrange(1, nhold + 1)])
    return {'kind': 'sharedprov', 'ops': ops}


def exhaustive(tier, shard, shards):
    params = THOROUGH if tier == 'thorough' else QUICK
    k = 0
    for n in range(1, params['exh_len'] + 1):
        for word in itertools.product(range(len(SINGLE_ALPHA)), repeat=n):
            k += 1
            if k % shards != shard:
                continue
            yield {'kind': 'singleton', 'ops': [list(SINGLE_ALPHA[i]) for i in word]}
    # every singleton history over the larger alphabet that uses a non-atomic Close() at least once
    alpha = SINGLE_ALPHA + CLOSE_ALPHA
    base = len(SINGLE_ALPHA)
    for n in range(1, params['exh_close'] + 1):
        for word in itertools.product(range(len(alpha)), repeat=n):
            if max(word) < base:
                continue
            k += 1
            if k % shards != shard:
                continue
            yield {'kind': 'singleton', 'ops': [list(alpha[i]) for i in word]}
    # refcount: every Open/Close word, as one batch per call and as batches of two, yielding sink
    for n in range(1, params['exh_len'] + 3):
        for word in itertools.product(['ropen', 'rclose'], repeat=n):
            k += 1
            if k % shards != shard:
                continue
            calls = [[w, 1 + i % 3] for i, w in enumerate(word)]
            yield {'kind': 'refcount', 'yield': True, 'batches': [calls[i:i + 2] for i in range(0, n, 2)]}
            yield {'kind': 'refcount', 'yield': False, 'batches': [[c] for c in calls]}
    # sharedprov: every history of two holders of one key
    for n in range(1, params['exh_prov'] + 1):
        for word in itertools.product(range(len(PROV_ALPHA)), repeat=n):
            k += 1
            if k % shards != shard:
                continue
            yield {'kind': 'sharedprov', 'ops': [list(PROV_ALPHA[i]) for i in word]}


def shrink(script):
    key = 'batches' if script['kind'] == 'refcount' else 'ops'
    items = script[key]
    for i in range(len(items)):
        s = dict(script)
        s[key] = items[:i] + items[i + 1:]
        yield s
    if script['kind'] == 'refcount':
        for i, b in enumerate(items):
            if len(b) > 1:
                for j in range(len(b)):
                    s = dict(script)
                    s[key] = items[:i] + [b[:j] + b[j + 1:]] + items[i + 1:]
                    yield s
        if script.get('yield'):
            s = dict(script)
            s['yield'] = False
            yield s


# ------------------------------------------------------------------ running the real code
class E(Exception):
    pass


# what an implementation call may raise and the harness turns into the observation `(raised <TypeName>)`
_IMPL_EXC = Exception


def _raised_at_start(comp, cfg, first_text, ex):
    """constructing the object under test raised: charged to the first operation of the script"""
    steps = [[first_text, vfmt(['raised', type(ex).__name__])]] if first_text else []
    return {'comp': comp, 'cfg': cfg, 'steps': steps, 'tags': ['raised']}


def _state_name(st):
    from scales.constants import ChannelState
    return {ChannelState.Idle: 'idle', ChannelState.Open: 'open', ChannelState.Busy: 'busy',
            ChannelState.Closed: 'closed'}.get(st, 'unknown')


def _sink_classes():
    """defined lazily: scales may only be imported after rt installed the virtual loop"""
    from gevent.event import Event
    from scales.asynchronous import AsyncResult
    from scales.constants import ChannelState
    from scales.message import MethodReturnMessage
    from scales.sink import ClientMessageSink

    class USink(ClientMessageSink):
        """underlying sink whose open completes when the script says so.  Like a multiplexing transport
        (scales/mux/sink.py, _Shutdown) it keeps the requests handed to it in flight and its Close() fails
        them by delivering an error response up each request's sink stack - after marking itself Closed, and,
        if the script says so (`ctl['yield']`), after a cooperative yield that lasts until the script resumes it."""

        def __init__(self, idx, fwd, ctl):
            super(USink, self).__init__()
            self.idx = idx
            self._state = ChannelState.Idle
            self._res = None
            self.opens = 0
            self.closes = 0
            self._fwd = fwd
            self._ctl = ctl
            self.inflight = []      # (request id, sink stack) handed over while not Closed, unanswered
            self.gate = None

        @property
        def state(self):
            return self._state

        def pending(self):
            return self._res is not None and not self._res.ready()

        def _fail_pending(self):
            if self.pending():
                self._res.set_exception(E('open failed'))

        def Open(self):
            self.opens += 1
            if self._res is None:
                self._res = AsyncResult()
            return self._res

        def Close(self):
            self.closes += 1
            self._state = ChannelState.Closed
            self._fail_pending()
            if self._ctl['yield']:
                # e.g. waiting for the reader greenlet to finish: other greenlets run meanwhile
                self._ctl['yield'] = False
                self.gate = Event()
                self._ctl['suspended'].append(self)
                self.gate.wait()
            # what the script armed for *this* Close() (the pclose / cresume operation being executed): the
            # first caller it fails re-submits.  Taken here, so that it cannot go off in another Close() that
            # is still busy failing its requests.
            retry, self._ctl['retry'] = self._ctl['retry'], None
            force = self._ctl['force']
            inflight, self.inflight = self.inflight, []
            for _, sink_stack in inflight:
                self._ctl['hook'], retry = retry, None
                sink_stack.AsyncProcessResponseMessage(MethodReturnMessage(error=E('transport closed')))
            if force and retry is not None:
                # a transport that had queued a request while it was still opening (nothing of it reached
                # the pool's view) fails that too; its caller re-submits
                retry()

        def complete(self, ok):
            if not self.pending():
                return
            if ok:
                self._state = ChannelState.Open
                self._res.set(True)
            else:
                self._state = ChannelState.Closed
                self._res.set_exception(E('open failed'))
                self.on_faulted.Set(E('open failed'))

        def fault(self):
            self._state = ChannelState.Closed
            self._fail_pending()
            self.on_faulted.Set(E('fault'))

        def AsyncProcessRequest(self, sink_stack, msg, stream, headers):
            self._fwd.append((msg.rid, self.idx))
            reply = self._ctl['replies'].get(msg.rid)
            if reply is not None:
                reply.handed = True
            if self._state != ChannelState.Closed:
                self.inflight.append((msg.rid, sink_stack))

        def AsyncProcessResponse(self, sink_stack, context, stream, msg):
            pass

    class Reply(ClientMessageSink):
        """bottom of a request's sink stack, the caller: sees a response produced without any hand-over
        (recorded as a hand-over to nobody), and the failure of its in-flight request when the transport it
        was handed to is closed - to which it reacts, if the script armed it (`ctl['retry']`), like a retrying
        client: it re-submits through the same pool at once, i.e. from inside the transport's Close()."""

        def __init__(self, rid, fwd, ctl):
            super(Reply, self).__init__()
            self.rid, self._fwd, self._ctl = rid, fwd, ctl
            self.handed = False
            ctl['replies'][rid] = self

        def AsyncProcessRequest(self, sink_stack, msg, stream, headers):
            pass

        def AsyncProcessResponse(self, sink_stack, context, stream, msg):
            if not self.handed:
                self._fwd.append((self.rid, 0))
                return
            retry, self._ctl['hook'] = self._ctl['hook'], None
            if retry is not None:
                retry()

    return USink, Reply


class _Msg(object):
    def __init__(self, rid):
        self.rid = rid
        self.properties = {}


class _Ep(object):
    host, port = 'c16', 1


def run_singleton(script):
    import gevent
    import rt
    from scales.constants import SinkProperties
    from scales.pool.singleton import SingletonPoolSink
    from scales.sink import ClientMessageSinkStack
    USink, Reply = _sink_classes()
    fwd = []          # hand-overs since the last observation
    sinks = []
    tags = set()
    # what the script arms for the next pool.Close() / resumed Close(): `yield` - the underlying Close() yields
    # until resumed; `retry` - the caller of the first in-flight request failed by that Close() re-submits
    ctl = {'yield': False, 'retry': None, 'hook': None, 'force': False, 'suspended': [], 'replies': {}}

    class Prov(object):
        def CreateSink(self, properties):
            s = USink(len(sinks) + 1, fwd, ctl)
            sinks.append(s)
            return s

    try:
        pool = SingletonPoolSink(Prov(), None, {SinkProperties.Endpoint: _Ep(), SinkProperties.Label: 'c16'})
    except _IMPL_EXC as ex:
        first = script['ops'][0] if script['ops'] else None
        return _raised_at_start('singleton', '', first and (
            'req 1' if first[0] == 'req' else first[0] if len(first) == 1 else '%s 1' % first[0]), ex)
    greenlets = []
    closers = []      # greenlets running pool.Close() with a yielding / calling-back underlying Close()
    fired = []        # ids of the requests re-submitted from inside an underlying Close()
    steps = []
    rid = [0]

    def request(r):
        stack = ClientMessageSinkStack()
        stack.Push(Reply(r, fwd, ctl))
        try:
            pool.AsyncProcessRequest(stack, _Msg(r), None, None)
        except gevent.GreenletExit:
            raise
        except BaseException:
            # the request's greenlet would die here: the request was handed to nobody
            fwd.append((r, 0))

    def retry():
        """a failed caller re-submits, synchronously, from inside the underlying sink's Close()"""
        rid[0] += 1
        fired.append(rid[0])
        request(rid[0])

    def sink_id(k):
        if k == 'cur':
            ns = pool.next_sink
            return ns.idx if isinstance(ns, USink) else max(1, len(sinks))
        if k == 'last':
            return max(1, len(sinks))
        return int(k)

    def observe():
        ns = pool.next_sink
        out = [[(_state_name(s.state), s.opens, s.closes) for s in sinks],
               ns.idx if isinstance(ns, USink) else 0, pool._ref_count, [tuple(x) for x in fwd]]
        del fwd[:]
        return out

    waiting = [0]
    for op in script['ops']:
        name = op[0]
        obs = None
        text = name if len(op) == 1 else '%s %d' % (name, max(1, len(sinks)))
        try:
            if name == 'req':
                rid[0] += 1
                text = 'req %d' % rid[0]
                if any(s.pending() for s in sinks):
                    tags.add('req-during-open')
                if ctl['suspended']:
                    tags.add('req-during-close')
                greenlets.append(gevent.spawn(request, rid[0]))
            elif name == 'popen':
                text = 'popen'
                if any(s.pending() for s in sinks):
                    tags.add('open-during-open')
                pool.Open()
            elif name == 'pclose':
                text = 'pclose'
                mode = op[1] if len(op) > 1 else None
                if any(s.pending() for s in sinks) and pool._ref_count <= 1 and waiting[0]:
                    tags.add('close-during-open')
                if ctl['suspended']:
                    tags.add('close-during-close')
                if mode is None:
                    pool.Close()
                else:
                    # the underlying Close() may block (yield) or call back into the pool and block there:
                    # pool.Close() runs in a greenlet of its own
                    n_susp = len(ctl['suspended'])
                    ctl['yield'] = mode == 'yield'
                    ctl['retry'] = retry if mode in ('retry', 'retry!') else None
                    ctl['force'] = mode == 'retry!'
                    closers.append(gevent.spawn(pool.Close))
                    rt.drain()
                    ctl['yield'], ctl['retry'], ctl['force'] = False, None, False
                    if fired:
                        # the wire operation says what the environment did: the underlying Close() failed a
                        # request and its caller re-submitted as request `fired` from inside it
                        text = 'pcloseR %d' % fired.pop()
                        tags.add('close-reentrant')
                        if waiting[0]:
                            tags.add('close-reentrant-during-open')
                    elif len(ctl['suspended']) > n_susp:
                        text = 'pcloseY'
                        tags.add('close-yield')
            elif name == 'cresume':
                # the oldest suspended underlying Close() resumes and fails its in-flight requests
                if not ctl['suspended']:
                    continue
                s = ctl['suspended'].pop(0)
                ctl['retry'] = retry if len(op) > 1 and op[1] in ('retry', 'retry!') else None
                ctl['force'] = len(op) > 1 and op[1] == 'retry!'
                s.gate.set()
                rt.drain()
                ctl['retry'], ctl['force'] = None, False
                if fired:
                    text = 'cresumeR %d %d' % (s.idx, fired.pop())
                    tags.add('resume-reentrant')
                else:
                    text = 'cresume %d' % s.idx
                    tags.add('resume')
            else:
                k = sink_id(op[1])
                text = '%s %d' % (name, k)
                if 1 <= k <= len(sinks):
                    s = sinks[k - 1]
                    if name == 'fault':
                        if s.pending():
                            tags.add('fault-during-open')
                        elif s is pool.next_sink:
                            tags.add('fault-open-sink')
                        s.fault()
                    else:
                        if s.pending():
                            tags.add('open-' + name)
                        s.complete(name == 'ok')
            rt.drain()
            errs = rt.take_errors()
            obs = observe()
        except _IMPL_EXC as ex:
            # an exception escaped a call into the implementation (Open(), Close(), a fault callback, …)
            errs = [(type(ex).__name__, '')]
            rt.take_errors()
        if obs is not None:
            if len(obs[3]) >= 2:
                tags.add('concurrent-handover')
            if any(j == 0 for _, j in obs[3]):
                tags.add('dropped')
        waiting[0] = sum(1 for g in greenlets if not g.dead)
        if errs:
            tags.add('hub-error')
            steps.append([text, vfmt(['raised', errs[0][0]])])
            break
        steps.append([text, vfmt(obs)])
    if len(sinks) >= 2:
        tags.add('replaced')
    if len(sinks) >= 3:
        tags.add('replaced-twice')
    gevent.killall([g for g in greenlets + closers if not g.dead], block=False)
    rt.drain()
    rt.take_errors()
    return {'comp': 'singleton', 'cfg': '', 'steps': steps, 'tags': sorted(tags)}


def run_refcount(script):
    import gevent
    import rt
    from scales.asynchronous import AsyncResult
    from scales.constants import ChannelState
    from scales.sink import ClientMessageSink, RefCountedSink
    yields = bool(script.get('yield'))
    tags = set()

    class Under(ClientMessageSink):
        def __init__(self):
            super(Under, self).__init__()
            self.opens = 0
            self.closes = 0
            self._state = ChannelState.Idle

        @property
        def state(self):
            return self._state

        def Open(self):
            self.opens += 1
            n = self.opens
            ar = AsyncResult()
            ar.open_index = n
            if self._state != ChannelState.Closed:
                self._state = ChannelState.Open
                ar.set(True)
            else:
                ar.set_exception(E('closed'))
            if yields:
                gevent.sleep(0)
            return ar

        def Close(self):
            self.closes += 1
            self._state = ChannelState.Closed
            if yields:
                gevent.sleep(0)

        def fault(self):
            self._state = ChannelState.Closed
            self.on_faulted.Set(E('fault'))

        def AsyncProcessRequest(self, sink_stack, msg, stream, headers):
            pass

        def AsyncProcessResponse(self, sink_stack, context, stream, msg):
            pass

    under = Under()
    try:
        rc = RefCountedSink(under)
    except _IMPL_EXC as ex:
        first = [c for b in script['batches'] for c in b][:1]
        return _raised_at_start('refcount', vfmt(yields), first and ' '.join(str(x) for x in first[0]), ex)
    steps = []
    running = [0]

    def call(op):
        running[0] += 1
        if running[0] > 1:
            tags.add('contended')
        ret = 0
        try:
            if op[0] == 'ropen':
                if rc._ref_count <= 0 and under.closes > 0:
                    tags.add('re-open')
                ar = rc.Open()
                ret = getattr(ar, 'open_index', 0)
                text = 'ropen %d' % op[1]
            elif op[0] == 'rclose':
                if rc._ref_count <= 0:
                    tags.add('surplus-close')
                rc.Close()
                text = 'rclose %d' % op[1]
            else:
                # the fault strikes here, possibly in the middle of somebody's Open()/Close(); what the
                # counting sink has seen is recorded once the batch has settled (see below)
                under.fault()
                tags.add('fault')
                return
            steps.append([text, vfmt([ret, under.opens, under.closes, rc._ref_count])])
        except gevent.GreenletExit:
            raise
        except BaseException as ex:
            steps.append([' '.join(str(x) for x in op), vfmt(['raised', type(ex).__name__])])
        finally:
            running[0] -= 1

    for batch in script['batches']:
        gs = [gevent.spawn(call, op) for op in batch]
        rt.drain()
        for g, op in zip(gs, batch):
            if not g.dead:        # blocked for ever (e.g. a lock never released)
                steps.append([' '.join(str(x) for x in op), vfmt(['raised', 'hang'])])
                g.kill(block=False)
        for op in batch:
            if op[0] == 'rfault':
                steps.append(['rfault', vfmt([0, under.opens, under.closes, rc._ref_count])])
        errs = rt.take_errors()
        if errs:
            steps.append(['rfault', vfmt(['raised', errs[0][0]])])
    rt.drain()
    rt.take_errors()
    if any(len(b) > 1 for b in script['batches']):
        tags.add('batched')
    return {'comp': 'refcount', 'cfg': vfmt(yields), 'steps': steps, 'tags': sorted(tags)}


_FROZEN = [False]


def run_sharedprov(script):
    import gc
    import rt
    if not _FROZEN[0]:
        # every operation below ends with gc.collect(), so that what the weak cache holds does not depend on
        # when the cyclic collector happens to run; exempt what the process has loaded so far from those
        # collections, otherwise each one costs ~10 ms
        gc.collect()
        gc.freeze()
        _FROZEN[0] = True
    from scales.asynchronous import AsyncResult
    from scales.constants import ChannelState
    from scales.sink import ClientMessageSink, RefCountedSink, SharedSinkProvider
    tags = set()

    class Under(ClientMessageSink):
        """underlying sink, real enough for the provider and the wrapper: Idle until opened, Open() opens it
        unless it is Closed, Close() and a transport fault close it"""

        def __init__(self, idx):
            super(Under, self).__init__()
            self.idx = idx
            self._state = ChannelState.Idle
            self.opens = 0
            self.closes = 0

        @property
        def state(self):
            return self._state

        def Open(self):
            self.opens += 1
            ar = AsyncResult()
            if self._state != ChannelState.Closed:
                self._state = ChannelState.Open
                ar.set(True)
            else:
                ar.set_exception(E('closed'))
            return ar

        def Close(self):
            self.closes += 1
            self._state = ChannelState.Closed

        def fault(self):
            self._state = ChannelState.Closed
            self.on_faulted.Set(E('fault'))

        def AsyncProcessRequest(self, sink_stack, msg, stream, headers):
            pass

        def AsyncProcessResponse(self, sink_stack, context, stream, msg):
            pass

    class NextProv(object):
        sink_class = Under

        def __init__(self):
            self.sinks = []      # the underlying sinks (never the wrappers) stay alive: observed and faulted

        def CreateSink(self, properties):
            s = Under(len(self.sinks) + 1)
            self.sinks.append(s)
            return s

    try:
        prov = SharedSinkProvider(lambda props: props['key'])
        Next = prov.next_provider = NextProv()
    except _IMPL_EXC as ex:
        return _raised_at_start('sharedprov', '', script['ops'] and ' '.join(str(x) for x in script['ops'][0]), ex)
    held = {}
    steps = []
    seen = []

    def under_of(sink):
        return sink.next_sink if isinstance(sink, RefCountedSink) else sink

    def describe(sink, fresh):
        """(id of the underlying sink, is a wrapper, …, fresh, wrapper count, views)"""
        if sink is None:
            idx, shared, rc = 0, False, 0
        else:
            shared = isinstance(sink, RefCountedSink)
            idx = under_of(sink).idx
            rc = sink._ref_count if shared else 0
        return [idx, shared, len(Next.sinks), list(prov._cache.keys()), fresh, rc,
                [(_state_name(u.state), u.opens, u.closes) for u in Next.sinks]]

    for op in script['ops']:
        name = op[0]
        text = ' '.join(str(x) for x in op)
        sink = None
        fresh = False
        try:
            if name == 'create':
                key = op[2]
                before = len(Next.sinks)
                cached = prov._cache.get(key) if key else None
                if cached is not None and cached.state == ChannelState.Closed:
                    tags.add('create-while-closed')
                del cached
                sink = prov.CreateSink({'key': key})
                fresh = not getattr(sink, '_c16_seen', False)
                sink._c16_seen = True
                if key == 0:
                    tags.add('unshared')
                elif len(Next.sinks) == before:
                    tags.add('cache-hit')
                elif key in seen:
                    tags.add('recreated-after-collect')
                seen.append(key)
                held[op[1]] = sink
            elif name == 'drop':
                held.pop(op[1], None)
            elif name in ('hopen', 'hclose'):
                sink = held.get(op[1])
                if sink is not None:
                    if isinstance(sink, RefCountedSink):
                        rc0, u = sink._ref_count, under_of(sink)
                        if name == 'hopen':
                            tags.add('shared-open-first' if rc0 == 0 else 'shared-open-again')
                            if rc0 == 0 and u.closes > 0:
                                tags.add('shared-re-open')
                        else:
                            tags.add('shared-surplus-close' if rc0 == 0 else
                                     'shared-close-last' if rc0 == 1 else 'shared-close-early')
                    if name == 'hopen':
                        sink.Open()
                    else:
                        sink.Close()
            else:
                k = op[1]
                if 1 <= k <= len(Next.sinks):
                    u = Next.sinks[k - 1]
                    if u.state == ChannelState.Open and any(under_of(x) is u and isinstance(x, RefCountedSink)
                                                            for x in held.values()):
                        tags.add('fault-open-shared')
                    u.fault()
            gc.collect()
            obs = vfmt(describe(sink, fresh))
            del sink
            errs = rt.take_errors()
            if errs:
                obs = vfmt(['raised', errs[0][0]])
        except _IMPL_EXC as ex:
            obs = vfmt(['raised', type(ex).__name__])
            rt.take_errors()
        steps.append([text, obs])
        if obs.startswith('(raised'):
            tags.add('raised')
            break
    return {'comp': 'sharedprov', 'cfg': '', 'steps': steps, 'tags': sorted(tags)}


def run_script(script):
    kind = script['kind']
    if kind == 'singleton':
        case = run_singleton(script)
    elif kind == 'refcount':
        case = run_refcount(script)
    else:
        case = run_sharedprov(script)
    case['tags'] = sorted(set(case['tags']) | {kind})
    return case


def nontrivial(case):
    t = set(case.get('tags', []))
    return bool(t & {'req-during-open', 'open-during-open', 'close-during-open', 'fault-during-open',
                     'close-reentrant', 'close-yield', 'req-during-close', 'resume-reentrant', 'close-during-close',
                     'fault-open-sink', 'open-fail', 'replaced', 'concurrent-handover', 'surplus-close',
                     're-open', 'contended', 'cache-hit', 'recreated-after-collect', 'dropped',
                     'create-while-closed', 'shared-open-again', 'shared-close-early', 'shared-surplus-close',
                     'shared-re-open', 'fault-open-shared'})
