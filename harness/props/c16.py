"""C16 — singleton pool, ref-counted sink, shared sink provider.

Three components, each the *real* class from scales over harness-controlled neighbours:

  singleton   scales.pool.singleton.SingletonPoolSink  over a provider whose sinks open only when
              the script says so (`ok`/`fail`), so requests can arrive during a slow open
  refcount    scales.sink.RefCountedSink               over a counting sink; the calls of a batch run
              concurrently (one greenlet each), optionally with an underlying sink that yields
  sharedprov  scales.sink.SharedSinkProvider           over a counting provider; holders keep or drop
              their (strong) references
"""
import itertools

from lib import vfmt

PROPERTY = 'C16'
COMPONENT = 'singleton'
QUICK = dict(gen=4000, exh_len=5)
THOROUGH = dict(gen=40000, exh_len=6)

TRUSTED = [
    'contract of an underlying sink as implemented by the harness sink (and by the socket transports and the '
    'test mocks): Idle until its open completes, Open() idempotent while an open result exists, Close()/fault '
    'set Closed and fail a pending open',
    'CPython reference counting drops a WeakValueDictionary entry as soon as the last strong reference goes',
    'gevent wakes waiters of an AsyncResult / RLock in FIFO order',
]
ASSUMPTIONS = [
    'singleton: a request that is waiting for the open when the pool\'s Close() closes the sink is handed to nobody '
    '(the real _Get re-reads next_sink after the wait, AttributeError in the request\'s greenlet); this is modelled '
    'exactly (sink id 0) and tolerated by the specification in exactly that situation - it is outside C16 (C01-type)',
    'singleton: each operation is followed by running the loop until every greenlet is blocked or finished; '
    'the only yield point inside _Get is Open().wait(), so this reaches every interleaving at that point',
    'refcount: the order in which concurrent Open/Close calls take effect is observed from the real run '
    '(completion order) and given to the model; the effect of each call is predicted',
    'sharedprov: a holder is a strong reference kept by the harness; dropping it is the only way a sink dies',
]
RULE = ('scripts from the seeded generator plus the exhaustive enumerator (all singleton histories over '
        '{req, Open, Close, open-ok, open-fail, fault} up to a length, all refcount Open/Close words up to a length); '
        'distinct = distinct (cfg, op list); non-trivial = reaches a branch beyond the happy path: a request or '
        'Open()/Close() arriving while the sink is still opening, a replaced sink, a failed open, a surplus close, '
        'a re-open, contended lock, a cache hit, a collected cache entry')

SINGLE_ALPHA = [['req'], ['popen'], ['pclose'], ['ok', 'cur'], ['fail', 'cur'], ['fault', 'cur']]


# ------------------------------------------------------------------ generation
def gen_script(rng, tier):
    kind = rng.choice(['singleton'] * 5 + ['refcount'] * 3 + ['sharedprov'] * 2)
    if kind == 'singleton':
        n = rng.choice([3, 5, 8, 12, 16, 24] if tier == 'quick' else [3, 5, 8, 12, 16, 24, 40])
        style = rng.choice(['mixed', 'mixed', 'requests', 'flaky', 'holders'])
        weights = {
            'mixed': dict(req=35, popen=8, pclose=8, ok=20, fail=8, fault=12, faultold=3),
            'requests': dict(req=55, popen=2, pclose=2, ok=25, fail=5, fault=10, faultold=1),
            'flaky': dict(req=35, popen=3, pclose=3, ok=12, fail=20, fault=22, faultold=5),
            'holders': dict(req=25, popen=22, pclose=25, ok=18, fail=3, fault=5, faultold=2),
        }[style]
        names = list(weights)
        ops = []
        for _ in range(n):
            k = rng.choices(names, [weights[x] for x in names])[0]
            if k == 'req':
                ops.append(['req'])
            elif k in ('popen', 'pclose'):
                ops.append([k])
            elif k == 'faultold':
                ops.append(['fault', rng.randrange(1, 5)])
            else:
                ops.append([k, rng.choice(['cur', 'cur', 'cur', 'last'])])
        return {'kind': 'singleton', 'ops': ops}
    if kind == 'refcount':
        nb = rng.choice([2, 4, 6, 10, 16])
        p_open = rng.choice([0.35, 0.5, 0.5, 0.65])
        batches = []
        for _ in range(nb):
            size = rng.choice([1, 1, 1, 2, 2, 3, 4])
            b = []
            for _ in range(size):
                x = rng.random()
                if x < 0.08:
                    b.append(['rfault'])
                elif x < 0.08 + 0.92 * p_open:
                    b.append(['ropen', rng.randrange(1, 5)])
                else:
                    b.append(['rclose', rng.randrange(1, 5)])
            batches.append(b)
        return {'kind': 'refcount', 'yield': rng.random() < 0.6, 'batches': batches}
    n = rng.choice([3, 6, 10, 16, 24])
    nkeys = rng.choice([1, 2, 3])
    ops = []
    for _ in range(n):
        if rng.random() < 0.6:
            key = 0 if rng.random() < 0.12 else rng.randrange(1, nkeys + 1)
            ops.append(['create', rng.randrange(1, 5), key])
        else:
            ops.append(['drop', rng.randrange(1, 5)])
    return {'kind': 'sharedprov', 'ops': ops}


def exhaustive(tier, shard, shards):
    params = THOROUGH if tier == 'thorough' else QUICK
    k = 0
    for n in range(1, params['exh_len'] + 1):
        for word in itertools.product(range(len(SINGLE_ALPHA)), repeat=n):
            k += 1
            if k % shards != shard:
                continue
            yield {'kind': 'singleton', 'ops': [list(SINGLE_ALPHA[i]) for i in word]}
    # refcount: every Open/Close word, as one batch per call and as batches of two, yielding sink
    for n in range(1, params['exh_len'] + 3):
        for word in itertools.product(['ropen', 'rclose'], repeat=n):
            k += 1
            if k % shards != shard:
                continue
            calls = [[w, 1 + i % 3] for i, w in enumerate(word)]
            yield {'kind': 'refcount', 'yield': True, 'batches': [calls[i:i + 2] for i in range(0, n, 2)]}
            yield {'kind': 'refcount', 'yield': False, 'batches': [[c] for c in calls]}


def shrink(script):
    key = 'batches' if script['kind'] == 'refcount' else 'ops'
    items = script[key]
    for i in range(len(items)):
        s = dict(script)
        s[key] = items[:i] + items[i + 1:]
        yield s
    if script['kind'] == 'refcount':
        for i, b in enumerate(items):
            if len(b) > 1:
                for j in range(len(b)):
                    s = dict(script)
                    s[key] = items[:i] + [b[:j] + b[j + 1:]] + items[i + 1:]
                    yield s
        if script.get('yield'):
            s = dict(script)
            s['yield'] = False
            yield s


# ------------------------------------------------------------------ running the real code
class E(Exception):
    pass


def _state_name(st):
    from scales.constants import ChannelState
    return {ChannelState.Idle: 'idle', ChannelState.Open: 'open', ChannelState.Busy: 'busy',
            ChannelState.Closed: 'closed'}.get(st, 'unknown')


def _sink_classes():
    """defined lazily: scales may only be imported after rt installed the virtual loop"""
    from scales.asynchronous import AsyncResult
    from scales.constants import ChannelState
    from scales.sink import ClientMessageSink

    class USink(ClientMessageSink):
        """underlying sink whose open completes when the script says so"""

        def __init__(self, idx, fwd):
            super(USink, self).__init__()
            self.idx = idx
            self._state = ChannelState.Idle
            self._res = None
            self.opens = 0
            self.closes = 0
            self._fwd = fwd

        @property
        def state(self):
            return self._state

        def pending(self):
            return self._res is not None and not self._res.ready()

        def _fail_pending(self):
            if self.pending():
                self._res.set_exception(E('open failed'))

        def Open(self):
            self.opens += 1
            if self._res is None:
                self._res = AsyncResult()
            return self._res

        def Close(self):
            self.closes += 1
            self._state = ChannelState.Closed
            self._fail_pending()

        def complete(self, ok):
            if not self.pending():
                return
            if ok:
                self._state = ChannelState.Open
                self._res.set(True)
            else:
                self._state = ChannelState.Closed
                self._res.set_exception(E('open failed'))
                self.on_faulted.Set(E('open failed'))

        def fault(self):
            self._state = ChannelState.Closed
            self._fail_pending()
            self.on_faulted.Set(E('fault'))

        def AsyncProcessRequest(self, sink_stack, msg, stream, headers):
            self._fwd.append((msg.rid, self.idx))

        def AsyncProcessResponse(self, sink_stack, context, stream, msg):
            pass

    class Reply(ClientMessageSink):
        """bottom of a request's sink stack: sees a response produced without any hand-over"""

        def __init__(self, rid, fwd):
            super(Reply, self).__init__()
            self.rid, self._fwd = rid, fwd

        def AsyncProcessRequest(self, sink_stack, msg, stream, headers):
            pass

        def AsyncProcessResponse(self, sink_stack, context, stream, msg):
            self._fwd.append((self.rid, 0))

    return USink, Reply


class _Msg(object):
    def __init__(self, rid):
        self.rid = rid
        self.properties = {}


class _Ep(object):
    host, port = 'c16', 1


def run_singleton(script):
    import gevent
    import rt
    from scales.constants import SinkProperties
    from scales.pool.singleton import SingletonPoolSink
    from scales.sink import ClientMessageSinkStack
    USink, Reply = _sink_classes()
    fwd = []          # hand-overs since the last observation
    sinks = []
    tags = set()

    class Prov(object):
        def CreateSink(self, properties):
            s = USink(len(sinks) + 1, fwd)
            sinks.append(s)
            return s

    pool = SingletonPoolSink(Prov(), None, {SinkProperties.Endpoint: _Ep(), SinkProperties.Label: 'c16'})
    greenlets = []
    steps = []
    rid = [0]

    def request(r):
        stack = ClientMessageSinkStack()
        stack.Push(Reply(r, fwd))
        try:
            pool.AsyncProcessRequest(stack, _Msg(r), None, None)
        except gevent.GreenletExit:
            raise
        except BaseException:
            # the request's greenlet would die here: the request was handed to nobody
            fwd.append((r, 0))

    def sink_id(k):
        if k == 'cur':
            ns = pool.next_sink
            return ns.idx if isinstance(ns, USink) else max(1, len(sinks))
        if k == 'last':
            return max(1, len(sinks))
        return int(k)

    def observe():
        ns = pool.next_sink
        out = [[(_state_name(s.state), s.opens, s.closes) for s in sinks],
               ns.idx if isinstance(ns, USink) else 0, pool._ref_count, [tuple(x) for x in fwd]]
        del fwd[:]
        return out

    waiting = [0]
    for op in script['ops']:
        name = op[0]
        if name == 'req':
            rid[0] += 1
            text = 'req %d' % rid[0]
            if any(s.pending() for s in sinks):
                tags.add('req-during-open')
            greenlets.append(gevent.spawn(request, rid[0]))
        elif name == 'popen':
            text = 'popen'
            if any(s.pending() for s in sinks):
                tags.add('open-during-open')
            pool.Open()
        elif name == 'pclose':
            text = 'pclose'
            if any(s.pending() for s in sinks) and pool._ref_count <= 1 and waiting[0]:
                tags.add('close-during-open')
            pool.Close()
        else:
            k = sink_id(op[1])
            text = '%s %d' % (name, k)
            if 1 <= k <= len(sinks):
                s = sinks[k - 1]
                if name == 'fault':
                    if s.pending():
                        tags.add('fault-during-open')
                    elif s is pool.next_sink:
                        tags.add('fault-open-sink')
                    s.fault()
                else:
                    if s.pending():
                        tags.add('open-' + name)
                    s.complete(name == 'ok')
        rt.drain()
        errs = rt.take_errors()
        obs = observe()
        if len(obs[3]) >= 2:
            tags.add('concurrent-handover')
        if any(j == 0 for _, j in obs[3]):
            tags.add('dropped')
        waiting[0] = sum(1 for g in greenlets if not g.dead)
        if errs:
            tags.add('hub-error')
            steps.append([text, vfmt(['raised', errs[0][0]])])
        else:
            steps.append([text, vfmt(obs)])
    if len(sinks) >= 2:
        tags.add('replaced')
    if len(sinks) >= 3:
        tags.add('replaced-twice')
    gevent.killall([g for g in greenlets if not g.dead], block=False)
    rt.drain()
    rt.take_errors()
    return {'comp': 'singleton', 'cfg': '', 'steps': steps, 'tags': sorted(tags)}


def run_refcount(script):
    import gevent
    import rt
    from scales.asynchronous import AsyncResult
    from scales.constants import ChannelState
    from scales.sink import ClientMessageSink, RefCountedSink
    yields = bool(script.get('yield'))
    tags = set()

    class Under(ClientMessageSink):
        def __init__(self):
            super(Under, self).__init__()
            self.opens = 0
            self.closes = 0
            self._state = ChannelState.Idle

        @property
        def state(self):
            return self._state

        def Open(self):
            self.opens += 1
            n = self.opens
            ar = AsyncResult()
            ar.open_index = n
            if self._state != ChannelState.Closed:
                self._state = ChannelState.Open
                ar.set(True)
            else:
                ar.set_exception(E('closed'))
            if yields:
                gevent.sleep(0)
            return ar

        def Close(self):
            self.closes += 1
            self._state = ChannelState.Closed
            if yields:
                gevent.sleep(0)

        def fault(self):
            self._state = ChannelState.Closed
            self.on_faulted.Set(E('fault'))

        def AsyncProcessRequest(self, sink_stack, msg, stream, headers):
            pass

        def AsyncProcessResponse(self, sink_stack, context, stream, msg):
            pass

    under = Under()
    rc = RefCountedSink(under)
    steps = []
    running = [0]

    def call(op):
        running[0] += 1
        if running[0] > 1:
            tags.add('contended')
        ret = 0
        try:
            if op[0] == 'ropen':
                if rc._ref_count <= 0 and under.closes > 0:
                    tags.add('re-open')
                ar = rc.Open()
                ret = getattr(ar, 'open_index', 0)
                text = 'ropen %d' % op[1]
            elif op[0] == 'rclose':
                if rc._ref_count <= 0:
                    tags.add('surplus-close')
                rc.Close()
                text = 'rclose %d' % op[1]
            else:
                # the fault strikes here, possibly in the middle of somebody's Open()/Close(); what the
                # counting sink has seen is recorded once the batch has settled (see below)
                under.fault()
                tags.add('fault')
                return
            steps.append([text, vfmt([ret, under.opens, under.closes, rc._ref_count])])
        except gevent.GreenletExit:
            raise
        except BaseException as ex:
            steps.append([' '.join(str(x) for x in op), vfmt(['raised', type(ex).__name__])])
        finally:
            running[0] -= 1

    for batch in script['batches']:
        gs = [gevent.spawn(call, op) for op in batch]
        rt.drain()
        for g, op in zip(gs, batch):
            if not g.dead:        # blocked for ever (e.g. a lock never released)
                steps.append([' '.join(str(x) for x in op), vfmt(['raised', 'hang'])])
                g.kill(block=False)
        for op in batch:
            if op[0] == 'rfault':
                steps.append(['rfault', vfmt([0, under.opens, under.closes, rc._ref_count])])
        errs = rt.take_errors()
        if errs:
            steps.append(['rfault', vfmt(['raised', errs[0][0]])])
    rt.drain()
    rt.take_errors()
    if any(len(b) > 1 for b in script['batches']):
        tags.add('batched')
    return {'comp': 'refcount', 'cfg': vfmt(yields), 'steps': steps, 'tags': sorted(tags)}


def run_sharedprov(script):
    import gc
    import rt
    from scales.sink import ClientMessageSink, RefCountedSink, SharedSinkProvider
    tags = set()

    class Plain(ClientMessageSink):
        def __init__(self, idx):
            super(Plain, self).__init__()
            self.idx = idx

        def AsyncProcessRequest(self, sink_stack, msg, stream, headers):
            pass

        def AsyncProcessResponse(self, sink_stack, context, stream, msg):
            pass

    class NextProv(object):
        sink_class = Plain

        def __init__(self):
            self.count = 0

        def CreateSink(self, properties):
            self.count += 1
            return Plain(self.count)

    prov = SharedSinkProvider(lambda props: props['key'])
    Next = prov.next_provider = NextProv()
    held = {}
    steps = []
    seen = []
    for op in script['ops']:
        if op[0] == 'create':
            before = Next.count
            sink = prov.CreateSink({'key': op[2]})
            shared = isinstance(sink, RefCountedSink)
            idx = sink.next_sink.idx if shared else sink.idx
            if op[2] == 0:
                tags.add('unshared')
            elif Next.count == before:
                tags.add('cache-hit')
            elif op[2] in seen:
                tags.add('recreated-after-collect')
            seen.append(op[2])
            held[op[1]] = sink
            del sink
            text = 'create %d %d' % (op[1], op[2])
        else:
            held.pop(op[1], None)
            idx, shared = 0, False
            text = 'drop %d' % op[1]
        gc.collect()
        steps.append([text, vfmt([idx, shared, Next.count, list(prov._cache.keys())])])
    errs = rt.take_errors()
    if errs:
        steps.append(['drop 0', vfmt(['raised', errs[0][0]])])
    return {'comp': 'sharedprov', 'cfg': '', 'steps': steps, 'tags': sorted(tags)}


def run_script(script):
    kind = script['kind']
    if kind == 'singleton':
        case = run_singleton(script)
    elif kind == 'refcount':
        case = run_refcount(script)
    else:
        case = run_sharedprov(script)
    case['tags'] = sorted(set(case['tags']) | {kind})
    return case


def nontrivial(case):
    t = set(case.get('tags', []))
    return bool(t & {'req-during-open', 'open-during-open', 'close-during-open', 'fault-during-open',
                     'fault-open-sink', 'open-fail', 'replaced', 'concurrent-handover', 'surplus-close',
                     're-open', 'contended', 'cache-hit', 'recreated-after-collect', 'dropped'})
