"""C08 — transports fail in-flight requests once and report dead connections.

Two components, both the *real* classes over the real VarzSocketWrapper and a step-controlled
fake socket (harness/stepnet.py):

  serial : scales.thrift.sink.SocketTransportSink            (Model/Serial.lean)
  muxt   : scales.thriftmux.sink.SocketTransportSink         (Model/MuxT.lean)

A script is {'t': 'serial'|'muxt', 'ops': [...]}.  An operation that is not applicable in the
state the real object is in (e.g. `io` with no greenlet blocked in an I/O call) is skipped, so
every sub-sequence of a script is a script; what was applied is what is sent to the model, and
the model's `wf` flag cross-checks that it considers the same operations applicable.

serial `timeout block` / `req (past block)` / `reconn ok|refuse`: the re-connect the time-out handler of the serial
transport makes is a blocking call like the others.  With `block` the connect does not conclude in the operation
in which the deadline passes (stepnet `next_connect = 'block'`: the transaction greenlet yields inside the real
`ScalesSocket.open()`), every other operation can be applied in that window (a request, Open(), Close(), looks),
and `reconn` lets the connect conclude — accepted or refused.  The last field of a serial observation says whether
the real ScalesSocket holds a connected handle.

mux `burst`: the receive loop's pending read and the reads that follow it return without the loop
yielding (stepnet `release_burst`): a frame — or several — and the end of stream / read error right
behind it.  The `_ProcessReply` greenlets of those frames, which `_Shutdown` does not kill, then run
after the `_Shutdown`.  Every response a request's sink stack is ever handed is logged (LogStack), so a
request completed twice shows as two entries of `dels`.

mux `race`: ['race', reads, pos, hit] — the reads of a burst and, *in the same drain*, one more event of the
environment (`hit`: 'rdraise' / 'rdeof' = the receive loop's next read fails, 'wr' = the send loop's pending write
raises, 'close' = Close() is called) at a chosen position among the greenlets of that drain:
  first : the hit is noticed before the receive loop has taken the reads (write error / Close() only);
  pre   : after the receive loop has taken the reads and spawned the `_ProcessReply` greenlets, before they run
          (for a failing read this is a `burst`);
  mid   : after the `_ProcessReply` greenlets ran — a reply delivered, a ping's result set — and before the
          greenlets they woke resume (`_OpenImpl` waiting for the handshake's Rping, the ping helper).
mux `openburst`: ['openburst', reads] — Open() on an endpoint that accepts the connection and whose first bytes,
reset or end of stream are already there: the receive loop, first of the greenlets `_OpenImpl` spawned to start,
meets them before the send loop and the ping helper have run at all (the model: the open, then the burst).

mux `park`: ['park'] — a request handed to the transport while its Open() is pending (`_state == Idle and _open_result`).
The real AsyncProcessRequest blocks in `_open_result.wait()`, so the harness issues it from a greenlet of its own and
observes which callers are still blocked (last field of the observation).  The tag the pool hands such a caller is only
known once it has gone on; it is written into the operation text afterwards (`park <id> <tag>`; a caller that never
asked for a tag gets a free one, which the model does not use).  The open is pending during the handshake, and while
the connect is in progress: ['openstart'] is an Open() whose connect blocks (stepnet `next_connect = 'block'`, like a
real non-blocking connect) and ['connected', 'ok'|'refuse', reads] lets it conclude — accepted, possibly with the
outcomes of the first reads already there as in `openburst`, or refused.  The blocked callers resume when the open
result is set, last in that drain: on an Open transport they take their tags and are queued in order, on a transport
that was shut down each gets the 'Sink not open.' error.

The positions are reached by stepping the event loop one generation of callbacks at a time (`gevent.sleep(0)`
runs exactly the callbacks that were scheduled when it was called): release the reads, let the receive loop run,
let the `_ProcessReply` greenlets run.  The timers of the ping loop / ping helper cannot land inside a drain: the
loop (gevent's and the virtual one) runs timers only when no callback is left."""
import json
import zlib
import itertools
from struct import pack, unpack

from lib import vfmt

PROPERTY = 'C08'
COMPONENT = 'serial'
QUICK = dict(gen=3000)
THOROUGH = dict(gen=40000)
TRUSTED = ['step-controlled fake socket harness/stepnet.py standing for ScalesSocket underneath the real '
           'VarzSocketWrapper (one sendall / recv_into is atomic; a read whose bytes / end of stream / error are '
           'already buffered returns without yielding, like a socket read that finds data)',
           'logging sink stack (subclass of ClientMessageSinkStack) counting every response it is handed',
           'tags handed out by the tag pool are read from the run and passed to the model (C11 is about them)',
           'a connect in progress (mux Open(), serial re-connect after a time-out) is a greenlet blocked in the fake OS socket\'s connect() (stepnet next_connect = '
           '\'block\'); a request issued while the open is pending runs in a greenlet spawned by the harness']
ASSUMPTIONS = ['gevent is cooperative: between two blocking calls a transport method is atomic',
               'mux: Open() is called once, no Deadline event on mux requests (C12), tags of in-flight requests and the '
               'tags handed to the callers that were blocked on the open result are distinct (C11)',
               'a deliberate Close() with a serial transaction in flight kills it without a response: nothing claimed',
               'ping intervals: random.randint(30, 40) is replaced by 30 (virtual seconds)',
               'events inside a drain (race): positions are generations of the callback list (gevent runs callbacks '
               'FIFO; gevent.sleep(0) from the harness runs exactly the callbacks scheduled so far); a timer (ping '
               'loop, 5 s ping helper) cannot land inside a drain because the loop runs timers only when no callback is '
               'left, so ping silence / ping due are operations of their own',
               'callers blocked on the open result resume last in the drain in which the result is set (gevent '
               'notifies the waiters of an AsyncResult from a callback scheduled when it is set), oldest first']
RULE = ('scripts = corpus + seeded random operation lists + exhaustive enumeration of fault position x fault kind x '
        'requests in flight (serial 0-1, mux 0-3) through the third transaction, for the serial transport also with the '
        're-connect of the time-out handler as a yield point (the connect blocks; nothing / a look / requests of every kind / '
        'Open() / stray I/O outcomes arrive in the window; the re-connect is accepted, refused, or cut short by Close()), '
        'for the mux transport also with the '
        'read fault (error / EOF, in a header / a body) arriving in one burst right behind 1-2 frames (reply of an '
        'in-flight request, Rping, junk) that are read but not yet dispatched, with a failing read / failing write / '
        'Close() landing at each position inside the drain that reads such frames (before the reads are taken, before '
        'the _ProcessReply greenlets run, after they ran and before the greenlets they woke — _OpenImpl, the ping '
        'helper — resume; during the opening handshake with the Tping written or not, and with 0-3 requests in '
        'flight), and with the first reads of a connection (frames, reset, end of stream) already there when the '
        'receive loop starts; and with 0-2 requests handed to the transport while the connect is in progress and 0-2 during the '
        'handshake, for every way the open can end (refused connect; connection reset / ended / answered at once; write '
        'fault, read fault in a header or a body, ping silence, with the Tping written or not; Close() while connecting or '
        'during the handshake; the Rping with a read fault right behind it; a failing read / failing write / Close() at each '
        'position inside the drain that reads the Rping; the successful open followed by the life of those requests); '
        'distinct = distinct applied op list; non-trivial = a connection failure, a timeout, a concurrency rejection or a deliberate close happened')


# ------------------------------------------------------------------ shared helpers
def _resp_kind(stream, msg):
    from scales.message import ChannelConcurrencyError, ClientError, TimeoutError
    if msg is None:
        return 'stream' if stream is not None else 'other'
    err = getattr(msg, 'error', None)
    if err is None:
        return 'other'
    if isinstance(err, TimeoutError):
        return 'timeout'
    if isinstance(err, ChannelConcurrencyError):
        return 'conc'
    if isinstance(err, EOFError):
        return 'eof'
    if isinstance(err, ClientError):
        return 'cerr'
    return 'other'


def _mk_stack_class():
    from scales.sink import ClientMessageSinkStack
    import mocks

    class LogStack(ClientMessageSinkStack):
        """logs every response it is handed, also those that arrive after the stack was drained"""

        def __init__(self, rid, log):
            ClientMessageSinkStack.__init__(self)
            self.rid, self.log = rid, log
            self.Push(mocks.Recorder())

        def AsyncProcessResponse(self, stream, msg):
            self.log.append((self.rid, _resp_kind(stream, msg)))
            ClientMessageSinkStack.AsyncProcessResponse(self, stream, msg)
    return LogStack


STATE = {1: 'idle', 2: 'open', 3: 'busy', 4: 'closed'}


class Base(object):
    def __init__(self):
        import stepnet
        from scales.varz import VarzSocketWrapper
        self.sock = stepnet.real_socket('h', 1)
        self.wrapped = VarzSocketWrapper(self.sock, 'svc')
        self.LogStack = _mk_stack_class()
        self.dels = []
        self.faults = []
        self.steps = []
        self.tags = set()
        self.next_id = 1
        self.mark = (0, 0, 0, 0)
        self.seen_conn = []        # (conn, number of frames already reported)

    def subscribe(self):
        self.sink.on_faulted.Subscribe(lambda v: self.faults.append(v))

    def frames_written(self):
        out = []
        for c in self.sock.conns:
            out += c.written
        return out

    def snap(self):
        self.mark = (len(self.faults), len(self.dels), self.sock.connects, len(self.frames_written()))

    def delta(self):
        f0, d0, c0, w0 = self.mark
        return (len(self.faults) - f0, [list(x) for x in self.dels[d0:]], self.sock.connects - c0,
                self.frames_written()[w0:])

    def hub_errors(self):
        import rt
        errs = rt.take_errors()
        if errs:
            self.tags.add('hub-error')
            self.tags.add('hub-error-' + errs[0][0])


# ------------------------------------------------------------------ serial
class Serial(Base):
    def __init__(self):
        Base.__init__(self)
        from scales.thrift.sink import SocketTransportSink
        self.sink = SocketTransportSink(self.wrapped, 'svc')
        self.subscribe()
        self.cur = None            # (id, has_deadline, reply bytes) of the transaction in flight

    def pending(self):
        h = self.sock.handle
        if h is None:
            return None
        return h.pend['write'] or h.pend['read']

    def obs(self):
        f, d, c, w = self.delta()
        sent = []
        for fr in w:
            ok = len(fr) >= 4 and unpack('!i', fr[:4])[0] == len(fr) - 4 and fr[4:7] == b'req'
            sent.append(int(fr[7:]) if ok else 999999)
        return vfmt([STATE.get(self.sink.state, 'other'), self.sink._processing is not None, f, d, sent, c,
                     self.sock.handle is not None])

    def apply(self, op):
        """-> op text or None if not applicable"""
        import rt
        import time
        from scales.compat import BytesIO
        from scales.message import Deadline, Message
        kind = op[0]
        if kind == 'open':
            self.sock.next_connect = op[1]
            self.sink.Open()
            rt.drain()
            if op[1] == 'refuse':
                self.tags.add('connect-refused')
            return 'open %s' % op[1]
        if kind == 'req':
            dl = op[1]
            rid = self.next_id
            self.next_id += 1
            m = Message()
            if dl == 'future':
                m.properties[Deadline.KEY] = time.time() + 1.0
            elif dl != 'none':
                m.properties[Deadline.KEY] = time.time() - 0.5
                self.sock.next_connect = dl[1]
                self.tags.add('deadline-past-' + dl[1])
            busy = self.sink._processing is not None
            if busy:
                self.tags.add('concurrent-request')
            if self.sock.pend_connect is not None:
                self.tags.add('request-during-reconnect')
                if STATE.get(self.sink.state) == 'open' and not busy:
                    self.tags.add('request-during-reconnect-while-open-idle')
            self.sink.AsyncProcessRequest(self.LogStack(rid, self.dels), m, BytesIO(b'req%d' % rid), {})
            rt.drain()
            self.sock.next_connect = 'ok'
            if not busy and self.sock.pend_connect is not None and dl not in ('none', 'future'):
                self.tags.add('reconnect-blocks')
            if not busy and self.sink._processing is not None:
                body = b'reply-%d' % rid
                self.cur = [rid, dl == 'future', pack('!i', len(body)) + body]
            return 'req %d %s' % (rid, vfmt(tuple(dl) if isinstance(dl, list) else dl))
        if kind == 'io':
            p = self.pending()
            if p is None or self.sink._processing is None:
                return None
            o = op[1]
            if o == 'eof' and p.kind == 'write':
                return None
            data = None
            if p.kind == 'read' and o == 'ok':
                data, self.cur[2] = self.cur[2][:p.arg], self.cur[2][p.arg:]
            if o != 'ok':
                self.tags.add('io-%s-at-%s%s' % (o, p.kind, '' if p.kind == 'write' else p.arg if p.arg == 4 else 'N'))
            self.sock.handle.release(p.kind, o, data)
            rt.drain()
            return 'io %s' % o
        if kind == 'timeout':
            p = self.pending()
            if p is None or self.sink._processing is None or not self.cur or not self.cur[1]:
                return None
            self.sock.next_connect = op[1]
            self.tags.add('timeout-reconnect-' + op[1])
            # the deadline is 1 s after the request was issued and virtual time only moves in this
            # operation, so the 1.5 s below reach it whatever call the transaction is blocked in
            self.tags.add('timeout-silence-at-%s' % ('write' if p.kind == 'write' else
                                                     'read4' if len(self.cur[2]) > p.arg else 'readN'))
            rt.advance(1.5)
            self.sock.next_connect = 'ok'
            if self.sock.pend_connect is not None:
                self.tags.add('reconnect-blocks')
            return 'timeout %s' % op[1]
        if kind == 'reconn':
            # the re-connect the time-out handler is blocked in concludes
            if self.sock.pend_connect is None:
                return None
            self.tags.add('reconnect-concludes-' + op[1])
            self.sock.release_connect(op[1])
            rt.drain()
            return 'reconn %s' % op[1]
        if kind == 'close':
            if self.sock.pend_connect is not None:
                self.tags.add('close-during-reconnect')
            if self.sink._processing is not None:
                self.tags.add('close-in-flight')
                # the killed transaction's gevent.Timeout stays armed in the real code; the harness
                # does not let virtual time reach it (nothing is claimed about a deliberate close)
            self.tags.add('close')
            self.sink.Close()
            rt.drain()
            return 'close'
        if kind == 'look':
            return 'look'
        raise ValueError(op)


# ------------------------------------------------------------------ mux
class _Rand30(object):
    @staticmethod
    def randint(a, b):
        return 30


FRAME_LEN = 8


def _frame(f):
    """8-byte frames: type, 3-byte tag, 4 bytes of padding"""
    if f == 'rping':
        typ, tag = -65, 1
    elif f == 'junk':
        typ, tag = -2, 0
    else:
        typ, tag = -2, f[1]
    return pack('!bBBB', typ, tag >> 16 & 255, tag >> 8 & 255, tag & 255) + b'\0\0\0\0'


class MuxT(Base):
    def __init__(self):
        Base.__init__(self)
        import scales.thriftmux.sink as tms
        tms.random = _Rand30
        self.sink = tms.SocketTransportSink(self.wrapped, 'svc')
        self.subscribe()
        self.open_ar = None
        self.stack_ids = {}
        self.parked = []           # callers issued while the open was pending, oldest first (see `park`)

    def conn(self):
        return self.sock.handle

    def obs(self):
        f, d, c, w = self.delta()
        sent = []
        for fr in w:
            if len(fr) < 8 or unpack('!i', fr[:4])[0] != len(fr) - 4:
                sent.append([999999, 999999])
                continue
            typ = unpack('!b', fr[4:5])[0]
            tag = int.from_bytes(fr[5:8], 'big')
            if typ == 65 and tag == 1 and len(fr) == 8:
                sent.append('ping')
            elif typ == 2 and fr[8:11] == b'req':
                sent.append([tag, int(fr[11:])])
            else:
                sent.append([999999, 999999])
        ar = self.open_ar
        ores = 'none' if ar is None else 'pending' if not ar.ready() else 'ok' if ar.successful() else 'failed'
        tm = getattr(self.sink, '_tag_map', {})
        infl = [self.stack_ids.get(id(v[0]), 999999) for v in tm.values()]
        blocked = [r['rid'] for r in self.parked if not r['done']]
        return vfmt([STATE.get(self.sink.state, 'other'), ores, f, d, sent, infl, c, blocked])

    def note_woken(self, kind):
        """tags for the parked callers that went on during the operation that has just been applied"""
        woke = [r for r in self.parked if r['done'] and not r['noted']]
        if not woke:
            return
        for r in woke:
            r['noted'] = True
        how = 'accepted' if all(r['tag'] for r in woke) else 'rejected' if not any(r['tag'] for r in woke) else 'mixed'
        self.tags.add('parked-woken-%s' % how)
        self.tags.add('parked-%d-%s-by-%s' % (min(3, len(woke)), how, kind))

    def park_texts(self):
        """the tag a parked caller is handed by the pool is only known once it has gone on; one that never asked
        for a tag gets a free one (the model does not use it then)"""
        used = set(r['tag'] for r in self.parked if r['tag'])
        nxt = 2
        for r in self.parked:
            if not r['tag']:
                while nxt in used:
                    nxt += 1
                used.add(nxt)
                r['tag'] = nxt
            self.steps[r['step']][0] = 'park %d %d' % (r['rid'], r['tag'])

    def apply(self, op):
        import rt
        from scales.compat import BytesIO
        from scales.constants import ChannelState, TransportHeaders
        from scales.message import MethodCallMessage
        from scales.mux.sink import Tag
        import gevent
        kind = op[0]
        s = self.sink
        if kind == 'open':
            if s._open_result or s.state != ChannelState.Idle:
                return None
            self.sock.next_connect = op[1]
            self.open_ar = s.Open()
            rt.drain()
            if op[1] == 'refuse':
                self.tags.add('connect-refused')
            return 'open %s' % op[1]
        if kind == 'openburst':
            # ['openburst', [[outcome, frame], ...]]: the connect succeeds and the outcomes of the receive loop's
            # first reads (bytes, a reset, the end of the stream) are already there when the loop starts — before
            # the send loop and the ping helper, spawned by the same _OpenImpl, have run at all.
            if s._open_result or s.state != ChannelState.Idle or not op[1]:
                return None
            at_hdr, reads, applied, nframes = True, [], [], 0
            for o, f in op[1]:
                applied.append([o, f])
                if o != 'ok':
                    reads.append((o, None))
                    self.tags.add('openburst-%s-at-%s-behind-%d-frames' % (o, 'hdr' if at_hdr else 'body',
                                                                           min(3, nframes)))
                    self.tags.add('read-%s-at-%s-with-0-in-flight' % (o, 'hdr' if at_hdr else 'body'))
                    self.tags.add('fault-during-open')
                    break
                if at_hdr:
                    reads.append(('ok', pack('!i', FRAME_LEN)))
                else:
                    reads.append(('ok', _frame(f)))
                    nframes += 1
                    self.tags.add('openburst-frame-' + (f if isinstance(f, str) else 'reply'))
                at_hdr = not at_hdr
            self.tags.add('openburst')
            self.sock.next_connect = 'ok'
            self.sock.next_buffered = reads
            self.open_ar = s.Open()
            rt.drain()
            return 'openburst %s' % vfmt([[o, tuple(f) if isinstance(f, list) else f] for o, f in applied])
        if kind == 'openstart':
            # Open(); `_OpenImpl` blocks in the connect until a `connected` operation lets it return
            if s._open_result or s.state != ChannelState.Idle or self.sock.pend_connect is not None:
                return None
            self.sock.next_connect = 'block'
            self.open_ar = s.Open()
            rt.drain()
            self.tags.add('connect-in-progress')
            return 'openstart'
        if kind == 'connected':
            # ['connected', 'ok'|'refuse', [[outcome, frame], ...]]: the connect in progress concludes; if it is
            # accepted the outcomes of the receive loop's first reads may already be there (as in `openburst`)
            if self.sock.pend_connect is None:
                return None
            closed = s.state == ChannelState.Closed
            if closed:
                self.tags.add('connect-concludes-after-close')
            reads, applied = [], []
            if op[1] == 'ok':
                at_hdr, nframes = True, 0
                for o, f in op[2]:
                    applied.append([o, f])
                    if o != 'ok':
                        reads.append((o, None))
                        if not closed:
                            self.tags.add('openburst-%s-at-%s-behind-%d-frames' % (o, 'hdr' if at_hdr else 'body',
                                                                                   min(3, nframes)))
                            self.tags.add('fault-during-open')
                        break
                    if at_hdr:
                        reads.append(('ok', pack('!i', FRAME_LEN)))
                    else:
                        reads.append(('ok', _frame(f)))
                        nframes += 1
                    at_hdr = not at_hdr
                if applied and not closed:
                    self.tags.add('openburst')
            elif not closed:
                self.tags.add('connect-refused')
                self.tags.add('connect-refused-after-blocking')
            self.sock.next_connect = 'ok'
            self.sock.release_connect(op[1], reads)
            rt.drain()
            return 'connected %s %s' % (op[1], vfmt([[o, tuple(f) if isinstance(f, list) else f] for o, f in applied]))
        if kind == 'park':
            # AsyncProcessRequest while the open is pending: the call blocks in `_open_result.wait()`, so it is
            # issued from a greenlet of its own; the tag is filled in when the caller has gone on (`park_texts`)
            if not (s.state == ChannelState.Idle and s._open_result):
                return None
            rid = self.next_id
            self.next_id += 1
            m = MethodCallMessage(None, 'hi', (), {})
            b = BytesIO(b'req%d' % rid)
            b.seek(0, 2)
            st = self.LogStack(rid, self.dels)
            self.stack_ids[id(st)] = rid
            self._keep = getattr(self, '_keep', []) + [st]
            rec = {'rid': rid, 'tag': 0, 'done': False, 'noted': False, 'step': len(self.steps)}

            def call():
                try:
                    s.AsyncProcessRequest(st, m, b, {TransportHeaders.MessageType: 2})
                    rec['tag'] = m.properties.get(Tag.KEY) or 0
                finally:
                    rec['done'] = True
            self.parked.append(rec)
            rec['g'] = gevent.spawn(call)
            rt.drain()
            self.tags.add('park-while-connecting' if self.sock.pend_connect is not None else 'park-during-handshake')
            self.tags.add('parked-%d' % min(3, len([r for r in self.parked if not r['done']])))
            return 'park %d 0' % rid
        if kind == 'req':
            if s.state == ChannelState.Idle and s._open_result:
                return None                      # the caller would block on the open result: that is `park`
            rid = self.next_id
            self.next_id += 1
            m = MethodCallMessage(None, 'hi', (), {})
            b = BytesIO(b'req%d' % rid)
            b.seek(0, 2)
            st = self.LogStack(rid, self.dels)
            self.stack_ids[id(st)] = rid
            self._keep = getattr(self, '_keep', []) + [st]
            s.AsyncProcessRequest(st, m, b, {TransportHeaders.MessageType: 2})
            tag = m.properties.get(Tag.KEY) or 0
            rt.drain()
            if s.state != ChannelState.Open:
                self.tags.add('request-while-not-open')
            return 'req %d %d' % (rid, tag)
        if kind == 'wr':
            c = self.conn()
            if c is None or c.pend['write'] is None or op[1] == 'eof':
                return None
            if op[1] != 'ok':
                self.tags.add('write-raise-with-%d-in-flight' % min(3, len(s._tag_map)))
                if s.state == ChannelState.Idle:
                    self.tags.add('fault-during-open')
            c.release('write', op[1])
            rt.drain()
            return 'wr %s' % op[1]
        if kind == 'rd':
            c = self.conn()
            if c is None or c.pend['read'] is None:
                return None
            p = c.pend['read']
            o, f = op[1], op[2]
            data = None
            if o == 'ok':
                data = pack('!i', FRAME_LEN) if p.arg == 4 else _frame(f)
                if p.arg != 4:
                    kind_ = f if isinstance(f, str) else 'reply' if f[1] in s._tag_map else 'reply-unknown-tag'
                    if kind_ == 'reply' and s._tag_map[f[1]][2].get(Tag.KEY) is not None and any(
                            it[1].get(Tag.KEY) == f[1] for it in list(s._send_queue.queue)):
                        kind_ = 'reply-for-queued-request'
                    self.tags.add('frame-' + kind_)
            else:
                self.tags.add('read-%s-at-%s-with-%d-in-flight' % (o, 'hdr' if p.arg == 4 else 'body',
                                                                   min(3, len(s._tag_map))))
                if s.state == ChannelState.Idle:
                    self.tags.add('fault-during-open')
            c.release('read', o, data)
            rt.drain()
            return 'rd %s %s' % (o, vfmt(tuple(f) if isinstance(f, list) else f))
        if kind == 'burst':
            # ['burst', [[outcome, frame], ...]]: the receive loop's pending read and the reads that follow it
            # return without a yield in between (bytes, and an end of stream / error right behind them, that
            # arrived together); the `_ProcessReply` greenlets spawned meanwhile only run in the drain after it.
            # Reads behind the first fault never happen and are cut off.
            c = self.conn()
            if c is None or c.pend['read'] is None or not op[1]:
                return None
            at_hdr = c.pend['read'].arg == 4
            reads, applied, nframes = [], [], 0
            for o, f in op[1]:
                applied.append([o, f])
                if o != 'ok':
                    reads.append((o, None))
                    self.tags.add('read-%s-at-%s-with-%d-in-flight' % (o, 'hdr' if at_hdr else 'body',
                                                                       min(3, len(s._tag_map))))
                    self.tags.add('burst-%s-at-%s-behind-%d-frames' % (o, 'hdr' if at_hdr else 'body',
                                                                       min(3, nframes)))
                    if s.state == ChannelState.Idle:
                        self.tags.add('fault-during-open')
                    break
                if at_hdr:
                    reads.append(('ok', pack('!i', FRAME_LEN)))
                else:
                    reads.append(('ok', _frame(f)))
                    nframes += 1
                    kind_ = f if isinstance(f, str) else 'reply' if f[1] in s._tag_map else 'reply-unknown-tag'
                    self.tags.add('burst-frame-' + kind_)
                at_hdr = not at_hdr
            if len(applied) > 1:
                self.tags.add('burst')
            c.release_burst(reads)
            rt.drain()
            return 'burst %s' % vfmt([[o, tuple(f) if isinstance(f, list) else f] for o, f in applied])
        if kind == 'race':
            return self.race(op)
        if kind == 'pingdue':
            if s.state != ChannelState.Open or s._ping_ar is not None or len(s._greenlets) < 3:
                return None
            self.tags.add('ping-loop')
            rt.advance(30)
            return 'pingdue'
        if kind == 'pingsilence':
            if getattr(s, '_ping_ar', None) is None or s.state == ChannelState.Closed:
                return None
            self.tags.add('ping-silence-with-%d-in-flight' % min(3, len(s._tag_map)))
            if s.state == ChannelState.Idle:
                self.tags.add('fault-during-open')
            rt.advance(5)
            return 'pingsilence'
        if kind == 'close':
            if s.state == ChannelState.Idle and not s._open_result:
                return None
            self.tags.add('close')
            s.Close()
            rt.drain()
            return 'close'
        if kind == 'look':
            return 'look'
        raise ValueError(op)


def _mux_race(self, op):
    """['race', reads, pos, hit] — see the module docstring.  Returns the op text, or None if not applicable."""
    import gevent
    import rt
    from scales.constants import ChannelState
    s = self.sink
    _, rs, pos, hit = op
    c = self.conn()
    if c is None or c.pend['read'] is None or not rs:
        return None
    if hit == 'wr' and c.pend['write'] is None:
        return None
    at_hdr = c.pend['read'].arg == 4
    reads, applied, frames, fault = [], [], [], None
    for o, f in rs:
        applied.append([o, f])
        if o != 'ok':
            reads.append((o, None))
            fault = o
            break
        if at_hdr:
            reads.append(('ok', pack('!i', FRAME_LEN)))
        else:
            reads.append(('ok', _frame(f)))
            frames.append(f)
        at_hdr = not at_hdr
    if hit in ('rdraise', 'rdeof') and (pos == 'first' or fault is not None):
        return None                  # the receive loop is not there to take that read
    phase = 'handshake' if s.state == ChannelState.Idle else 'open' if s.state == ChannelState.Open else 'closed'
    ping_out = getattr(s, '_ping_ar', None) is not None
    # tags are computed before anything moves
    tags = ['race', 'race-%s-%s' % (pos, hit), 'race-%s-%s-in-%s' % (pos, hit, phase),
            'race-with-%d-in-flight' % min(3, len(s._tag_map)), 'race-behind-%d-frames' % min(3, len(frames))]
    if fault is not None:
        tags.append('race-read-fault-too')
    if 'rping' in frames and ping_out:
        tags.append('race-%s-%s-%s-rping' % (pos, hit, 'handshake' if phase == 'handshake' else 'periodic'))
    if any(isinstance(f, (list, tuple)) and f[1] in s._tag_map for f in frames):
        tags.append('race-%s-with-reply' % pos)
    if hit != 'close' or (fault is not None and pos != 'first'):
        tags.append('race-fault-with-%d-in-flight' % min(3, len(s._tag_map)))
        if s.state == ChannelState.Idle:
            tags.append('fault-during-open')
    else:
        tags.append('close')
    for t in tags:
        self.tags.add(t)

    def do_hit():
        if hit == 'close':
            s.Close()
        elif hit == 'wr':
            if c.pend['write'] is not None:
                c.release('write', 'raise')
            else:
                self.tags.add('harness-race-hit-not-applicable')
        else:
            if c.pend['read'] is not None and not c.closed:
                c.release('read', 'raise' if hit == 'rdraise' else 'eof')
            else:
                self.tags.add('harness-race-hit-not-applicable')

    if pos == 'first':
        do_hit()
        c.release_burst(reads)
    elif pos == 'pre':
        if hit in ('rdraise', 'rdeof'):
            # behind the reads, already buffered: the receive loop does not yield before it meets it
            c.release_burst(reads + [('raise' if hit == 'rdraise' else 'eof', None)])
        elif hit == 'wr':
            c.release_burst(reads)
            do_hit()                 # the receive loop is resumed first, the send loop right behind it
        else:
            c.release_burst(reads)
            gevent.sleep(0)          # the receive loop has run; the `_ProcessReply` greenlets have not
            do_hit()
    else:
        c.release_burst(reads)
        gevent.sleep(0)              # the receive loop has run and blocks in its next read (or is gone)
        if hit == 'close':
            gevent.sleep(0)          # the `_ProcessReply` greenlets have run; what they woke has not
        do_hit()                     # (a released read / write resumes its loop behind the `_ProcessReply`s)
    rt.drain()
    return 'race %s %s %s' % (vfmt([[o, tuple(f) if isinstance(f, list) else f] for o, f in applied]), pos, hit)


MuxT.race = _mux_race


def _cause(text):
    """what kind of operation let parked callers go on (for the coverage tags)"""
    w = text.split()
    k = w[0]
    if k in ('wr', 'rd', 'connected'):
        k += '-' + w[1]
        if k == 'connected-ok' and ('eof' in text or 'raise' in text):
            k = 'connected-then-reset'
    elif k in ('burst', 'openburst'):
        k += '-fault' if ('eof' in text or 'raise' in text) else '-ok'
    elif k == 'race':
        k += '-%s-%s' % (w[-2], w[-1])
    return k


def run_script(script):
    import rt  # noqa
    drv = Serial() if script['t'] == 'serial' else MuxT()
    # end of stream on a block boundary, or after part of the block (explicit flag, else derived from the script)
    eof_mid = script.get('eofmid')
    if eof_mid is None:
        eof_mid = bool(zlib.crc32(json.dumps(script['ops'], sort_keys=True).encode()) & 1)
    drv.sock.eof_mid = bool(eof_mid)
    if eof_mid and 'eof' in json.dumps(script['ops']):
        drv.tags.add('eof-mid-block')
    for op in script['ops']:
        drv.snap()
        text = drv.apply(op)
        if text is None:
            continue
        drv.steps.append([text, drv.obs()])
        drv.hub_errors()
        if script['t'] == 'muxt':
            drv.note_woken(_cause(text))
    # leave no greenlet blocked behind
    try:
        drv.sink.Close()
        rt.drain()
        if drv.sock.pend_connect is not None:
            drv.sock.release_connect('refuse')
            rt.drain()
    except Exception:
        pass
    rt.take_errors()
    if script['t'] == 'muxt':
        drv.park_texts()
    drv.tags.add(script['t'])
    return {'comp': script['t'], 'cfg': '', 'steps': drv.steps, 'tags': sorted(drv.tags)}


# ------------------------------------------------------------------ generation
def _gen_serial(rng, n):
    """random operation lists; `blk` guesses that a re-connect is in progress (a time-out or an expired request with
    a re-connect that takes time was just generated) and then favours what matters in that window: requests, the
    re-connect concluding either way, Close(), looks"""
    ops = []
    if rng.random() < 0.9:
        ops.append(['open', 'ok' if rng.random() < 0.85 else 'refuse'])
    p_fault = rng.choice([0.0, 0.05, 0.15, 0.3])
    p_block = rng.choice([0.0, 0.3, 0.6])
    blk = False

    def rc():
        return 'block' if rng.random() < p_block else rng.choice(['ok', 'ok', 'refuse'])
    for _ in range(n):
        if blk:
            x = rng.random()
            if x < 0.40:
                ops.append(['reconn', 'ok' if rng.random() < 0.65 else 'refuse'])
                blk = False
            elif x < 0.70:
                d = rng.random()
                ops.append(['req', 'none' if d < 0.45 else 'future' if d < 0.85 else ['past', rc()]])
            elif x < 0.78:
                ops.append(['close'])
                blk = False
            elif x < 0.86:
                ops.append(['look'])
            elif x < 0.91:
                ops.append(['open', 'ok' if rng.random() < 0.8 else 'refuse'])
            elif x < 0.96:
                ops.append(['io', rng.choice(['ok', 'raise', 'eof'])])
            else:
                ops.append(['timeout', rc()])
            continue
        x = rng.random()
        if x < 0.25:
            d = rng.random()
            dl = 'none' if d < 0.35 else 'future' if d < 0.85 else ['past', rc()]
            ops.append(['req', dl])
            blk = dl not in ('none', 'future') and dl[1] == 'block'
        elif x < 0.75:
            y = rng.random()
            if y < p_fault:
                ops.append(rng.choice([['io', 'raise'], ['io', 'eof'], ['timeout', rc()], ['timeout', rc()]]))
                blk = ops[-1][1] == 'block'
            else:
                ops.append(['io', 'ok'])
        elif x < 0.85:
            ops.append(['open', 'ok' if rng.random() < 0.8 else 'refuse'])
        elif x < 0.90:
            ops.append(['close'])
        elif x < 0.95:
            ops.append(['timeout', rc()])
            blk = ops[-1][1] == 'block'
        elif x < 0.97:
            ops.append(['reconn', rng.choice(['ok', 'refuse'])])
        else:
            ops.append(['look'])
    return {'t': 'serial', 'ops': ops}


def _gen_burst(rng, tags):
    """1-3 complete frames (and possibly the header of the next one) read without a yield, most of the time
    with an end of stream / read error right behind them"""
    reads = []
    for _ in range(rng.choice([1, 1, 2, 3]) * 2 + rng.choice([0, 0, 0, 1])):
        f = rng.random()
        reads.append(['ok', 'rping' if f < 0.2 else 'junk' if f < 0.3 else ['reply', rng.choice(tags + [77])]])
    if rng.random() < 0.1:
        reads = reads[1:]                   # start in the middle of a frame or end with its header
    if rng.random() < 0.7:
        reads.append([rng.choice(['eof', 'raise']), 'junk'])
    return ['burst', reads]


def _gen_race(rng, tags, rping=0.25):
    """the reads of a burst (mostly one or two frames, often an Rping or the reply of a request in flight) and one
    more event in the same drain"""
    reads = []
    if rng.random() < 0.6:
        reads.append(['ok', 'junk'])           # the header, if the loop is about to read one
    for k in range(rng.choice([1, 1, 1, 2, 3])):
        f = rng.random()
        reads.append(['ok', 'rping' if f < rping else 'junk' if f < rping + 0.1 else ['reply', rng.choice(tags + [77])]])
        if k or rng.random() < 0.5:
            reads.append(['ok', 'junk'])
    if rng.random() < 0.12:
        reads.append([rng.choice(['eof', 'raise']), 'junk'])
    pos = rng.choice(['first', 'pre', 'mid', 'mid', 'mid'])
    hit = rng.choice(['wr', 'close'] if pos == 'first' else ['rdraise', 'rdeof', 'wr', 'wr', 'close'])
    return ['race', reads, pos, hit]


def _gen_openburst(rng):
    reads = []
    for _ in range(rng.choice([0, 0, 1, 1, 2])):
        f = rng.random()
        reads += [['ok', 'junk'], ['ok', 'rping' if f < 0.5 else 'junk' if f < 0.7 else ['reply', rng.choice([1, 2, 77])]]]
    if rng.random() < 0.3:
        reads.append(['ok', 'junk'])
    if rng.random() < 0.75 or not reads:
        reads.append([rng.choice(['eof', 'raise']), 'junk'])
    return ['openburst', reads]


def _gen_parked_open(rng, tags):
    """Open() with requests handed to the transport while the open is pending: while the connect is in progress
    and / or during the handshake; the open then succeeds or fails in one of the ways it can"""
    ops = []
    parks = lambda: [['park']] * rng.choice([0, 1, 1, 2, 3])
    if rng.random() < 0.6:
        ops.append(['openstart'])
        ops += parks()
        x = rng.random()
        if x < 0.12:
            ops += [['close']] + parks()
        if x < 0.3 or 0.88 < x:
            ops.append(['connected', 'refuse', []])
            return ops + [['look'], ['req']]
        if x < 0.5:
            ops.append(['connected', 'ok', _gen_openburst(rng)[1]])
        else:
            ops.append(['connected', 'ok', []])
    else:
        ops.append(['open', 'ok'])
    ops += parks()
    if rng.random() < 0.7:
        ops.append(['wr', 'ok'])
        ops += parks() if rng.random() < 0.3 else []
    if rng.random() < 0.4:
        ops.append(['rd', 'ok', 'junk'])
        ops += parks() if rng.random() < 0.3 else []
    y = rng.random()
    if y < 0.35:
        ops += [['rd', 'ok', 'rping'], ['rd', 'ok', 'rping']]
    elif y < 0.55:
        ops.append(_gen_race(rng, tags, rping=0.8))
    elif y < 0.7:
        ops.append(_gen_burst(rng, tags + [1, 1, 1]))
    elif y < 0.8:
        ops.append(['burst', [['ok', 'junk'], ['ok', 'rping'], ['ok', 'junk'], ['ok', ['reply', rng.choice([2, 3])]]]])
    else:
        ops.append(rng.choice([['wr', 'raise'], ['rd', 'raise', 'junk'], ['rd', 'eof', 'junk'], ['pingsilence'],
                               ['close']]))
    return ops


def _gen_mux(rng, n):
    p_fault = rng.choice([0.0, 0.03, 0.08, 0.2])
    tags = [2, 3, 4, 5, 6]
    y = rng.random()
    if y < 0.25:
        ops = _gen_parked_open(rng, tags)
        y = 1.0
    else:
        y = rng.random()
        ops = [_gen_openburst(rng) if rng.random() < 0.08 else ['open', 'ok' if rng.random() < 0.93 else 'refuse']]
    if y < 0.7:
        ops += [['wr', 'ok'], ['rd', 'ok', 'rping'], ['rd', 'ok', 'rping']]
    elif y < 0.85:
        # an event in the drain that dispatches the handshake's Rping
        if rng.random() < 0.7:
            ops.append(['wr', 'ok'])
        if rng.random() < 0.5:
            ops.append(['rd', 'ok', 'junk'])
        ops.append(_gen_race(rng, tags, rping=0.8))
    for _ in range(n):
        x = rng.random()
        if x < p_fault:
            ops.append(rng.choice([['wr', 'raise'], ['rd', 'raise', 'junk'], ['rd', 'eof', 'junk'], ['pingsilence']]))
        elif x < 0.30:
            ops.append(['req'])
        elif x < 0.55:
            ops.append(['wr', 'ok'])
        elif x < 0.78:
            f = rng.random()
            fr = 'rping' if f < 0.25 else 'junk' if f < 0.3 else ['reply', rng.choice(tags + [1, 77])]
            ops.append(['rd', 'ok', fr])
        elif x < 0.82:
            ops.append(_gen_burst(rng, tags))
        elif x < 0.87:
            ops.append(_gen_race(rng, tags))
        elif x < 0.92:
            ops.append(['pingdue'])
        elif x < 0.95:
            ops.append(['pingsilence'])
        elif x < 0.97:
            ops.append(['close'])
        elif x < 0.985:
            ops.append(['look'])
        else:
            ops.append(['park'])               # applicable only while an open is pending
    return {'t': 'muxt', 'ops': ops}


def gen_script(rng, tier):
    n = rng.choice([6, 12, 20, 30] if tier == 'quick' else [6, 12, 20, 40, 80])
    return _gen_serial(rng, n) if rng.random() < 0.5 else _gen_mux(rng, n)


# ------------------------------------------------------------------ exhaustive: fault position x kind x in flight
def _serial_cases():
    """open, then up to three transactions; a fault at every I/O index (open, deadline check, write,
    header read, body read, re-connect of the time-out handler) of transaction 1..3, of every kind; with and
    without a second request issued while one is in flight — also while the time-out handler is blocked in a
    re-connect that takes time, which then is accepted, refused or cut short by Close(); followed by a look, a
    recovery attempt and another transaction."""
    ok_txn = lambda dl: [['req', dl], ['io', 'ok'], ['io', 'ok'], ['io', 'ok']]
    tails = [
        [['look'], ['req', 'none'], ['io', 'ok'], ['io', 'ok'], ['io', 'ok'], ['look']],
        [['look'], ['open', 'ok'], ['req', 'future'], ['io', 'ok'], ['io', 'ok'], ['io', 'ok'], ['look']],
        [['look'], ['open', 'refuse'], ['open', 'ok'], ['req', 'none'], ['io', 'ok']],
    ]
    faults = []   # (ops of the faulty transaction)
    for dl in ('none', 'future'):
        for pos in range(3):          # 0 write, 1 header, 2 body
            pre = [['req', dl]] + [['io', 'ok']] * pos
            kinds = [['io', 'raise']] + ([['io', 'eof']] if pos > 0 else [])
            if dl == 'future':
                kinds += [['timeout', 'ok'], ['timeout', 'refuse']]
            for k in kinds:
                faults.append(pre + [k])
                faults.append(pre[:1] + [['req', 'none']] + pre[1:] + [k])      # a rejected concurrent request
    faults.append([['req', ['past', 'ok']]])
    faults.append([['req', ['past', 'refuse']]])
    # the re-connect of the time-out handler takes time: what arrives in that window (nothing, a look, a request
    # of each kind, Open(), a stray I/O outcome / time-out that must find nothing to do) x how the window ends
    window = [[], [['look']], [['req', 'none']], [['req', 'future']], [['req', ['past', 'ok']]],
              [['req', ['past', 'block']]], [['req', 'none'], ['req', 'future']], [['open', 'ok']],
              [['io', 'ok'], ['timeout', 'ok']]]
    ends = [[['reconn', 'ok']], [['reconn', 'refuse']], [['close']], [['close'], ['reconn', 'ok']]]
    for w in window:
        for e in ends:
            for pos in range(3):
                faults.append([['req', 'future']] + [['io', 'ok']] * pos + [['timeout', 'block']] + w + e)
            faults.append([['req', ['past', 'block']]] + w + e)
    for tail in tails:
        yield [['open', 'refuse']] + tail
        for done in range(3):
            for dl0 in ('none', 'future'):
                for f in faults:
                    yield [['open', 'ok']] + ok_txn(dl0) * done + f + tail


def _mux_cases():
    """open handshake with a fault at each of its I/O steps; then 0..3 completed transactions, 0..3 requests
    in flight of which 0..k are already written, and a fault of every kind at every position."""
    hs = [['open', 'ok'], ['wr', 'ok'], ['rd', 'ok', 'rping'], ['rd', 'ok', 'rping']]
    tail = [['look'], ['req'], ['wr', 'ok'], ['rd', 'ok', 'rping'], ['close'], ['look']]
    # faults during the opening handshake (nothing in flight)
    yield [['open', 'refuse']] + tail
    for i in range(1, 4):
        for k in ([['wr', 'raise']] if i == 1 else []) + [['rd', 'raise', 'junk'], ['rd', 'eof', 'junk'],
                                                          ['pingsilence']]:
            yield hs[:i] + [k] + tail
            if k[0] == 'rd' and i < 3:
                # fault in the body read of the first frame
                yield hs[:i] + [['rd', 'ok', 'junk'], k] + tail
    # the Rping of the handshake (or another frame) and a read fault right behind it, in one burst
    for i in (1, 2):
        for x in ('raise', 'eof'):
            for fr in ('rping', 'junk', ['reply', 2]):
                yield hs[:i] + [['burst', [['ok', 'junk'], ['ok', fr], [x, 'junk']]]] + tail
                yield hs[:i] + [['burst', [['ok', 'junk'], ['ok', fr], ['ok', 'junk'], [x, 'junk']]]] + tail
            yield hs[:i] + [['rd', 'ok', 'junk'], ['burst', [['ok', 'rping'], [x, 'junk']]]] + tail
    # the connection is accepted and reset / ended / answered at once: the receive loop meets that before the send
    # loop and the ping helper have started
    for x in ('raise', 'eof'):
        yield [['openburst', [[x, 'junk']]]] + tail
        yield [['openburst', [['ok', 'junk'], [x, 'junk']]]] + tail
        for fr in ('rping', 'junk', ['reply', 2]):
            yield [['openburst', [['ok', 'junk'], ['ok', fr], [x, 'junk']]]] + tail
            yield [['openburst', [['ok', 'junk'], ['ok', fr], ['ok', 'junk'], [x, 'junk']]]] + tail
    for fr in ('rping', 'junk', ['reply', 2]):
        yield [['openburst', [['ok', 'junk'], ['ok', fr]]]] + hs[1:] + tail
        yield [['openburst', [['ok', 'junk'], ['ok', fr], ['ok', 'junk']]], ['wr', 'raise']] + tail
        yield [['openburst', [['ok', 'junk'], ['ok', fr]]], ['race', [['ok', 'junk'], ['ok', 'rping']], 'mid', 'wr']] + tail
    # one more event in the drain that reads (and dispatches) the handshake's Rping, or another frame: every
    # position x every event, with the Tping written or still being written, from a header or a body read
    for i in (1, 2):
        for fr in ('rping', 'junk', ['reply', 2]):
            for pos in ('first', 'pre', 'mid'):
                for hit in ('rdraise', 'rdeof', 'wr', 'close'):
                    if (hit == 'wr' and i == 2) or (pos == 'first' and hit.startswith('rd')):
                        continue
                    yield hs[:i] + [['race', [['ok', 'junk'], ['ok', fr]], pos, hit]] + tail
                    yield hs[:i] + [['rd', 'ok', 'junk'], ['race', [['ok', fr]], pos, hit]] + tail
                    yield hs[:i] + [['race', [['ok', 'junk'], ['ok', fr], ['ok', 'junk']], pos, hit]] + tail
                    if fr == 'rping':
                        yield hs[:i] + [['race', [['ok', 'junk'], ['ok', 'junk'], ['ok', 'junk'], ['ok', fr]], pos,
                                         hit]] + tail
                        yield hs[:i] + [['race', [['ok', 'junk'], ['ok', fr], ['eof', 'junk']], pos, hit]] + tail
    fault_kinds = [
        [['wr', 'raise']],
        [['rd', 'raise', 'junk']], [['rd', 'eof', 'junk']],
        [['rd', 'ok', 'junk'], ['rd', 'raise', 'junk']], [['rd', 'ok', 'junk'], ['rd', 'eof', 'junk']],
        [['pingdue'], ['pingsilence']],
        [['pingdue'], ['wr', 'ok'], ['wr', 'ok'], ['wr', 'ok'], ['wr', 'ok'], ['pingsilence']],
        [['pingdue'], ['wr', 'raise']],
        [['close']],
    ]
    # a read fault right behind frames that were read but not yet dispatched (one burst, no yield)
    for x in ('raise', 'eof'):
        fault_kinds += [
            [['burst', [['ok', 'junk'], ['ok', ['reply', 2]], [x, 'junk']]]],
            [['burst', [['ok', 'junk'], ['ok', ['reply', 2]], ['ok', 'junk'], [x, 'junk']]]],
            [['burst', [['ok', 'junk'], ['ok', ['reply', 3]], ['ok', 'junk'], ['ok', ['reply', 2]], [x, 'junk']]]],
            [['rd', 'ok', 'junk'], ['burst', [['ok', ['reply', 2]], [x, 'junk']]]],
            [['burst', [['ok', 'junk'], ['ok', 'junk'], [x, 'junk']]]],
            [['pingdue'], ['burst', [['ok', 'junk'], ['ok', 'rping'], [x, 'junk']]]],
            [['pingdue'], ['burst', [['ok', 'junk'], ['ok', 'rping'], ['ok', 'junk'], ['ok', ['reply', 2]],
                                     [x, 'junk']]]],
        ]
    # a failing read / write / a Close() in the middle of the drain that dispatches a reply or a periodic Rping
    for pos in ('first', 'pre', 'mid'):
        for hit in ('rdraise', 'rdeof', 'wr', 'close'):
            if pos == 'first' and hit.startswith('rd'):
                continue
            fault_kinds += [
                [['race', [['ok', 'junk'], ['ok', ['reply', 2]]], pos, hit]],
                [['race', [['ok', 'junk'], ['ok', ['reply', 3]], ['ok', 'junk'], ['ok', ['reply', 2]]], pos, hit]],
                [['rd', 'ok', 'junk'], ['race', [['ok', ['reply', 2]], ['ok', 'junk']], pos, hit]],
                [['pingdue'], ['race', [['ok', 'junk'], ['ok', 'rping']], pos, hit]],
                [['pingdue'], ['wr', 'ok'], ['race', [['ok', 'junk'], ['ok', 'rping'], ['ok', 'junk'],
                                                      ['ok', ['reply', 2]]], pos, hit]],
            ]
    # several frames in one burst, no fault
    fault_kinds += [
        [['burst', [['ok', 'junk'], ['ok', ['reply', 3]], ['ok', 'junk'], ['ok', ['reply', 2]]]], ['rd', 'eof', 'junk']],
        [['burst', [['ok', 'junk'], ['ok', ['reply', 2]], ['ok', 'junk'], ['ok', ['reply', 2]], ['ok', 'junk']]],
         ['rd', 'raise', 'junk']],
    ]
    for done in range(4):
        pre = list(hs)
        for j in range(done):
            pre += [['req'], ['wr', 'ok'], ['rd', 'ok', 'junk'], ['rd', 'ok', ['reply', 2]]]
        for k in range(4):
            for written in range(k + 1):
                # None: no reply yet; 'first': the first written request is answered; 'queued': the peer answers
                # the last request while its frame still waits in the send queue (it is then never written)
                for answered in [None] + (['first'] if written else []) + (['queued'] if k - written >= 2 else []):
                    mid = [['req']] * k + [['wr', 'ok']] * written
                    if answered == 'first':
                        mid += [['rd', 'ok', 'junk'], ['rd', 'ok', ['reply', 2]]]
                    elif answered == 'queued':
                        mid += [['rd', 'ok', 'junk'], ['rd', 'ok', ['reply', 1 + k]], ['wr', 'ok'], ['wr', 'ok']]
                    for f in fault_kinds:
                        yield pre + mid + f + tail


def _mux_parked_cases():
    """requests handed to the transport while its open is pending (0-2 while the connect is in progress, 0-2 during
    the handshake, at least one), and every way the open can end: refused connect; connection reset / ended / answered
    at once; write fault, read fault (error / EOF, header / body) and ping silence during the handshake with the Tping
    written or not; Close() while connecting or during the handshake; the Rping with a read fault right behind it in one
    burst; a failing read / failing write / Close() at each position inside the drain that reads the Rping; and the
    successful open, after which the requests go through their lives (written, answered, failed by a later fault)."""
    tail = [['look'], ['req'], ['wr', 'ok'], ['close'], ['look']]
    life = [['look'], ['wr', 'ok'], ['wr', 'ok'], ['rd', 'ok', 'junk'], ['rd', 'ok', ['reply', 2]], ['req'], ['wr', 'ok']]
    ends = [[['rd', 'eof', 'junk']], [['wr', 'raise']], [['pingdue'], ['pingsilence']], [['close']],
            [['burst', [['ok', 'junk'], ['ok', ['reply', 3]], ['raise', 'junk']]]],
            [['race', [['ok', 'junk'], ['ok', ['reply', 3]]], 'mid', 'wr']]]
    for nc in range(3):
        for nh in range(3):
            if nc + nh == 0:
                continue
            pc, ph = [['park']] * nc, [['park']] * nh
            starts = [[['open', 'ok']] + ph] if nc == 0 else []
            starts += [[['openstart']] + pc + [['connected', 'ok', []]] + ph]
            if nc:
                # the open ends with the connect
                yield [['openstart']] + pc + [['connected', 'refuse', []]] + tail
                yield [['openstart']] + pc + [['close']] + [['park']] * nh + [['connected', 'ok', []]] + tail
                yield [['openstart']] + pc + [['close']] + [['connected', 'refuse', []]] + tail
                if nh == 0:
                    for x in ('raise', 'eof'):
                        yield [['openstart']] + pc + [['connected', 'ok', [[x, 'junk']]]] + tail
                        yield [['openstart']] + pc + [['connected', 'ok', [['ok', 'junk'], [x, 'junk']]]] + tail
                        yield [['openstart']] + pc + [['connected', 'ok', [['ok', 'junk'], ['ok', 'rping'], [x, 'junk']]]] + tail
                    for e in ends:
                        yield [['openstart']] + pc + [['connected', 'ok', [['ok', 'junk'], ['ok', 'rping']]]] + life + e + tail
                        yield [['openstart']] + pc + [['connected', 'ok', [['ok', 'junk'], ['ok', 'rping'], ['ok', 'junk'],
                                                                    ['ok', ['reply', 2]]]]] + life + e + tail
            for st in starts:
                for written in (False, True):
                    pre = st + ([['wr', 'ok']] if written else [])
                    # faults of the handshake
                    for k in ([] if written else [['wr', 'raise']]) + [['rd', 'raise', 'junk'], ['rd', 'eof', 'junk'],
                                                                      ['pingsilence'], ['close']]:
                        yield pre + [k] + tail
                        if k[0] == 'rd':
                            yield pre + [['rd', 'ok', 'junk'], k] + tail
                    for x in ('raise', 'eof'):
                        yield pre + [['burst', [['ok', 'junk'], ['ok', 'rping'], [x, 'junk']]]] + tail
                        yield pre + [['burst', [['ok', 'junk'], ['ok', 'rping'], ['ok', 'junk'], [x, 'junk']]]] + tail
                        yield pre + [['burst', [['ok', 'junk'], ['ok', ['reply', 2]], [x, 'junk']]]] + tail
                    for pos in ('first', 'pre', 'mid'):
                        for hit in ('rdraise', 'rdeof', 'wr', 'close'):
                            if (hit == 'wr' and written) or (pos == 'first' and hit.startswith('rd')):
                                continue
                            yield pre + [['race', [['ok', 'junk'], ['ok', 'rping']], pos, hit]] + tail
                            yield pre + [['rd', 'ok', 'junk'], ['race', [['ok', 'rping']], pos, hit]] + tail
                            yield pre + [['race', [['ok', 'junk'], ['ok', 'rping'], ['ok', 'junk'], ['ok', ['reply', 2]]],
                                          pos, hit]] + tail
                    # the open succeeds
                    for e in ends:
                        yield pre + [['rd', 'ok', 'junk'], ['rd', 'ok', 'rping']] + life + e + tail
                    yield pre + [['burst', [['ok', 'junk'], ['ok', 'rping'], ['ok', 'junk'], ['ok', ['reply', 2]]]]] + life + tail
                    yield pre + [['burst', [['ok', 'junk'], ['ok', 'rping']]], ['rd', 'eof', 'junk']] + tail
                    yield pre + [['burst', [['ok', 'junk'], ['ok', 'rping']]], ['wr', 'raise']] + tail


def exhaustive(tier, shard, shards):
    k = 0
    for ops in _serial_cases():
        k += 1
        if k % shards == shard:
            yield {'t': 'serial', 'ops': ops}
    for ops in _mux_cases():
        k += 1
        if k % shards == shard:
            yield {'t': 'muxt', 'ops': ops}
    for ops in _mux_parked_cases():
        k += 1
        if k % shards == shard:
            yield {'t': 'muxt', 'ops': ops}


def shrink(script):
    ops = script['ops']
    for i in range(len(ops) - 1, -1, -1):
        yield {'t': script['t'], 'ops': ops[:i] + ops[i + 1:]}
    for i in range(len(ops) - 1, -1, -1):
        if ops[i][0] in ('burst', 'race', 'openburst') and len(ops[i][1]) > 1:
            reads = ops[i][1]
            for j in range(len(reads) - 1, -1, -1):
                yield {'t': script['t'],
                       'ops': ops[:i] + [[ops[i][0], reads[:j] + reads[j + 1:]] + ops[i][2:]] + ops[i + 1:]}
        if ops[i][0] == 'connected' and len(ops[i][2]) > 0:
            reads = ops[i][2]
            for j in range(len(reads) - 1, -1, -1):
                yield {'t': script['t'], 'ops': ops[:i] + [['connected', ops[i][1], reads[:j] + reads[j + 1:]]] + ops[i + 1:]}


def nontrivial(case):
    t = set(case.get('tags', []))
    return any(x.startswith(('io-', 'timeout-', 'connect-', 'deadline-past', 'concurrent', 'close', 'write-raise',
                             'read-', 'burst-', 'race', 'openburst', 'ping-silence', 'fault-during-open',
                             'request-while-not-open', 'park'))
               for x in t)
