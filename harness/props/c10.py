"""C10 — timer queue: run the real scales.timer_queue.TimerQueue on the virtual loop.

The script is a list of environment actions (Schedule / cancel / clock / yields).  While it
runs, a recorder writes the *labels* of the transition system of Model/TimerQueue.lean in the
order they happen: the environment labels when the script performs them, the scheduler labels
(start / resumeSet / resumeTimeout / resumeSleep) when the worker greenlet comes back from one
of its blocking calls — seen through a logging `Event` subclass put in `queue._event` and a
logging proxy for the `gevent` name in the module's namespace.  After every label the visible
state (clock, sorted heap, event flag, where the worker is blocked, which actions were spawned)
is recorded; the Lean model predicts it.
"""
import heapq
import math
import sys

from lib import vfmt

PROPERTY = 'C10'
import isolation as _iso
ISOLATION = [(n, getattr(_iso, n)) for n in ['timer_queue']]      # instance-isolation obligation (harness/isolation.py)
COMPONENT = 'timerq'
QUICK = dict(gen=4000, exhaustive_len=4, timeout=120)
THOROUGH = dict(gen=120000, exhaustive_len=5, timeout=900)

T0_US = 1000 * 1000000            # every script starts at virtual time 1000.0 s
HORIZON_US = T0_US + 8000 * 1000000  # scripts stay inside [1000 s, 9000 s); every instant is checked by float_safe()
RESF = {0: 0, 1000: 0.001, 10000: 0.01, 50000: 0.05}

TRUSTED = ['heapq (the model keeps the heap as a list sorted by (deadline, seq))',
           'gevent Event/sleep/spawn semantics on the virtual loop',
           'float arithmetic of Schedule/_TimerWorker on millisecond instants in [1000 s, 9000 s) '
           '(checked per script by float_safe; the virtual clock is set to the float the code itself '
           'computes for an instant on the resolution grid)']
ASSUMPTIONS = ['the queue\'s time source is the clock Event.wait(timeout) sleeps on (true for '
               'GLOBAL_TIMER_QUEUE up to libev timer latency; not for LOW_RESOLUTION_TIMER_QUEUE)',
               'instants are multiples of 1 ms; deadlines are finite floats; action is not None',
               'actions are identified by their Schedule sequence number',
               'order clause: minimal (rounded deadline, seq) among the actions pending when it runs']
RULE = ('scripts drawn from the seeded generator plus every script over a 10-letter alphabet up to a '
        'fixed length; distinct = distinct (cfg, label list); non-trivial = the run reaches at least one '
        'of: schedule of a new earliest / equal / past deadline while the worker is blocked, a cancel '
        '(head, non-head, after the run, after the deadline), a time-out delivered although the event was '
        'set, a pop of an entry that was not the one peeked, several runs in one worker turn')


# ------------------------------------------------------------------ generation
OFFS = [-20, -10, -3, 0, 0, 1, 3, 5, 7, 10, 10, 10, 13, 15, 20, 20, 30, 50, 100]
STEPS_MS = [1, 3, 5, 7, 10, 10, 20, 30, 50, 100]


def gen_script(rng, tier):
    res = rng.choice([10000] * 7 + [0, 1000, 50000])
    style = rng.choice(['eager', 'mixed', 'mixed', 'skew', 'burst'])
    w = {'eager': dict(s=30, sr=3, c=12, t=2, y=20, a=20, q=10, T=3),
         'mixed': dict(s=30, sr=4, c=14, t=10, y=14, a=14, q=6, T=8),
         'skew': dict(s=26, sr=3, c=14, t=20, y=10, a=6, q=4, T=17),
         'burst': dict(s=45, sr=3, c=20, t=6, y=8, a=10, q=3, T=5)}[style]
    kinds = [k for k, n in sorted(w.items()) for _ in range(n)]
    n = rng.choice([6, 10, 16, 24, 40, 60] if tier != 'thorough' else [6, 10, 16, 24, 40, 60, 100])
    ops, nsched = [], 0
    # a sixth of the scripts look far ahead: deadlines a minute, minutes or an hour away next to near ones, and the
    # clock moving in correspondingly large steps (a worker that caps or re-arms its sleep must not fire early or late)
    far = rng.random() < 0.17
    offs = OFFS + [5000, 30000, 59990, 60000, 60010, 61000, 90000, 300000, 1200000] * 2 if far else OFFS
    steps = STEPS_MS + [1000, 20000, 59990, 60000, 60010, 120000, 600000] if far else STEPS_MS
    for _ in range(n):
        k = rng.choice(kinds)
        if far and k in ('s', 'sr', 't', 'a'):
            if k in ('s', 'sr'):
                ops.append([k, rng.choice(offs)] + ([rng.choice([-10, 0, 5, 10, 20])] if k == 'sr' else []))
                nsched += 1
            else:
                ops.append([k, rng.choice(steps)])
            continue
        if k == 's':
            ops.append(['s', rng.choice(OFFS)])
            nsched += 1
        elif k == 'sr':
            ops.append(['sr', rng.choice(OFFS), rng.choice([-10, 0, 5, 10, 20])])
            nsched += 1
        elif k == 'c':
            if nsched:
                # mostly recent entries (likely still queued), sometimes any
                j = nsched - rng.randrange(min(3, nsched)) if rng.random() < 0.7 else 1 + rng.randrange(nsched)
                ops.append(['c', j])
        elif k in ('t', 'a'):
            ops.append([k, rng.choice(STEPS_MS)])
        else:
            ops.append([k])
    return {'res': res, 'ops': ops}


ALPHABET = [['s', 0], ['s', 10], ['s', 20], ['s', -10], ['c', 1], ['c', 2], ['t', 10], ['y'], ['a', 10], ['T']]


def exhaustive(tier, shard, shards):
    """every word over ALPHABET up to the tier's length (each followed by the implicit settle/idle)"""
    import itertools
    nmax = (THOROUGH if tier == 'thorough' else QUICK)['exhaustive_len']
    k = 0
    for n in range(1, nmax + 1):
        for word in itertools.product(range(len(ALPHABET)), repeat=n):
            k += 1
            if k % shards != shard:
                continue
            yield {'res': 10000, 'ops': [list(ALPHABET[i]) for i in word]}


def shrink(script):
    ops = script['ops']
    for i in range(len(ops)):
        yield {'res': script['res'], 'ops': ops[:i] + ops[i + 1:]}
    for i, op in enumerate(ops):
        if op[0] == 'sr':
            yield {'res': script['res'], 'ops': ops[:i] + [['s', op[1]]] + ops[i + 1:]}
        if op[0] in ('T', 'q', 'a'):
            yield {'res': script['res'], 'ops': ops[:i] + [['y']] + ops[i + 1:]}
    if script['res'] != 10000:
        yield {'res': 10000, 'ops': ops}


def ceil_us(d_us, res_us):
    return d_us if not res_us else -(-d_us // res_us) * res_us


def float_safe(d_us, res_us):
    """the code's float rounding of this deadline gives the grid point integer arithmetic gives"""
    if not res_us:
        return True
    r = RESF[res_us]
    return int(round(int(math.ceil(float(d_us / 1e6) / r)) * r * 1e6)) == ceil_us(d_us, res_us)


# ------------------------------------------------------------------ running the real code
_GLOBALS_STOPPED = []


def run_script(script):
    import rt
    import gevent
    from gevent.event import Event
    from gevent.hub import Waiter
    import scales.timer_queue as tq
    loop = rt.loop
    real_gevent = gevent

    if not _GLOBALS_STOPPED:
        # the module-level queues (and the 1 s low-resolution ticker) are not under test
        for g in (tq.GLOBAL_TIMER_QUEUE, tq.LOW_RESOLUTION_TIMER_QUEUE):
            g._worker.kill(block=False)
        rt.drain()
        _GLOBALS_STOPPED.append(True)
    rt.drain()
    rt.take_errors()
    del loop._timers[:]

    res_us = int(script['res'])
    resf = RESF[res_us]

    def clk(us):
        """the float the virtual clock shows at integer-microsecond instant `us`"""
        if res_us and us % res_us == 0:
            return (us // res_us) * resf          # what Schedule computes for a deadline on the grid
        return us / 1e6

    def now_us():
        return int(round(loop._now * 1e6))

    def snap_clock():
        us = now_us()
        assert abs(loop._now * 1e6 - us) < 0.5 and us % 1000 == 0, loop._now
        loop._now = clk(us)

    loop._now = clk(T0_US)

    class R(object):               # recorder
        steps = []
        pc = 'top'
        pending = None             # index of the scheduler step whose observation is still open
        last_us = T0_US
        ran_new = []
        closed = False
        tags = set()
        spawned = []               # seqs in spawn order
        executed = []              # seqs in execution order
        nsched = 0
        skipped_unsafe = 0
        info = {}                  # seq -> dict(d, rd, t_sched)
        cancelled_at = {}

    R.steps, R.ran_new, R.tags, R.spawned, R.executed, R.info, R.cancelled_at = [], [], set(), [], [], {}, {}

    def snap():
        items = sorted((int(round(e[0] * 1e6)), e[1], bool(e[2])) for e in q._queue)
        obs = [now_us(), [list(i) for i in items], bool(q._event.is_set()), R.pc, list(R.ran_new)]
        if R.ran_new:
            R.tags.add('ran')
        if len(R.ran_new) >= 2:
            R.tags.add('several-runs-in-one-turn')
        del R.ran_new[:]
        return vfmt(obs)

    def sync_tick():
        n = now_us()
        if n != R.last_us:
            assert n > R.last_us
            R.steps.append(['tick %d' % (n - R.last_us), snap()])
            R.last_us = n

    def env_label(text):
        sync_tick()
        R.steps.append([text, snap()])

    def block(pc):
        if R.closed:
            return
        R.pc = pc
        if R.pending is not None:
            R.steps[R.pending][1] = snap()
            R.pending = None

    def resume(label):
        if R.closed:
            return
        snap_clock()
        if label == 'resumeTimeout' and q._event.is_set():
            R.tags.add('timeout-though-set')
        sync_tick()
        R.steps.append([label, None])
        R.pending = len(R.steps) - 1

    def in_worker():
        return (not R.closed and q is not None
                and getattr(q, '_worker', None) is real_gevent.getcurrent())

    class LogEvent(Event):
        def wait(self, timeout=None):
            if not in_worker():
                return Event.wait(self, timeout)
            if self.is_set():
                R.tags.add('wait-returns-at-once')
                return Event.wait(self, timeout)       # returns without yielding
            if timeout is None:
                pc = 'blockedEmpty'
            else:
                fl = sys._getframe(1).f_locals
                pk = fl.get('peeked_seq', 0)
                pc = ['waiting', int(round((loop._now + timeout) * 1e6)), pk]
            block(pc)
            r = Event.wait(self, timeout)
            resume('resumeSet' if r else 'resumeTimeout')
            return r

    class GeventProxy(object):
        def __getattr__(self, name):
            return getattr(real_gevent, name)

        def sleep(self, seconds=0, *a, **kw):
            if not in_worker():
                return real_gevent.sleep(seconds, *a, **kw)
            block('sleeping0' if seconds == 0 else ['sleeping', int(round(seconds * 1e6))])
            real_gevent.sleep(seconds, *a, **kw)
            resume('resumeSleep')

        def spawn(self, fn, *a, **kw):
            if in_worker():
                k = getattr(fn, 'seq', -1)
                R.ran_new.append(k)
                R.spawned.append(k)
            if getattr(fn, '__name__', '') == '_TimerWorker' and not R.closed:
                def worker_main(*a2, **kw2):      # logs the first run of the worker greenlet
                    resume('start')
                    return fn(*a2, **kw2)
                return real_gevent.spawn(worker_main, *a, **kw)
            return real_gevent.spawn(fn, *a, **kw)

    class LogLog(object):
        def __getattr__(self, name):
            return getattr(real_log, name)

        def critical(self, *a, **kw):
            R.tags.add('popped-not-peeked')

    real_log = tq.LOG
    tq.gevent = GeventProxy()
    tq.LOG = LogLog()
    q = None
    try:
        q = tq.TimerQueue(time_source=loop.now, resolution=resf)
        q._event = LogEvent()
        cancels = {}

        def do_schedule(off_ms, chain=None):
            d_us = now_us() + off_ms * 1000
            if d_us > HORIZON_US:
                raise RuntimeError('instant outside the float-safe window: %d' % d_us)
            if not float_safe(d_us, res_us):
                R.skipped_unsafe += 1        # the float the code computes for this instant is off the grid: not scheduled
                return
            R.nsched += 1
            k = R.nsched
            rd = ceil_us(d_us, res_us)

            def action():
                R.executed.append(k)
                if chain is not None:
                    R.tags.add('reentrant-schedule')
                    do_schedule(chain)
            action.seq = k
            R.info[k] = dict(d=d_us, rd=rd)
            sync_tick()
            # coverage tags (from the visible state before the call)
            live = [e for e in q._queue]
            if live:
                head = min(live)
                hd = int(round(head[0] * 1e6))
                blocked = isinstance(R.pc, list)
                if rd < hd and blocked:
                    R.tags.add('new-earliest-while-waiting')
                if rd == hd:
                    R.tags.add('ties-head')
                if any(int(round(e[0] * 1e6)) == rd for e in live):
                    R.tags.add('equal-deadline')
            if rd <= now_us():
                R.tags.add('deadline-not-in-future')
            if R.pc == 'blockedEmpty':
                R.tags.add('wakes-empty-queue')
            cancels[k] = q.Schedule(d_us / 1e6, action)
            R.steps.append(['schedule %d' % d_us, snap()])

        def do_cancel(j):
            if not R.nsched:
                return
            k = (j - 1) % R.nsched + 1
            sync_tick()
            inq = [e for e in q._queue if e[1] == k]
            if k in R.spawned:
                R.tags.add('cancel-after-run')
            elif inq:
                if R.info[k]['rd'] <= now_us():
                    R.tags.add('cancel-after-deadline')
                R.tags.add('cancel-head' if min(q._queue)[1] == k else 'cancel-non-head')
                if k in R.cancelled_at:
                    R.tags.add('cancel-twice')
            R.cancelled_at.setdefault(k, now_us())
            cancels[k]()
            R.steps.append(['cancel %d' % k, snap()])

        def wait_until(abs_time):
            w = Waiter(rt.get_hub())
            t = loop.timer(0.0)
            t.callback, t.args, t._active = w.switch, (w,), True
            loop._seq += 1
            t.seq = loop._seq
            heapq.heappush(loop._timers, (abs_time, t.seq, t))
            try:
                w.get()
            finally:
                t.stop()
            snap_clock()

        def due_timers():
            return [at for (at, seq, t) in loop._timers if t._active and t.seq == seq and at <= loop._now + 5e-7]

        def settle():
            for _ in range(100000):
                if loop._callbacks:
                    real_gevent.sleep(0)
                    continue
                due = due_timers()
                if due:
                    wait_until(max(max(due), loop._now))
                    continue
                return
            raise RuntimeError('settle: never quiescent')

        def timer_first_yield():
            """deliver the worker's elapsed wait time-out before the callbacks already queued
            (libev runs pending timers of an iteration before the next round of callbacks)"""
            wk = q._worker
            for (at, seq, t) in sorted(loop._timers, key=lambda e: e[:2]):
                if (t._active and t.seq == seq and at <= loop._now + 5e-7 and t.args
                        and t.args[0] is wk):
                    cb, args = t.callback, t.args
                    t._active = False
                    c = rt.vloop._Callback(cb, args)
                    loop._callbacks.insert(0, c)
                    R.tags.add('timer-before-callbacks')
                    break
            real_gevent.sleep(0)
            snap_clock()

        def do_idle():
            settle()
            env_label('idle')

        for op in script['ops']:
            if now_us() > HORIZON_US:
                break
            kind = op[0]
            if kind == 's':
                do_schedule(op[1])
            elif kind == 'sr':
                do_schedule(op[1], op[2])
            elif kind == 'c':
                do_cancel(op[1])
            elif kind == 't':
                loop._now = clk(now_us() + op[1] * 1000)
                if isinstance(R.pc, list) and R.pc[0] == 'waiting' and R.pc[1] <= now_us():
                    R.tags.add('clock-passes-wakeup-unserved')
            elif kind == 'y':
                real_gevent.sleep(0)
                snap_clock()
            elif kind == 'a':
                wait_until(clk(now_us() + op[1] * 1000))
            elif kind == 'q':
                do_idle()
            elif kind == 'T':
                timer_first_yield()
            else:
                raise ValueError(op)
        # epilogue: quiescence now, and again after every deadline has passed
        do_idle()
        last = max([T0_US] + [i['rd'] for i in R.info.values()])
        for _ in range(6):         # re-entrant schedules may add later deadlines
            if last > now_us():
                wait_until(clk(last))
            do_idle()
            nl = max([T0_US] + [i['rd'] for i in R.info.values()])
            if nl <= now_us():
                break
            last = nl
        settle()
        if q._worker.dead:
            R.pc = 'crashed'
        if R.pending is not None:
            R.steps[R.pending][1] = snap()
            R.pending = None
        if q._worker.dead:
            R.tags.add('worker-died')
        if sorted(R.executed) != sorted(R.spawned):
            R.steps.append(['idle', vfmt(['raised', 'spawned-actions-did-not-all-run'])])
        if res_us != 10000:
            R.tags.add('res-%d' % res_us)
    finally:
        R.closed = True
        tq.gevent = real_gevent
        tq.LOG = real_log
        if q is not None:
            q._worker.kill(block=False)
            rt.drain()
    errs = rt.take_errors()
    if errs:
        R.tags.add('hub-error-' + errs[0][0])
    return {'comp': COMPONENT, 'cfg': '%d %d' % (res_us, T0_US),
            'steps': [[a, b if b is not None else vfmt(['raised', 'no-observation'])] for a, b in R.steps],
            'tags': sorted(R.tags)}


def nontrivial(case):
    t = set(case.get('tags', []))
    return bool(t & {'new-earliest-while-waiting', 'ties-head', 'equal-deadline', 'deadline-not-in-future',
                     'cancel-head', 'cancel-non-head', 'cancel-after-run', 'cancel-after-deadline',
                     'timeout-though-set', 'popped-not-peeked', 'several-runs-in-one-turn',
                     'wait-returns-at-once', 'reentrant-schedule'})
