"""Second level of service inheritance: `service Vault extends Archive` (c14_derived.py, which
extends `Store` of c14_iface.py), laid out as the Thrift compiler's Python generator does:

    exception Locked { 1: i64 id, 2: Denied cause }
    service Vault extends Archive {
      string seal(1: Item item, 2: string note) throws (1: Denied denied, 3: Locked locked),
      void   purge(1: Range range) throws (1: Busy busy),
      bool   sealed(1: i64 id),
    }

Only the three OWN methods have their `<m>_args` / `<m>_result` classes here; `flush`, `drop`,
`latest`, `tally` have theirs in c14_derived, the seven Store methods in c14_iface: a lookup for
a method of this interface walks up to three modules.
"""
from thrift.Thrift import TType, TProcessor

from props import c14_derived
from props.c14_iface import _Struct, _Exc, _process_fn, _process_request, Item, Denied
from props.c14_derived import Range, Busy


# ----------------------------------------------------------------------------- types
class Locked(_Exc):
    pass


Locked.thrift_spec = (
    None,  # 0
    (1, TType.I64, 'id', None, None, ),  # 1
    (2, TType.STRUCT, 'cause', [Denied, Denied.thrift_spec], None, ),  # 2
)


# ----------------------------------------------------------------------------- service
class Iface(c14_derived.Iface):
    def seal(self, item, note):
        pass

    def purge(self, range):
        pass

    def sealed(self, id):
        pass


def _cls(name, spec):
    c = type(name, (_Struct,), {})
    c.thrift_spec = spec
    c.__module__ = __name__
    return c


seal_args = _cls('seal_args', (
    None,  # 0
    (1, TType.STRUCT, 'item', [Item, Item.thrift_spec], None, ),  # 1
    (2, TType.STRING, 'note', 'UTF8', None, ),  # 2
))
seal_result = _cls('seal_result', (
    (0, TType.STRING, 'success', 'UTF8', None, ),  # 0
    (1, TType.STRUCT, 'denied', [Denied, Denied.thrift_spec], None, ),  # 1
    None,  # 2
    (3, TType.STRUCT, 'locked', [Locked, Locked.thrift_spec], None, ),  # 3
))

purge_args = _cls('purge_args', (
    None,  # 0
    (1, TType.STRUCT, 'range', [Range, Range.thrift_spec], None, ),  # 1
))
purge_result = _cls('purge_result', (
    None,  # 0
    (1, TType.STRUCT, 'busy', [Busy, Busy.thrift_spec], None, ),  # 1
))

sealed_args = _cls('sealed_args', (
    None,  # 0
    (1, TType.I64, 'id', None, None, ),  # 1
))
sealed_result = _cls('sealed_result', (
    (0, TType.BOOL, 'success', None, None, ),  # 0
))

METHODS = ['seal', 'purge', 'sealed']               # the service's OWN methods
BASE = c14_derived                                  # `extends Archive`


class Processor(c14_derived.Processor, Iface, TProcessor):
    def __init__(self, handler):
        c14_derived.Processor.__init__(self, handler)
        for m in METHODS:
            self._processMap[m] = getattr(Processor, 'process_' + m)
        self._on_message_begin = None

    def on_message_begin(self, func):
        self._on_message_begin = func

    process = _process_request


for _m in METHODS:
    setattr(Processor, 'process_' + _m, _process_fn(_m, globals()[_m + '_args'], globals()[_m + '_result']))
del _m
