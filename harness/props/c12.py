"""C12 — end-to-end acceptance part: the Thrift and ThriftMux clients built by the public builders over a
fake network with scripted servers; Lean monitors (Adapter/E2E.lean) judge the event log."""
import e2e
import lbrun
from props import c08, c11

PROPERTY = 'C12'
COMPONENT = 'e2e12'
QUICK = dict(gen=480)
THOROUGH = dict(gen=12000)
TRUSTED = list(c11.TRUSTED) + ['fake network harness/fakenet.py (ordered reliable byte streams, refusal, close)',
           'scripted servers decode/encode with the Thrift library']
ASSUMPTIONS = ['servers answer each request at most once; on a serial connection in request order']


MUX_FOCUS = 'timeouts'      # the multiplexed hop on its own: scripts for component `tagpool` (harness/props/c11.py)


def gen_script(rng, tier):
    """four kinds of script, one per hop: the assembled stacks (component e2e12), the real mux transport sink on a
    fake socket (component `tagpool`, judged by the Lean spec12: C11 + own-reply + C12 clauses), the serial transport
    (component `serial12`) and the balancers' gate in front of the open result (component `lbgate`)"""
    r = rng.random()
    if r < 0.15:
        # the balancer hop: requests waiting for the open result, some with their deadline passed
        # (component `lbgate`: the real Heap/ApertureBalancerSink vs Model/LBBase.lean, spec LB.specGate)
        return lbrun.gen_script(rng, tier, 12)
    if r < 0.5:
        return e2e.gen_script(rng, tier, rng.choice(['aged', 'edge', 'edge', 'slowpeer', 'slowpeer'] + [None] * 7))
    if r < 0.7:
        # the serial transport on the step-controlled socket (component `serial12`: no frame of a
        # request after its TimeoutError; an expired request is never written)
        return c08._gen_serial(rng, rng.choice([8, 14, 22]))
    if rng.random() < 0.8:
        return c11.gen_script_focus(rng, tier, MUX_FOCUS)
    return c11.gen_script(rng, tier)


def exhaustive(tier, shard, shards):
    """every serial fault position x kind x recovery tail of C08's enumeration, judged by C12's clauses; and the
    mid-write enumeration of the multiplexed hop (harness/props/c11.py _midwrite_cases)"""
    k = 0
    for ops in c08._serial_cases():
        k += 1
        if k % shards == shard:
            yield {'t': 'serial', 'ops': ops}
    # the multiplexed hop with the write as a yield point: every short interleaving of {deadline of the frame
    # being written, answer, a second request and its deadline, drain, yield} around one blocked write
    for ops in c11._midwrite_cases(tier):
        k += 1
        if k % shards == shard:
            yield {'max': None, 'flavour': 'thriftmux', 'ops': ops}


def shrink(script):
    if script.get('t') == 'lbgate':
        return lbrun.shrink(script)
    if script.get('t') == 'serial':
        return c08.shrink(script)
    return c11.shrink(script) if 'ops' in script else e2e.shrink(script)


def run_script(script):
    if script.get('t') == 'lbgate':
        return lbrun.run_script(script, 'lbgate')
    if script.get('t') == 'serial':
        case = c08.run_script(script)
        case['comp'] = 'serial12'
        return case
    if 'ops' in script:
        return c11.run_script(script)
    return e2e.run_script(script, COMPONENT)


def nontrivial(case):
    t = set(case.get('tags', []))
    return bool(t & {'timed-out', 'released', 'reordered', 'conn-killed', 'unreachable', 'pre-open', 'discard-sent',
                     'gate-dropped', 'gate-expired', 'queued-req', 'timeout-during-some-write'}) \
        or c11.nontrivial(case) or c08.nontrivial(case)
