"""A Thrift interface that EXTENDS the `Store` service of c14_iface.py, laid out as the Thrift
compiler's Python generator lays out `service Archive extends store.Store`:

    struct Range   { 1: i64 lo, 2: i64 hi, 3: Inner tag }
    exception Busy { 1: string why, 2: i32 retry_ms }
    service Archive extends Store {
      void flush(),
      void drop(1: Item item, 2: Range range) throws (1: Busy busy, 2: NotFound nf),
      Item latest(1: string key, 2: Range range) throws (2: Busy busy),
      i32  tally(1: binary key, 2: bool deep),
    }

This module holds — as the generated `Archive.py` does — the service's own `Iface` (a subclass
of the base service's Iface), its `Processor` (a subclass of the base Processor whose
`__init__` calls the base `__init__` and adds the own `process_<m>` entries to `_processMap`)
and the `<m>_args` / `<m>_result` classes of the four OWN methods only.  The classes of the
seven inherited methods (`ping_args`, `find_result`, ...) exist in c14_iface and nowhere else:
who needs the classes of an inherited method of this interface has to look in the base
service's module.
"""
from thrift.Thrift import TType, TProcessor

from props import c14_iface
from props.c14_iface import _Struct, _Exc, _process_fn, _process_request, Inner, Item, NotFound


# ----------------------------------------------------------------------------- types
class Range(_Struct):
    pass


Range.thrift_spec = (
    None,  # 0
    (1, TType.I64, 'lo', None, None, ),  # 1
    (2, TType.I64, 'hi', None, None, ),  # 2
    (3, TType.STRUCT, 'tag', [Inner, Inner.thrift_spec], None, ),  # 3
)


class Busy(_Exc):
    pass


Busy.thrift_spec = (
    None,  # 0
    (1, TType.STRING, 'why', 'UTF8', None, ),  # 1
    (2, TType.I32, 'retry_ms', None, None, ),  # 2
)


# ----------------------------------------------------------------------------- service
class Iface(c14_iface.Iface):
    def flush(self):
        pass

    def drop(self, item, range):
        pass

    def latest(self, key, range):
        pass

    def tally(self, key, deep):
        pass


def _cls(name, spec):
    c = type(name, (_Struct,), {})
    c.thrift_spec = spec
    c.__module__ = __name__
    return c


flush_args = _cls('flush_args', ())
flush_result = _cls('flush_result', ())

drop_args = _cls('drop_args', (
    None,  # 0
    (1, TType.STRUCT, 'item', [Item, Item.thrift_spec], None, ),  # 1
    (2, TType.STRUCT, 'range', [Range, Range.thrift_spec], None, ),  # 2
))
drop_result = _cls('drop_result', (
    None,  # 0
    (1, TType.STRUCT, 'busy', [Busy, Busy.thrift_spec], None, ),  # 1
    (2, TType.STRUCT, 'nf', [NotFound, NotFound.thrift_spec], None, ),  # 2
))

latest_args = _cls('latest_args', (
    None,  # 0
    (1, TType.STRING, 'key', 'UTF8', None, ),  # 1
    (2, TType.STRUCT, 'range', [Range, Range.thrift_spec], None, ),  # 2
))
latest_result = _cls('latest_result', (
    (0, TType.STRUCT, 'success', [Item, Item.thrift_spec], None, ),  # 0
    None,  # 1
    (2, TType.STRUCT, 'busy', [Busy, Busy.thrift_spec], None, ),  # 2
))

tally_args = _cls('tally_args', (
    None,  # 0
    (1, TType.STRING, 'key', 'BINARY', None, ),  # 1
    (2, TType.BOOL, 'deep', None, None, ),  # 2
))
tally_result = _cls('tally_result', (
    (0, TType.I32, 'success', None, None, ),  # 0
))

METHODS = ['flush', 'drop', 'latest', 'tally']      # the service's OWN methods
BASE = c14_iface                                    # `extends Store`


class Processor(c14_iface.Processor, Iface, TProcessor):
    def __init__(self, handler):
        c14_iface.Processor.__init__(self, handler)
        for m in METHODS:
            self._processMap[m] = getattr(Processor, 'process_' + m)
        self._on_message_begin = None

    def on_message_begin(self, func):
        self._on_message_begin = func

    process = _process_request


for _m in METHODS:
    setattr(Processor, 'process_' + _m, _process_fn(_m, globals()[_m + '_args'], globals()[_m + '_result']))
del _m
