"""C11 — tag pool + mux transport core.

The real scales.thriftmux.sink.SocketTransportSink and the real scales.kafka.sink.KafkaTransportSink (script
key 'flavour'; TagPool, _tag_map, _ReleaseTag, _HandleTimeout, _OnTimeout, send and receive loops; for Kafka the
tag is decoded from the correlation id of the request headers it writes, and the peer replies with arbitrary
correlation ids) run on a fake socket (harness/fakenet.py) whose peer is the generator:
replies in any order, duplicated, for unknown tags, on tags 0 and 1 with every message type, before the request
was even written; deadline events fired before and after transmission; pings; close + new connection.

Every atomic step of the transport is one operation of the Lean model, in the order in which the real run
performed them (labels are observed, effects are predicted):

    req <noev|ev|pre> <popped>   harness calls AsyncProcessRequest (popped = element set.pop() returned, 0 if
                                 the free set was empty: runtime-defined choice, observed)
    fire <rid>                   harness sets the Deadline event of request rid (as ClientTimeoutSink does)
    send                         the send loop took one item off the send queue and dealt with it
    notify <rid>                 the one-shot timeout callback of request rid ran
    process <type> <tag>         _ProcessReply ran on a frame the peer sent
    wbegin                       the send loop took one item off the queue, got as far as self._socket.write(payload)
                                 and the call blocks (slow peer; the generator stalled the fake socket).  The bytes
                                 have been handed over: the frame is listed under `frames written` of this step.
    wend                         the blocked write call returns
    quiet                        (not a step of the code) the harness found nothing runnable: every spawned callback
                                 has run, the send loop waits in queue.get() or inside the blocked write
    ping                         harness calls _SendPingMessage (as the ping loop does)
    reopen                       at a quiescent point the sink is closed and a fresh transport sink is opened on a
                                 fresh connection (a closed sink object cannot be re-opened: its loops see the state
                                 still Closed and exit at once; the real stack always builds a new sink)

Observation after each: (result assigned-tag (frames written) (request ids answered) (tag-map keys) (free set) next
send-queue-length).
Frames are decoded from the bytes the real sink wrote to the fake socket: (req tag rid) | (discard 0 tag) | (ping 1 0).

Script vocabulary (what the generator controls; the labels above are what the real run then did):
    [req kind]            issue a request                 [fire k]      signal the deadline of request k
    [ans k mtype]         peer frame for request k's tag  [peer mtype tag]  peer frame on a raw tag
    [early kind mtype]    peer frame for the tag the next request is about to get, read before that
                          request is written (one yield in between), then the request
    [ping]  [reopen]      [D] run the loop until idle     [Y] one yield (callbacks already queued run)
    [stall]               the next write call of the send loop blocks (after handing its bytes over)
    [W]                   the blocked write call may return (the send-loop greenlet resumes at the next yield)

Aged connections (script key 'aged': {'next': N, 'free': [t, ...]}; cfg line `<max> <flavour> <next> <free...>`).
A fresh TagPool starts at _next = 1, so every tag of a script on a fresh connection fits in one byte.  With 'aged'
the REAL pool of the freshly opened sink is first brought into the state (high-water mark N, released tags `free`)
through its own get() / release() calls — N - 1 times get(), then release(t) for each t — exactly what earlier
traffic on a long-lived connection would have done; the tags handed out and not released stay out for the whole
script (calls in flight / timed-out calls whose Tdiscarded the peer never answered).  The Lean model starts from the
same pool state (Adapter/TagPool.lean: Cfg.next, Cfg.free, initSt, Acc.init; hypothesis Pool.wf).  The generator
releases tags that differ in ONE tag byte only (2 & 258 & 65538, 256 & 65792, 0x010203 & 0x010303 ...), so that
such tags are in flight together, answered, timed out and discarded; peer frames then also name the byte-twins
of the tags in flight.  A re-open gives a fresh sink with a fresh pool (as in the real stack).
"""
from struct import pack, unpack

from lib import vfmt

PROPERTY = 'C11'
import isolation as _iso
ISOLATION = [(n, getattr(_iso, n)) for n in ['tag_pool']]      # instance-isolation obligation (harness/isolation.py)
SOURCE_SITES = [
    dict(name='genExhausted', file='scales/mux/sink.py', func='TagPool.get', kind='cond',
         marker='self._next == self._max_tag',
         varmap={'self._next': 'next', 'self._max_tag': 'maxTag'}, params=['next', 'maxTag'],
         obligation='theorem genExhausted_eq (next maxTag : Int) : genExhausted next maxTag = decide (next + 1 = maxTag) := by\n'
                    '  unfold genExhausted; congr 1; apply propext; constructor <;> intro h <;> omega'),
]
SOURCE_IMPORTS = ['ScalesModel.Model.TagPool']
SOURCE_CONSTANTS = {
    'Scales.TagPool.Pool.init.next': ('from scales.mux.sink import TagPool', "TagPool(10, 's', 'h')._next"),
    'Scales.TagPool.Pool.init.free.length': ('from scales.mux.sink import TagPool', "len(TagPool(10, 's', 'h')._set)"),
}
COMPONENT = 'tagpool'
QUICK = dict(gen=1600)
THOROUGH = dict(gen=40000)

REAL_MAX = (1 << 24) - 1
JUNK = 99999999          # canonical form of a non-integer "tag" found in the pool or the tag map

TRUSTED = ['fake socket harness/fakenet.py (peer bytes fed by the generator; write is atomic and non-yielding unless the '
           'generator stalls it: then the call hands its bytes over and blocks on a gevent Event until released)',
           'logging subclasses of gevent.queue.Queue (send-step boundaries), scales.observable.Observable '
           '(timeout callback boundaries) and of the transport sink (_ProcessReply boundary) substituted at run time']
ASSUMPTIONS = ['an aged connection is represented by its pool state (high-water mark, released tags); the tags handed out '
               'before the script and not released are not in the tag map and are never released during the script (a '
               'peer frame naming one of them is a frame on an unknown tag)',
               'both transport sinks built on MuxSocketTransportSink are driven: ThriftMux SocketTransportSink and '
               'KafkaTransportSink (about a third of the scripts; Kafka replies are fed as size + correlation id)',
               'Close/re-open is issued at quiescent points only (closing races belong to C08)',
               'virtual time never advances inside a script, so the 30-40 s ping loop and the 5 s ping time-out do '
               'not fire; pings are issued by the generator through _SendPingMessage']
RULE = ('scripts drawn from the seeded generator; distinct = distinct (cfg, op list) as executed (labels in real '
        'order); non-trivial = the run reaches at least one of: tag reuse, request dropped unsent, Tdiscarded after '
        'transmission, answer before transmission, peer frame on a reserved/unknown/already-answered tag, pool '
        'exhaustion, re-open, a blocked write with a deadline expiring / an answer arriving / requests queueing '
        'during it; about a quarter of the scripts start on an AGED connection (the real pool brought to a high-water '
        'mark past 2^8 / 2^16 with released tags that differ in one tag byte, through its own get()/release()) — tags '
        'aged-*')

MTYPES = [-2, -2, -2, -128, 127, -65, -66, 2, 66, 65, 0, 1, -1, 68, -68, 64, -64]


# ------------------------------------------------------------------ generation
AGED_SHARE = 0.25       # share of the generated scripts that run on an aged connection
AGED_CAP = 0x20100      # ageing costs one real get() per tag below the high-water mark (~1.5 us each)


def _side_rng(rng):
    """the generator for everything that concerns ageing, derived from the state of the main generator without
    drawing from it: the script stream of a seed is the one it was before aged connections existed (a fresh script
    stays what it was, an aged one is that script on an aged connection), so cases that earlier runs and the
    seeded-change regressions relied on are still produced — also in C02 / C12, which interleave these scripts
    with those of other components on one generator"""
    import random
    st = rng.getstate()[1]
    return random.Random('%d/%d/%d/%d' % (st[-1], st[st[-1] % 624], st[0], st[311]))


def _twins(t):
    """tags that differ from t in one tag byte, or that a sloppy 3-byte codec would confuse with t"""
    out = {t ^ 0x100, t ^ 0x10000, t ^ 0x10100, t ^ 0x1, t & 0xffff, t & 0xff00ff, t & 0xff, t ^ 0x800000,
           t & 0x7fffff, t ^ 0x400000,
           ((t >> 16) << 8) | (t & 0xffff), ((t >> 16) << 8) | (t & 0xff), (t >> 8) & 0xffff, t >> 8, t >> 16,
           (t & 0xff0000) | ((t >> 16 & 0xff) << 8) | (t & 0xff), (t << 8) & 0xffffff, t | 0x10000, t | 0x100}
    return sorted(x for x in out if x != t and 0 <= x < (1 << 24))


def gen_aged(rng, mx=None):
    """the starting pool of a long-lived connection: high-water mark and released tags.  Families of tags that
    agree in two of their three bytes are released together, so the next requests hold them at the same time."""
    if mx is not None:
        # small pool: any state 1 <= next < max with some of the tags 2..next released
        nxt = rng.randrange(2, mx)
        pop = list(range(2, nxt + 1))
        rng.shuffle(pop)
        return {'next': nxt, 'free': sorted(pop[:rng.randrange(0, len(pop) + 1)])}
    b = rng.choice([2, 2, 3, 5, 0x7f, 0x80, 0xff, rng.randrange(2, 256)])
    fam = rng.choice([
        [b, b + 0x100, b + 0x10000],
        [b, b + 0x100, b + 0x10000, b + 0x10100],
        [0x100, 0x10000, 0x10100],
        [0x100, 0x101, 0x102, 0x10000, 0x10001, 0x10002, 0x201, 0x10201],
        [0x010203, 0x010303, 0x020203, 0x010204, 0x0203, 0x0103],
        [0x100 + b, 0x200 + b, 0x300 + b],                      # second byte only: a cheap, two-byte history
        [0xff, 0x100, 0xffff, 0x10000],                         # byte boundaries
        [b + 0x10000, b + 0x20000, (b << 8), 0x20000],
        [rng.randrange(2, 1 << 17) for _ in range(rng.choice([2, 4, 6]))],
    ])
    far = rng.random() < 0.15
    if far:
        # a very old connection: tags that need the top bits of the third byte, next to their twins below 2^23,
        # and the last tags the pool can give (high-water marks past AGED_CAP are reached by assigning the counter)
        fam = rng.choice([
            [b, b + 0x800000, b + 0x800001],
            [b, b + 0x400000, b + 0x800000, b + 0xc00000],
            [0x7fffff, 0x800000, 0x800001, 2, 3],
            [b + 0x800000, b + 0x800100, b + 0x810000, b, b + 0x100],
            [0xfffffb, 0xfffffc, b],
        ])
    fam = sorted(set(t for t in fam if 2 <= t <= (REAL_MAX - 1 if far else AGED_CAP)))
    if far:
        hi = max(fam)
        return {'next': rng.choice([hi, hi + 1, hi + 2, REAL_MAX - 3, REAL_MAX - 2]) if hi < REAL_MAX - 3
                else rng.choice([REAL_MAX - 3, REAL_MAX - 2]), 'free': fam}
    if rng.random() < 0.3:
        fam = fam[:max(2, len(fam) - rng.randrange(0, 3))]
    hi = max(fam)
    nxt = rng.choice([hi, hi + 1, hi + rng.randrange(0, 300), max(hi, 0x010203), max(hi, 0xffff), max(hi, 0x10000),
                      max(hi, 0xff), max(hi, 0x100)])
    if rng.random() < 0.12:
        fam = []                     # nothing released: the next tag is fresh, next + 1 (0x100, 0x10000, 0x010204 ...)
        nxt = rng.choice([0xfe, 0xff, 0x100, 0xfffe, 0xffff, 0x10000, 0x010203, 0x1ffff])
    return {'next': nxt, 'free': fam}


def _aged_peer_tag(rng, aged, default):
    """a raw peer tag for an aged script: mostly byte-twins of the released tags (which the requests then hold)"""
    if not aged or rng.random() < 0.3:
        return default
    base = aged['free'] + [aged['next'], aged['next'] + 1, aged['next'] + 2]
    t = rng.choice(base)
    return rng.choice(_twins(t) + [t])


def gen_script(rng, tier):
    small = rng.random() < 0.25
    mx = rng.choice([3, 4, 5, 6, 8]) if small else None
    flavour = 'kafka' if rng.random() < 0.35 else 'thriftmux'
    arng = _side_rng(rng)
    aged = gen_aged(arng, mx) if arng.random() < AGED_SHARE else None
    big = [1 << 31, (1 << 32) - 1, (1 << 31) - 1] if flavour == 'kafka' else []
    n = rng.choice([6, 12, 20, 30, 45] if tier != 'thorough' else [6, 12, 20, 30, 45, 80, 150])
    p_drain = rng.choice([0.1, 0.25, 0.5])
    adversarial = rng.random() < 0.6
    slow = rng.random() < 0.4      # the peer is slow now and then: write calls of the send loop block
    ops = []
    nreq = 0
    evs = []        # rids having an unfired event
    for _ in range(n):
        x = rng.random()
        if x < 0.30 or nreq == 0:
            kind = rng.choice(['noev', 'ev', 'ev', 'ev', 'pre'])
            ops.append(['req', kind])
            if kind == 'ev':
                evs.append(nreq)
            nreq += 1
        elif x < 0.42 and evs:
            k = evs.pop(rng.randrange(len(evs)))
            ops.append(['fire', k])
        elif x < 0.70:
            # answer some request (recent ones more often); duplicates and early answers arise naturally
            k = max(0, nreq - 1 - int(rng.expovariate(0.6)))
            mt = -2 if rng.random() < 0.7 else rng.choice(MTYPES)
            ops.append(['ans', k, mt])
        elif x < 0.80 and adversarial:
            tag = rng.choice([0, 1, 1, 1, 2, 3, 4, 5, 6, 7, rng.randrange(2, 40), rng.randrange(0, 1 << 24),
                              REAL_MAX, REAL_MAX - 1] + big)
            mt = rng.choice(MTYPES) if rng.random() < 0.8 else rng.randrange(-128, 128)
            ops.append(['peer', mt, _aged_peer_tag(arng, aged, tag)])
        elif x < 0.83:
            ops.append(['ping'])
        elif x < 0.88:
            # the peer answers the tag the next request is about to get, and the reply is read before
            # that request is written
            ops.append(['early', rng.choice(['noev', 'ev', 'ev', 'pre']), -2 if rng.random() < 0.7 else rng.choice(MTYPES)])
            if ops[-1][1] == 'ev':
                evs.append(nreq)
            nreq += 1
        elif x < 0.91:
            ops.append(['Y'])
        elif x < 0.93 and adversarial:
            ops.append(['reopen'])
            nreq, evs = 0, []
        elif x < 0.96 and slow:
            ops.append(['stall'] if rng.random() < 0.6 else ['W'])
        else:
            ops.append(['D'])
        if rng.random() < p_drain:
            ops.append(['D'])
    return _with_age({'max': mx, 'flavour': flavour, 'ops': ops}, aged)


def _with_age(script, aged):
    if aged:
        script['aged'] = aged
    return script


def gen_script_focus(rng, tier, focus):
    """the same vocabulary, biased: `replies` — several requests in flight, answered out of order, twice, early,
    on foreign tags (C02, multiplexed hop); `timeouts` — deadline events before and after transmission, the
    Tdiscarded that follows, answers racing the time-out callback (C12, multiplexed hop)"""
    mx = rng.choice([None, None, None, 6, 8])
    flavour = 'kafka' if rng.random() < 0.35 else 'thriftmux'
    arng = _side_rng(rng)
    aged = gen_aged(arng, mx) if arng.random() < AGED_SHARE else None
    ops = []
    nreq = 0
    pending = []      # rids with an unfired event
    live = []         # rids believed unanswered
    rounds = rng.choice([2, 3, 5] if tier != 'thorough' else [3, 5, 9])
    for _ in range(rounds):
        if focus == 'replies':
            k = rng.choice([2, 3, 4, 6])
            for _ in range(k):
                kind = rng.choice(['noev', 'noev', 'ev'])
                if rng.random() < 0.15:
                    ops.append(['early', kind, -2])
                else:
                    ops.append(['req', kind])
                if kind == 'ev':
                    pending.append(nreq)
                live.append(nreq)
                nreq += 1
                if rng.random() < 0.3:
                    ops.append(rng.choice([['D'], ['Y']]))
            if rng.random() < 0.8:
                ops.append(['D'])
            order = list(live)
            rng.shuffle(order)
            for r in order:
                x = rng.random()
                if x < 0.75:
                    ops.append(['ans', r, -2 if rng.random() < 0.8 else rng.choice(MTYPES)])
                    live.remove(r)
                    if rng.random() < 0.25:
                        ops.append(['ans', r, -2])          # the same answer again
                elif x < 0.85:
                    ops.append(['peer', -2, _aged_peer_tag(arng, aged, rng.choice([0, 1, 2, 3, 4, 5, 9, 77]))])
                elif x < 0.92 and pending:
                    ops.append(['fire', pending.pop(rng.randrange(len(pending)))])
                if rng.random() < 0.35:
                    ops.append(rng.choice([['D'], ['Y']]))
            ops.append(['D'])
        elif rng.random() < 0.4:
            # the deadline relative to a write that blocks: requests queue up behind the blocked frame, deadlines
            # expire (of the frame being written, of queued ones), answers arrive, then the write returns
            ops.append(['stall'])
            k = rng.choice([1, 1, 2, 3])
            batch = []
            for _ in range(k):
                kind = rng.choice(['ev', 'ev', 'ev', 'noev'])
                ops.append(['req', kind])
                if kind == 'ev':
                    pending.append(nreq)
                batch.append(nreq)
                live.append(nreq)
                nreq += 1
                if rng.random() < 0.5:
                    ops.append(rng.choice([['D'], ['Y']]))
            ops.append(rng.choice([['D'], ['D'], ['Y']]))
            during = []
            for r in batch:
                if r in pending and rng.random() < 0.7:
                    during.append(['fire', r])
                    pending.remove(r)
                if rng.random() < 0.2:
                    during.append(['ans', r, -2])
            if rng.random() < 0.3:
                during.append(['req', 'noev'])
                live.append(nreq)
                nreq += 1
            if rng.random() < 0.2:
                during.append(['stall'])
            rng.shuffle(during)
            for o in during:
                ops.append(o)
                if rng.random() < 0.5:
                    ops.append(rng.choice([['D'], ['Y']]))
            ops.append(['W'])
            if rng.random() < 0.3:
                for r in list(pending):
                    if r in batch and rng.random() < 0.5:
                        ops.append(['fire', r])       # before the send loop gets to run again
                        pending.remove(r)
            ops.append(['D'])
            if rng.random() < 0.5:
                ops.append(['W'])
                ops.append(['D'])
            for r in list(live):
                if rng.random() < 0.4:
                    ops.append(['ans', r, rng.choice([-2, -66, -128])])
                    live.remove(r)
            ops.append(['D'])
        else:
            k = rng.choice([1, 2, 3, 4])
            batch = []
            for _ in range(k):
                kind = rng.choice(['ev', 'ev', 'ev', 'pre', 'noev'])
                ops.append(['req', kind])
                if kind == 'ev':
                    pending.append(nreq)
                batch.append(nreq)
                live.append(nreq)
                nreq += 1
            # deadline before transmission: fire in the same batch as the request
            for r in list(pending):
                if rng.random() < 0.35:
                    ops.append(['fire', r])
                    pending.remove(r)
            ops.append(rng.choice([['D'], ['D'], ['Y']]))
            # deadline after transmission; the answer may race the callback
            for r in list(pending):
                x = rng.random()
                if x < 0.5:
                    ops.append(['fire', r])
                    pending.remove(r)
                    y = rng.random()
                    if y < 0.25:
                        ops.append(['ans', r, -2])          # reply processed before the time-out callback
                    elif y < 0.4:
                        ops.append(['Y'])
                        ops.append(['ans', r, -2])
                    if rng.random() < 0.6:
                        ops.append(['D'])
            ops.append(['D'])
            for r in list(live):
                if rng.random() < 0.5:
                    ops.append(['ans', r, rng.choice([-2, -66, -66, -128])])    # e.g. Rdiscarded
                    live.remove(r)
                elif aged and arng.random() < 0.3:
                    # the peer acknowledges a discard / answers on a byte-twin of a tag of this connection
                    ops.append(['peer', arng.choice([-2, -66]), _aged_peer_tag(arng, aged, 3)])
            if rng.random() < 0.15:
                ops.append(['ping'])
            ops.append(['D'])
        if rng.random() < 0.08:
            ops.append(['reopen'])
            nreq, pending, live = 0, [], []
    return _with_age({'max': mx, 'flavour': flavour, 'ops': ops}, aged)


def exhaustive(tier, shard, shards):
    """every script of at most N steps over a small vocabulary (requests of the three deadline kinds, firing
    the latest pending deadline, answering the first / the latest request, peer frames on tags 1 and 3, an
    answer that overtakes its request, full drain, single yield), small pool and real pool, fresh and aged
    connection (on the aged ones tag 3 — the raw peer tag of the vocabulary — is a byte-twin of the tags in flight)"""
    nmax = 4 if tier == 'thorough' else 3
    k = [0]

    def rec(prefix, nreq, pending):
        if prefix:
            for mx in (None, 4):
                for flavour in ('thriftmux', 'kafka'):
                    k[0] += 1
                    if k[0] % shards == shard:
                        yield {'max': mx, 'flavour': flavour, 'ops': list(prefix)}
            # the same on an aged connection: tags that need the second byte (cheap to reach: every script), and
            # tags that need the third byte next to one-byte ones (scripts of at most two steps)
            k[0] += 1
            if k[0] % shards == shard:
                yield {'max': None, 'flavour': 'thriftmux', 'ops': list(prefix),
                       'aged': {'next': 0x0203, 'free': [3, 0x103, 0x203]}}
            if len(prefix) <= 2:
                k[0] += 1
                if k[0] % shards == shard:
                    yield {'max': None, 'flavour': 'thriftmux', 'ops': list(prefix),
                           'aged': {'next': 0x10103, 'free': [3, 0x103, 0x10003]}}
        if len(prefix) >= nmax:
            return
        for kind in ('noev', 'ev', 'pre'):
            for y in rec(prefix + [['req', kind]], nreq + 1, pending + ([nreq] if kind == 'ev' else [])):
                yield y
        for y in rec(prefix + [['early', 'ev', -2]], nreq + 1, pending + [nreq]):
            yield y
        if pending:
            for y in rec(prefix + [['fire', pending[-1]]], nreq, pending[:-1]):
                yield y
        if nreq:
            for y in rec(prefix + [['ans', nreq - 1, -2]], nreq, pending):
                yield y
            if nreq > 1:
                for y in rec(prefix + [['ans', 0, -2]], nreq, pending):
                    yield y
        for tag in (1, 3):
            for y in rec(prefix + [['peer', -2, tag]], nreq, pending):
                yield y
        for o in (['D'], ['Y']):
            if prefix and prefix[-1] != o:
                for y in rec(prefix + [o], nreq, pending):
                    yield y

    for y in rec([], 0, []):
        yield y
    for ops in _midwrite_cases(tier):
        for flavour in ('thriftmux', 'kafka'):
            k[0] += 1
            if k[0] % shards == shard:
                yield {'max': None, 'flavour': flavour, 'ops': ops}


def _midwrite_cases(tier):
    """the write as a yield point: request 0 (with a deadline) blocks in its write; then every sequence of at most
    N of {its deadline fires, the peer answers it, another request (with a deadline) is issued, that one's deadline
    fires, run until idle, one yield, the write returns} in which the write returns exactly once; then drain"""
    import itertools
    n = 5 if tier == 'thorough' else 4
    vocab = [['fire', 0], ['ans', 0, -2], ['req', 'ev'], ['fire', 1], ['D'], ['Y'], ['W']]
    for first in (['D'], ['Y']):
        for ln in range(1, n + 1):
            for seq in itertools.product(range(len(vocab)), repeat=ln):
                ops = [vocab[i] for i in seq]
                if sum(1 for o in ops if o == ['W']) != 1:
                    continue
                if sum(1 for o in ops if o == ['fire', 0]) > 1 or sum(1 for o in ops if o == ['fire', 1]) > 1:
                    continue
                if sum(1 for o in ops if o == ['req', 'ev']) > 1 or sum(1 for o in ops if o[0] == 'ans') > 1:
                    continue
                if ['fire', 1] in ops and (['req', 'ev'] not in ops or ops.index(['fire', 1]) < ops.index(['req', 'ev'])):
                    continue
                if any(ops[i] == ops[i + 1] for i in range(len(ops) - 1) if ops[i] in (['D'], ['Y'])):
                    continue
                yield [['stall'], ['req', 'ev']] + [first] + [list(o) for o in ops] + [['D']]


def shrink(script):
    ops = script['ops']
    for i in range(len(ops)):
        op = ops[i]
        rest = ops[:i] + ops[i + 1:]
        if op[0] in ('req', 'early'):
            j = sum(1 for o in ops[:i] if o[0] in ('req', 'early'))
            new = []
            for o in rest:
                if o[0] in ('fire', 'ans'):
                    if o[1] == j:
                        continue
                    if o[1] > j:
                        o = [o[0], o[1] - 1] + o[2:]
                new.append(o)
            rest = new
        yield dict(script, ops=rest)
    aged = script.get('aged')
    if aged:
        # a younger connection: fewer released tags, a lower high-water mark, no history at all
        free = list(aged['free'])
        for i in range(len(free)):
            yield dict(script, aged=dict(aged, free=free[:i] + free[i + 1:]))
        low = max(free + [1])
        if aged['next'] > low:
            yield dict(script, aged=dict(aged, next=low))
        bare = dict(script)
        del bare['aged']
        yield bare
    if script['max'] is None or aged:
        return
    yield dict(script, max=None)


# ------------------------------------------------------------------ running the real code
HOOK = [None]
_INSTALLED = [False]


def _install():
    """substitute the logging Queue in the module namespace of the code under test (once per process)"""
    if _INSTALLED[0]:
        return
    import scales.mux.sink as muxsink
    from gevent.queue import Queue

    class LoggingQueue(Queue):
        def get(self, *a, **kw):
            h = HOOK[0]
            if h is not None:
                h.send_step_end(self)
            item = Queue.get(self, *a, **kw)
            h = HOOK[0]
            if h is not None:
                h.send_step_begin(self)
            return item

    muxsink.Queue = LoggingQueue
    _INSTALLED[0] = True


def _canon(t):
    if isinstance(t, int) and not isinstance(t, bool) and 0 <= t < JUNK:
        return t
    return JUNK


def run_script(script):
    import rt
    import gevent
    from gevent.event import Event
    import fakenet
    _install()
    from scales.thriftmux.sink import SocketTransportSink
    from scales.kafka.sink import KafkaTransportSink
    from scales.mux.sink import Tag, TagPool
    from scales.message import MethodCallMessage, Deadline
    from scales.observable import Observable
    from scales.constants import TransportHeaders, ChannelState
    from scales.compat import BytesIO

    fakenet.NET = fakenet.Net()
    srv = fakenet.NET.server('h1', 9001)
    peer = {'auto_pong': True}

    def on_connect(conn):
        buf = bytearray()

        def on_write(c, data):
            if not peer['auto_pong']:
                return
            buf.extend(data)
            while len(buf) >= 4:
                sz, = unpack('!i', bytes(buf[:4]))
                if len(buf) < 4 + sz:
                    break
                frame = bytes(buf[4:4 + sz])
                del buf[:4 + sz]
                if frame[0] == 65:
                    c.feed(pack('!ib', 4, -65) + frame[1:4])
        conn.on_write = on_write
    srv.on_connect = on_connect

    steps, recs, tags = [], [], set()
    mx = script.get('max') or REAL_MAX
    kafka = script.get('flavour') == 'kafka'
    aged = script.get('aged') or None
    if aged:
        aged = {'next': int(aged['next']), 'free': [int(t) for t in aged['free']]}

    class Rec(object):
        active = False
        in_send = False
        delivered = []
        wpos = 0
        sink = None
        stall = 0            # number of upcoming write calls of the send loop that block
        blocked = None       # the Event the blocked write call waits on

    rec = Rec()

    class GateSocket(fakenet.FakeScalesSocket):
        """write() hands the bytes to the peer; when the generator stalled the socket, the call then blocks
        (the send-loop greenlet is parked inside self._socket.write) until the generator releases it"""

        def write(self, buff):
            fakenet.FakeScalesSocket.write(self, buff)
            if not rec.active or rec.sink is None or rec.sink.__dict__.get('_socket') is not self or rec.stall <= 0:
                return
            rec.stall -= 1
            ev = rec.blocked = Event()
            rec.in_send = False
            emit(['wbegin'])
            try:
                ev.wait()
            finally:
                rec.blocked = None
            emit(['wend'])

    class LoggedObservable(Observable):
        def __init__(self, rid):
            Observable.__init__(self)
            self.rid = rid

        def Subscribe(self, callback, one_shot=False):
            rid = self.rid

            def wrapped(value):
                try:
                    return callback(value)
                finally:
                    emit(['notify', rid])
            return Observable.Subscribe(self, wrapped, one_shot)

    class LoggedSink(SocketTransportSink):
        def _ProcessReply(self, stream):
            data = stream.getvalue()
            try:
                return SocketTransportSink._ProcessReply(self, stream)
            finally:
                if self is rec.sink and len(data) >= 4:
                    typ, = unpack('!b', data[0:1])
                    emit(['process', typ, int.from_bytes(data[1:4], 'big')])

    class LoggedKafkaSink(KafkaTransportSink):
        def _ProcessReply(self, stream):
            data = stream.getvalue()
            try:
                return KafkaTransportSink._ProcessReply(self, stream)
            finally:
                if self is rec.sink and len(data) >= 4:
                    # the correlation id as an unsigned number (the code reads it signed: a value >= 2^31
                    # is a negative id there, unknown to the tag map either way)
                    emit(['process', 0, int.from_bytes(data[0:4], 'big')])

    def conn():
        return srv.conns[-1]

    def feed_frame(mt, tag):
        if kafka:
            conn().feed(pack('!iI', 4, tag & 0xffffffff))
        else:
            conn().feed(pack('!ibBBB', 4, mt, tag >> 16 & 255, tag >> 8 & 255, tag & 255))

    def frames_written():
        c = conn()
        out = []
        for _, data in c.written[rec.wpos:]:
            if kafka:
                # size, api key, api version, correlation id (= the tag), client id, then the body
                if len(data) < 14:
                    out.append(('other', 0, len(data)))
                    continue
                sz, apikey, apiver, corr, clen = unpack('!ihhih', data[:14])
                body = data[14 + max(clen, 0):]
                if apikey == 0 and apiver == 0 and sz == len(data) - 4 and len(body) == 4:
                    out.append(('req', corr & 0xffffffff, unpack('!i', body)[0]))
                else:
                    out.append(('other', corr & 0xffffffff, apikey & 0xff))
                continue
            if len(data) < 8:
                out.append(('other', 0, len(data)))
                continue
            sz, typ, t0, t1, t2 = unpack('!ibBBB', data[:8])
            tag = (t0 << 16) | (t1 << 8) | t2
            body = data[8:]
            if typ == 2 and len(body) == 4:
                out.append(('req', tag, unpack('!i', body)[0]))
            elif typ == 66 and len(body) >= 3:
                out.append(('discard', tag, int.from_bytes(body[:3], 'big')))
            elif typ == 65:
                out.append(('ping', tag, 0))
            else:
                out.append(('other', tag, typ & 0xff))
        rec.wpos = len(c.written)
        return out

    def snapshot(res, assigned):
        sink = rec.sink
        pool = sink._tag_pool
        keys = sorted(_canon(t) for t in sink._tag_map.keys())
        free = sorted(_canon(t) for t in pool._set)
        fr = frames_written()
        dl, rec.delivered = rec.delivered, []
        return [res, assigned, fr, dl, keys, free, _canon(pool._next), sink._send_queue.qsize()]

    def push(op, obs):
        recs.append((op, obs))
        steps.append([' '.join(str(x) for x in op), vfmt(obs)])

    def emit(op, res='ok', assigned=0):
        if not rec.active:
            return
        if rec.in_send and op[0] != 'send':
            # a send step that never came back to Queue.get (the loop left through an exception)
            rec.in_send = False
            push(['send'], snapshot('ok', 0))
        push(op, snapshot(res, assigned))

    class Hook(object):
        def send_step_begin(self, q):
            if rec.sink is not None and q is rec.sink.__dict__.get('_send_queue'):
                rec.in_send = True

        def send_step_end(self, q):
            if rec.in_send:
                rec.in_send = False
                emit(['send'])

    HOOK[0] = Hook()

    class Stack(object):
        def __init__(self, sink, rid):
            self.sink, self.rid = sink, rid

        def _got(self):
            if self.sink is rec.sink:
                rec.delivered.append(self.rid)

        def AsyncProcessResponseStream(self, stream):
            self._got()

        def AsyncProcessResponseMessage(self, msg):
            self._got()

        def AsyncProcessResponse(self, stream, msg):
            self._got()

    def open_sink():
        """a fresh transport sink on a fresh connection (the real stack never re-opens a closed sink object)"""
        rec.active = False
        if rec.sink is not None:
            rec.sink.Close()
            rt.drain()
        peer['auto_pong'] = True
        sink = (LoggedKafkaSink if kafka else LoggedSink)(GateSocket('h1', 9001), 'svc')
        rec.sink = sink
        sink.Open()
        rt.drain()
        if sink.state != ChannelState.Open:
            raise RuntimeError('sink did not open')
        peer['auto_pong'] = False
        if mx != REAL_MAX:
            sink._tag_pool = TagPool(mx, 'svc', 'h1:9001')
        rec.wpos = len(conn().written)
        rec.delivered = []
        rec.in_send = False
        rec.stall = 0
        rec.blocked = None
        rec.active = True

    def age_pool(pool):
        """bring the REAL pool into the aged state the way traffic would: `next - 1` leases through get() (tags
        2 .. next, the free set being empty meanwhile), then release() of the tags that came back"""
        for _ in range(min(aged['next'], AGED_CAP) - 1):
            pool.get()
        if aged['next'] > AGED_CAP:
            # millions of further leases: the counter is assigned (what that many get() calls on an empty free set do)
            pool._next = aged['next']
        for t in aged['free']:
            pool.release(t)

    try:
        open_sink()
        if aged:
            age_pool(rec.sink._tag_pool)
        reqs = []      # per request id: dict(tag, ev, fired)
        for op in script['ops']:
            kind = op[0]
            sink = rec.sink
            if kind == 'early':
                pool = sink._tag_pool
                guess = _canon(next(iter(pool._set)) if pool._set else pool._next + 1)
                if guess < (1 << 24):
                    feed_frame(op[2], guess)
                    gevent.sleep(0)
                kind = 'req'
            if kind == 'req':
                rid = len(reqs)
                msg = MethodCallMessage(None, 'm', [], {})
                ev = None
                if op[1] in ('ev', 'pre'):
                    ev = LoggedObservable(rid)
                    if op[1] == 'pre':
                        rt.fire_deadline(ev)
                    msg.properties[Deadline.EVENT_KEY] = ev
                stream = BytesIO()
                stream.write(pack('!i', rid))
                free_before = len(sink._tag_pool._set)
                tag = None
                try:
                    sink.AsyncProcessRequest(Stack(sink, rid), msg, stream,
                                             {TransportHeaders.MessageType: 0 if kafka else 2})
                    tag = _canon(msg.properties.get(Tag.KEY))
                    res = 'ok'
                except Exception as ex:
                    res = 'exhausted' if str(ex) == 'No tags left in pool.' else 'raised'
                reqs.append({'tag': tag if res == 'ok' else None, 'ev': ev, 'fired': op[1] == 'pre'})
                popped = tag if (free_before and res == 'ok') else 0
                emit(['req', op[1], popped], res, tag if res == 'ok' else 0)
            elif kind == 'fire':
                k = op[1]
                if k < len(reqs) and reqs[k]['ev'] is not None and not reqs[k]['fired']:
                    reqs[k]['fired'] = True
                    rt.fire_deadline(reqs[k]['ev'])
                    emit(['fire', k])
            elif kind in ('ans', 'peer'):
                if kind == 'ans':
                    k, mt = op[1], op[2]
                    if k >= len(reqs) or reqs[k]['tag'] is None or reqs[k]['tag'] >= (1 << 24):
                        continue
                    tag = reqs[k]['tag']
                else:
                    mt, tag = op[1], op[2]
                feed_frame(mt, tag)
            elif kind == 'ping':
                if not kafka and getattr(sink, '_ping_ar', None) is None:
                    sink._SendPingMessage()
                    emit(['ping'])
            elif kind == 'reopen':
                rt.drain()
                if rec.in_send:
                    rec.in_send = False
                    emit(['send'])
                open_sink()
                reqs = []
                emit(['reopen'])
            elif kind == 'D':
                rt.drain()
                emit(['quiet'])
            elif kind == 'Y':
                gevent.sleep(0)
            elif kind == 'stall':
                rec.stall += 1
            elif kind == 'W':
                if rec.blocked is not None:
                    rec.blocked.set()
        rt.drain()
        if rec.in_send:
            rec.in_send = False
            emit(['send'])
        emit(['quiet'])
        # a slow peer is not a dead peer: every blocked write eventually returns
        rec.stall = 0
        for _ in range(1000):
            if rec.blocked is None:
                break
            rec.blocked.set()
            rt.drain()
            emit(['quiet'])
    finally:
        rec.active = False
        HOOK[0] = None
        try:
            if rec.sink is not None:
                rec.sink.Close()
            rt.drain()
        except Exception:
            pass
    errs = rt.take_errors()
    # ThriftMux ping quirk, outside C11: an Rping processed between _SendPingMessage and the start of
    # the spawned _PingTimeoutHelper leaves _ping_ar = None, and the helper dies with AttributeError.
    quirk = [e for e in errs if e[0] == 'AttributeError' and "'NoneType' object has no attribute 'wait'" in e[1]]
    if quirk:
        tags.add('ping-helper-race')
        errs = [e for e in errs if e not in quirk]
    if errs:
        tags.add('hub-error')
        steps.append(['send', vfmt(['raised', 0, [], [], [], [], 0, 0])])
    _tag_case(recs, tags)
    tags.add('kafka' if kafka else 'thriftmux')
    cfg = ('%d kafka' % mx) if kafka else str(mx)
    if aged:
        tags.add('aged-connection')
        _tag_aged(recs, tags, aged)
        cfg = ' '.join(str(x) for x in [mx, 'kafka' if kafka else 'thriftmux', aged['next']] + aged['free'])
    return {'comp': COMPONENT, 'cfg': cfg, 'steps': steps, 'tags': sorted(tags)}


def _one_byte_apart(a, b):
    x = a ^ b
    return x != 0 and (x & ~0xff == 0 or x & ~0xff00 == 0 or x & ~0xff0000 == 0)


def _tag_aged(recs, tags, aged):
    """coverage of an aged script (up to its first re-open): which tag widths were handed out, whether tags that
    differ in one byte were in flight together, what happened to the wide tags"""
    if aged['next'] >= 0x100:
        tags.add('aged-next>=2^8')
    if aged['next'] >= 0x10000:
        tags.add('aged-next>=2^16')
    if aged['next'] >= 0x800000:
        tags.add('aged-next>=2^23')
    wide = set()        # tags >= 256 given to requests of this script
    timed_out = set()
    rid_tag = {}
    nreq = 0
    for op, obs in recs:
        res, assigned, frames, delivered, keys, free, nxt, qlen = obs
        k = op[0]
        if k == 'reopen':
            break
        if k == 'req':
            if res == 'ok':
                rid_tag[nreq] = assigned
                if assigned >= 0x100:
                    wide.add(assigned)
                    tags.add('aged-tag>=2^8-assigned')
                if assigned >= 0x10000:
                    tags.add('aged-tag>=2^16-assigned')
                if assigned > aged['next']:
                    tags.add('aged-fresh-tag-past-start')
            nreq += 1
        for f in frames:
            if f[0] == 'req' and f[1] >= 0x100:
                tags.add('aged-wide-tag-written')
            if f[0] == 'discard' and f[2] >= 0x100:
                tags.add('aged-wide-tag-discarded')
        if k == 'process':
            t = op[2]
            if delivered and t >= 0x100:
                tags.add('aged-wide-tag-answered')
            if not delivered and t not in (0, 1) and any(_one_byte_apart(t, x) for x in keys):
                tags.add('aged-peer-frame-on-byte-twin-of-tag-in-flight')
        if k == 'fire' and rid_tag.get(op[1], 0) >= 0x100 and rid_tag[op[1]] in keys:
            tags.add('aged-wide-tag-timed-out')
        if any(_one_byte_apart(a, b) for i, a in enumerate(keys) for b in keys[i + 1:]):
            tags.add('aged-byte-twins-in-flight')
        if len([t for t in keys if t >= 0x10000]) and len([t for t in keys if t < 0x100]):
            tags.add('aged-1-byte-and-3-byte-tags-in-flight')


def _tag_case(recs, tags):
    """coverage tags from the executed label sequence"""
    written = {}        # tag -> rid, request frames written and not answered since
    held = {}           # tag -> rid currently in the tag map (by our own bookkeeping of the observations)
    blocked_frame = []  # the request frame whose write is blocked
    in_write = [False]
    timed_out_in_write = set()
    for op, obs in recs:
        res, assigned, frames, delivered, keys, free, nxt, qlen = obs
        k = op[0]
        if in_write[0]:
            if k == 'req':
                tags.add('queued-behind-blocked-write')
            if k == 'fire':
                tags.add('timeout-during-some-write')
                if blocked_frame and blocked_frame[0][2] == op[1]:
                    tags.add('timeout-during-own-write')
                    timed_out_in_write.add(blocked_frame[0][1])
            if k == 'process' and blocked_frame and blocked_frame[0][1] == op[2]:
                tags.add('answer-during-own-write')
            if k == 'notify' and qlen:
                tags.add('discard-queued-behind-blocked-write')
        if k in ('send', 'wbegin'):
            for f in frames:
                if f[0] == 'discard' and f[2] in timed_out_in_write:
                    tags.add('discard-after-timeout-during-write')
        if k == 'req':
            if res == 'exhausted':
                tags.add('exhausted')
            elif res != 'ok':
                tags.add('raised')
            elif op[2]:
                tags.add('reuse')
            else:
                tags.add('fresh')
            if op[1] == 'pre':
                tags.add('deadline-already-passed')
        elif k == 'send':
            if not frames:
                tags.add('dropped-or-skipped-unsent')
            for f in frames:
                tags.add({'req': 'request-written', 'discard': 'discard-sent', 'ping': 'ping-sent'}.get(f[0], 'other-frame'))
                if f[0] == 'req':
                    written[f[1]] = f[2]
        elif k == 'wbegin':
            tags.add('write-blocked')
            blocked_frame[:] = [f for f in frames if f[0] == 'req'][:1]
            in_write[0] = True
            for f in frames:
                tags.add({'req': 'request-written', 'discard': 'discard-sent', 'ping': 'ping-sent'}.get(f[0], 'other-frame'))
                if f[0] == 'req':
                    written[f[1]] = f[2]
        elif k == 'wend':
            in_write[0] = False
            del blocked_frame[:]
        elif k == 'quiet':
            pass
        elif k == 'notify':
            tags.add('timeout-after-send')
            if not frames and qlen == 0:
                tags.add('timeout-callback-after-answer')
        elif k == 'process':
            t = op[2]
            if t in (0, 1):
                tags.add('frame-on-reserved-tag')
            elif delivered:
                if t in written:
                    tags.add('answer')
                else:
                    tags.add('answer-before-transmission')
            else:
                tags.add('frame-on-unknown-or-answered-tag')
            written.pop(t, None)
        elif k == 'reopen':
            tags.add('reopen')
            written.clear()
        if len(keys) >= 4:
            tags.add('concurrency>=4')


def nontrivial(case):
    t = set(case.get('tags', []))
    return bool(t & {'aged-byte-twins-in-flight', 'aged-wide-tag-answered', 'aged-wide-tag-discarded',
                     'reuse', 'dropped-or-skipped-unsent', 'discard-sent', 'answer-before-transmission',
                     'frame-on-reserved-tag', 'frame-on-unknown-or-answered-tag', 'exhausted', 'reopen',
                     'timeout-during-some-write', 'answer-during-own-write', 'queued-behind-blocked-write'})
