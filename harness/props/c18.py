"""C18 — varz: the real VarzReceiver / VarzAggregator (and the real MessageDispatcher over a mock
sink) driven with freshly constructed Source objects; exact integer / Fraction arithmetic."""
import zlib
from fractions import Fraction

from lib import vfmt

PROPERTY = 'C18'
COMPONENT = 'varz'
QUICK = dict(gen=1500)
THOROUGH = dict(gen=20000)

TYPES = ['gauge', 'rate', 'aggTimer', 'counter', 'avgTimer', 'avgRate']
TYPE_CODE = {'gauge': 1, 'rate': 2, 'aggTimer': 3, 'counter': 4, 'avgTimer': 5, 'avgRate': 6}
SHIPPED_PCTS = [[1, 2], [9, 10], [99, 100], [999, 1000], [9999, 10000]]
DISPATCH_METRICS = [[0, 'rate'], [1, 'rate'], [2, 'rate'], [3, 'avgTimer']]
DISPATCH_NAMES = {0: 'scales.MessageDispatcher.dispatch_messages',
                  1: 'scales.MessageDispatcher.success_messages',
                  2: 'scales.MessageDispatcher.exception_messages',
                  3: 'scales.MessageDispatcher.request_latency'}

TRUSTED = ['harness substitutes VarzReceiver.VARZ_PERCENTILES by Fractions, _MAX_PERCENTILE_SIZE by the '
           'generated cap, scales.varz.random by a scripted draw and scales.varz.LOW_RESOLUTION_TIME_SOURCE by a '
           'clock the script sets (whole seconds)',
           'dispatcher leg: the mapping "one call = dispatch_messages+1, request_latency sample, '
           'success|exception_messages+1" (harness/props/c18.py) is read off scales/dispatch.py by hand']
ASSUMPTIONS = ['integer amounts and samples; |sums| < 2^53 so the float accumulator of Aggregate is exact',
               'percentiles are fractions p/q with 0 <= p <= q (the shipped list is of that form)',
               'LOW_RESOLUTION_TIME_SOURCE.now takes whole-second values given by the script',
               'percentile metrics are aggregated with one source per (service, client) key; the float '
               'down-sampling of several reservoirs and the float mean are not compared',
               'every metric is used through the entry point of its type']
RULE = ('scripts drawn from the seeded generator (update sequences, sample streams, dispatcher runs); '
        'distinct = distinct (cfg, op list); non-trivial = an equal Source is constructed again for the same '
        'metric, or two different sources share an aggregation key, or a reservoir overflows, or a reservoir is '
        'aggregated when its last retained sample is MAX_AGG_AGE old or older, or the run goes through the real '
        'MessageDispatcher')


# ------------------------------------------------------------------ generation
def _gen_pcts(rng):
    if rng.random() < 0.4:
        return [list(p) for p in SHIPPED_PCTS]
    out = []
    for _ in range(rng.randrange(1, 6)):
        q = rng.choice([1, 2, 3, 4, 7, 10, 100, 1000, 10000])
        p = rng.choice([0, q, rng.randrange(0, q + 1), rng.randrange(0, q + 1)])
        out.append([p, q])
    return out


def _gen_source(rng):
    return [rng.choice([None, 0, 1]), rng.choice([0, 0, 1, None]), rng.choice([None, None, 0, 1]),
            rng.choice([None, None, 0])]


STEPS = [0, 0, 0, 0, 0, 1, 7, 100, 150, 299, 300, 301, 1000]


def gen_script(rng, tier):
    r = rng.random()
    if r < 0.12:
        return gen_dispatch(rng, tier)
    if r < 0.30:
        return gen_stream(rng, tier)
    if r < 0.45:
        return gen_stale(rng, tier)
    nm = rng.randrange(1, 5)
    metrics = [[i, rng.choice(TYPES)] for i in range(nm)]
    cap = rng.choice([1, 2, 3, 5, 1000])
    pool = []
    for _ in range(rng.randrange(1, 6)):
        pool.append(_gen_source(rng))
    # percentile metrics: one source per aggregation key
    uniq, seen = [], set()
    for s in pool:
        if (s[1], s[3]) not in seen:
            seen.add((s[1], s[3]))
            uniq.append(s)
    ops = []
    now = rng.choice([0, 0, 5, 1000])
    n = rng.randrange(3, 200 if tier == 'thorough' else 50)
    for _ in range(n):
        x = rng.random()
        m, t = rng.choice(metrics)
        now += rng.choice(STEPS)
        if x < 0.08:
            ops.append(['agg', sorted(rng.sample(range(nm), rng.randrange(1, nm + 1))), now])
        elif x < 0.2 and t not in ('avgTimer', 'avgRate'):
            ops.append(['get', m, list(rng.choice(pool))])
        elif t == 'gauge':
            ops.append(['set', m, list(rng.choice(pool)), rng.randrange(-50, 1000)])
        elif t in ('avgTimer', 'avgRate'):
            ops.append(['sample', m, list(rng.choice(uniq)), rng.randrange(-5, 2000), rng.random() < 0.5, now])
        else:
            ops.append(['inc', m, list(rng.choice(pool)), rng.choice([1, 1, 1, -1, 0, rng.randrange(-1000, 100000)])])
    ops.append(['agg', list(range(nm)), now + rng.choice(STEPS)])
    return {'kind': 'direct', 'metrics': metrics, 'cap': cap, 'pcts': _gen_pcts(rng), 'ops': ops,
            'assign_fields': rng.random() < 0.4}


def gen_stream(rng, tier):
    """one percentile metric, one or two sources with different keys, a stream of samples"""
    cap = rng.choice([1, 2, 3, 4, 8, 1000])
    n = rng.randrange(1, 3 * cap + 3) if cap < 1000 else rng.choice([1, 2, 3, 5, 10, 40, 200, 1000])
    if cap == 1000 and tier != 'thorough':
        n = min(n, 200)
    srcs = [[0, 0, 0, None]] + ([[0, 1, 0, None]] if rng.random() < 0.3 else [])
    spread = rng.choice([1, 3, 1000, 10 ** 6])
    ops = []
    now = 0
    slow = rng.random() < 0.3
    for _ in range(n):
        if slow:
            now += rng.choice([0, 0, 1, 30])
        ops.append(['sample', 0, list(rng.choice(srcs)), rng.randrange(0, spread + 1), rng.random() < 0.5, now])
        if rng.random() < 0.05:
            ops.append(['agg', [0], now])
    ops.append(['agg', [0], now + rng.choice([0, 0, 1, 299, 300])])
    return {'kind': 'direct', 'metrics': [[0, rng.choice(['avgTimer', 'avgRate'])]], 'cap': cap,
            'pcts': _gen_pcts(rng), 'ops': ops}


def gen_stale(rng, tier):
    """fill a reservoir past its cap, then cross the MAX_AGG_AGE boundary while the source keeps
    recording (retained and dropped samples) or stays idle, then aggregate"""
    cap = rng.choice([1, 2, 3, 5, 8, rng.choice([64, 64, 1000]) if tier == 'thorough' else 16])   # the shipped 1000 is also in the corpus
    srcs = [[0, 0, 0, None]] + ([[1, 1, None, None]] if rng.random() < 0.4 else [])
    base = rng.choice([1, 10, 1000])
    ops = []
    now = rng.choice([0, 7, 100000])
    for s in srcs:                                   # fill past the cap at the start time
        for _ in range(cap + rng.randrange(0, 4)):
            ops.append(['sample', 0, list(s), base + rng.randrange(0, 50), rng.random() < 0.5, now])
    for _ in range(rng.randrange(1, 4)):             # phases
        mode = rng.choice(['busy', 'busy', 'idle', 'dropped-only'])
        step = rng.choice([60, 100, 149, 150, 299, 300, 301])
        for _ in range(rng.randrange(1, 5)):
            now += step
            if mode != 'idle':
                s = srcs[0] if len(srcs) == 1 or rng.random() < 0.7 else srcs[1]
                keep = False if mode == 'dropped-only' else rng.random() < 0.7
                ops.append(['sample', 0, list(s), base + rng.randrange(0, 50), keep, now])
            if rng.random() < 0.4:
                ops.append(['agg', [0], now + rng.choice([0, 1, 299, 300])])
    ops.append(['agg', [0], now + rng.choice([0, 0, 1, 150, 299, 300, 301])])
    return {'kind': 'direct', 'metrics': [[0, rng.choice(['avgTimer', 'avgRate'])]], 'cap': cap,
            'pcts': _gen_pcts(rng), 'ops': ops}


def gen_dispatch(rng, tier):
    ncalls = rng.randrange(1, 120 if tier == 'thorough' else 25)
    methods = rng.randrange(1, 4)
    endpoints = rng.randrange(1, 4)
    calls = []
    for _ in range(ncalls):
        ep = rng.choice([None] + list(range(endpoints)) * 3)
        calls.append([rng.randrange(methods), ep, rng.random() < 0.7, rng.choice([0, 1, 5, 20]),
                      rng.random() < 0.3])   # last: endpoint handed over as a non-str object
    return {'kind': 'dispatch', 'service': rng.randrange(0, 3), 'calls': calls,
            'agg_every': rng.choice([1, 3, 7, 1000])}


def shrink(script):
    key = 'ops' if script['kind'] == 'direct' else 'calls'
    xs = script[key]
    n = len(xs)
    # halves first, then single removals
    for lo, hi in ((0, n // 2), (n // 2, n)):
        if hi - lo < n and hi > lo:
            s = dict(script)
            s[key] = xs[:lo] + xs[hi:]
            yield s
    for i in range(n):
        s = dict(script)
        s[key] = xs[:i] + xs[i + 1:]
        yield s
    if script['kind'] == 'direct' and len(script['pcts']) > 1:
        for i in range(len(script['pcts'])):
            s = dict(script)
            s['pcts'] = script['pcts'][:i] + script['pcts'][i + 1:]
            yield s


# ------------------------------------------------------------------ running the real code
class _Clock(object):
    """stands for scales.varz.LOW_RESOLUTION_TIME_SOURCE: `now` is set by the script"""
    def __init__(self):
        self.now = 0

    def Get(self):
        return self.now


class _Draw(object):
    """stands for the `random` module inside scales.varz: the reservoir's draw is scripted"""
    def __init__(self):
        self.keep = False
        self.calls = 0

    def random(self):
        self.calls += 1
        return 0.0 if self.keep else 0.99


def _name(prefix, i):
    return None if i is None else '%s%d' % (prefix, i)


def _unname(s):
    return None if s is None else int(s[1:])


class _Ep(object):
    """an endpoint object that is not a str (the dispatcher stringifies it)"""
    def __init__(self, s):
        self.s = s

    def __str__(self):
        return self.s


def run_script(script):
    import rt
    from scales import varz
    from scales.varz import Source, VarzReceiver, VarzAggregator
    kind = script['kind']
    dispatch = kind == 'dispatch'
    metrics = DISPATCH_METRICS if dispatch else script['metrics']
    cap = script.get('cap', 1000)
    pcts = script.get('pcts', SHIPPED_PCTS)
    names = dict(DISPATCH_NAMES) if dispatch else {m: 'verif.m%d' % m for m, _ in metrics}
    mtype = {m: t for m, t in reversed(metrics)}
    tags, steps = set(), []

    mk_count = [0]

    def mk(src):
        # every other source is filled in field by field after construction (the fields are public attributes); it is
        # equal to one built by the constructor from the same four values
        mk_count[0] += 1
        vals = dict(method=_name('m', src[0]), service=_name('s', src[1]),
                    endpoint=_name('e', src[2]), client_id=_name('c', src[3]))
        if script.get('assign_fields') and mk_count[0] % 2 == 0:
            tags.add('source-filled-by-assignment')
            s = Source()
            for k in ('client_id', 'endpoint', 'service', 'method'):
                setattr(s, k, vals[k])
            return s
        return Source(**vals)

    def exact_int(x):
        f = Fraction(x)
        if f.denominator != 1:
            raise ValueError('non-integral number %r' % (x,))
        return int(f)

    def nser(m):
        return ['n', len(VarzReceiver.VARZ_DATA.get(names[m], {}))]

    def aggregate(ms, now=0):
        clock.now = now
        sel = {names[m]: TYPE_CODE[mtype[m]] for m in ms if m in mtype}
        out = VarzAggregator.Aggregate(VarzReceiver.VARZ_DATA, sel)
        rev = {v: k for k, v in names.items()}
        res = ['agg']
        for mname, per_key in out.items():
            m = rev[mname]
            entries = []
            for key, a in per_key.items():
                k = [_unname(key[0]), _unname(key[1])]
                if isinstance(a.total, list):
                    retained = []
                    for s, cell in VarzReceiver.VARZ_DATA[mname].items():
                        if (s.service, s.client_id) == key and hasattr(cell, 'data'):
                            retained += [exact_int(x) for x in cell.data]
                    if a.count <= 1:
                        vals = [exact_int(Fraction(v) * q) for v, (p, q) in zip(a.total[1:], pcts)]
                        if a.count == 0:
                            tags.add('stale-reservoir')
                    else:
                        vals = []
                        tags.add('multi-source-percentile')
                    entries.append(['pct'] + k + [a.count, sorted(retained), vals])
                    tags.add('pct')
                else:
                    entries.append(k + [exact_int(a.total), a.count])
            res.append([m, entries])
        return res

    saved = (dict(VarzReceiver.VARZ_METRICS), VarzReceiver.VARZ_PERCENTILES,
             VarzReceiver._MAX_PERCENTILE_SIZE, varz.random, varz.LOW_RESOLUTION_TIME_SOURCE)
    draw = _Draw()
    clock = _Clock()
    varz.LOW_RESOLUTION_TIME_SOURCE = clock
    VarzReceiver.VARZ_DATA.clear()
    VarzReceiver.VARZ_PERCENTILES = [Fraction(p, q) for p, q in pcts]
    VarzReceiver._MAX_PERCENTILE_SIZE = cap
    varz.random = draw
    try:
        if not dispatch:
            used, keys, nsamp, first = {}, {}, {}, {}
            # the metrics as client code declares them: a VarzBase subclass (the metaclass registers the names and
            # creates the source-less metric objects); updates go through the receiver directly, through the
            # class-level (source-less) metric, or through a metric bound to the source — chosen per operation
            mcls = {'gauge': varz.Gauge, 'rate': varz.Rate, 'aggTimer': varz.AggregateTimer,
                    'counter': varz.Counter, 'avgTimer': varz.AverageTimer, 'avgRate': varz.AverageRate}
            VZ = varz.VarzMeta('VerifVarz', (varz.VarzBase,),
                               {'_VARZ_BASE_NAME': 'verif', '_VARZ': {'m%d' % m: mcls[t] for m, t in mtype.items()}})

            def update(idx, m, source, value, default_ok):
                via = (zlib.crc32(repr((idx, m, value)).encode())) % 3
                if via == 0:
                    return None
                tags.add('via-class-metric' if via == 1 else 'via-bound-metric')
                if value == 0:
                    tags.add('zero-through-metric-object')
                metric = getattr(VZ, 'm%d' % m) if via == 1 else getattr(VZ(source), 'm%d' % m)
                args = () if (default_ok and value == 1 and idx % 2) else (value,)
                if via == 1:
                    metric(source, *args)
                else:
                    metric(*args)
                return True
            for opi, op in enumerate(script['ops']):
                k = op[0]
                if k == 'agg':
                    now = op[2] if len(op) > 2 else 0
                    try:
                        real = vfmt(aggregate(op[1], now))
                    except Exception as ex:      # the implementation raised: an observation like any other
                        real = vfmt(['raised', type(ex).__name__])
                        tags.add('raised')
                    steps.append([vfmt(['agg', list(op[1]), now])[1:-1], real])
                    continue
                m, src = op[1], op[2]
                if k == 'sample':
                    op = list(op[:5]) + [op[5] if len(op) > 5 else 0]
                if m not in mtype:
                    steps.append([vfmt([k, m, list(src)] + list(op[3:]))[1:-1], 'bad'])
                    continue
                if k == 'get':
                    v = VarzReceiver.VARZ_DATA.get(names[m], {}).get(mk(src))
                    if v is None or (isinstance(v, int) and not isinstance(v, bool)):
                        real = vfmt(['val', v])
                    else:
                        real = 'bad'
                    steps.append([vfmt(['get', m, list(src)])[1:-1], real])
                    continue
                t = tuple(src)
                if (m, t) in used:
                    tags.add('equal-source-reuse')
                used[(m, t)] = True
                kk = (m, src[1], src[3])
                if kk in keys and keys[kk] != t:
                    tags.add('shared-key')
                keys.setdefault(kk, t)
                if k not in ('inc', 'set', 'sample'):
                    raise ValueError(k)
                try:
                    if k == 'inc':
                        if not update(opi, m, mk(src), op[3], True):
                            VarzReceiver.IncrementVarz(mk(src), names[m], op[3])
                        if op[3] < 0:
                            tags.add('negative')
                    elif k == 'set':
                        if not update(opi, m, mk(src), op[3], False):
                            VarzReceiver.SetVarz(mk(src), names[m], op[3])
                        tags.add('gauge')
                    else:
                        draw.keep = bool(op[4])
                        clock.now = op[5]
                        if not update(opi, m, mk(src), op[3], False):
                            VarzReceiver.RecordPercentileSample(mk(src), names[m], op[3])
                        nsamp[(m, t)] = nsamp.get((m, t), 0) + 1
                        first.setdefault((m, t), op[5])
                        if nsamp[(m, t)] > cap:
                            tags.add('overflow')
                            if op[4] and op[5] - first[(m, t)] >= 300:
                                tags.add('retained-after-full-past-max-age')
                    real = vfmt(nser(m))
                except Exception as ex:
                    real = vfmt(['raised', type(ex).__name__])
                    tags.add('raised')
                steps.append([vfmt([k, m, list(src)] + list(op[3:]))[1:-1], real])
        else:
            _run_dispatch(script, rt, steps, tags, nser, aggregate)
        cfg = vfmt([[tuple(x) for x in metrics], cap, [tuple(p) for p in pcts]])[1:-1]
    finally:
        VarzReceiver.VARZ_METRICS.clear()
        VarzReceiver.VARZ_METRICS.update(saved[0])
        (VarzReceiver.VARZ_PERCENTILES, VarzReceiver._MAX_PERCENTILE_SIZE, varz.random,
         varz.LOW_RESOLUTION_TIME_SOURCE) = saved[1:]
        VarzReceiver.VARZ_DATA.clear()
    errs = rt.take_errors()
    if errs:
        tags.add('hub-error')
        steps.append(['agg () 0', vfmt(['raised', errs[0][0]])])
    return {'comp': COMPONENT, 'cfg': cfg, 'steps': steps, 'tags': sorted(tags)}


def _run_dispatch(script, rt, steps, tags, nser, aggregate):
    """N calls through the real MessageDispatcher over a mock sink; each call is reported as the
    three metric updates the dispatcher makes for it."""
    import gevent
    from scales.asynchronous import AsyncResult
    from scales.constants import MessageProperties, SinkProperties
    from scales.dispatch import MessageDispatcher
    from scales.message import MethodReturnMessage
    from scales.sink import ClientMessageSink

    class Boom(Exception):
        pass

    plan = []

    class MockSink(ClientMessageSink):
        def __init__(self):
            super(MockSink, self).__init__()
            self.next_sink = None

        def Open(self):
            return AsyncResult.Complete()

        def Close(self):
            pass

        @property
        def state(self):
            return 1

        def AsyncProcessRequest(self, sink_stack, msg, stream, headers):
            ep, ok, delay_ms, as_obj = plan.pop(0)
            if ep is not None:
                msg.properties[MessageProperties.Endpoint] = _Ep('e%d' % ep) if as_obj else 'e%d' % ep
            if delay_ms:
                gevent.sleep(delay_ms / 1000.0)
            if ok:
                sink_stack.AsyncProcessResponseMessage(MethodReturnMessage(return_value=1))
            else:
                sink_stack.AsyncProcessResponseMessage(MethodReturnMessage(error=Boom('x')))

        def AsyncProcessResponse(self, sink_stack, context, stream, msg):
            raise NotImplementedError

    class Provider(object):
        def CreateSink(self, properties):
            return MockSink()

    svc = script['service']
    disp = MessageDispatcher(None, Provider(), None, {SinkProperties.Label: 's%d' % svc})
    disp.Open()
    tags.add('dispatch')
    n = 0
    for method, ep, ok, delay_ms, as_obj in script['calls']:
        plan.append((ep, ok, delay_ms, as_obj))
        ar = disp.DispatchMethodCall('m%d' % method, (n,), {})
        rt.advance(delay_ms / 1000.0 + 0.001)
        if not ar.ready():
            raise RuntimeError('call did not complete')
        if (ar.exception is None) != bool(ok):
            raise RuntimeError('call outcome differs from the script')
        n += 1
        src0 = [method, svc, None, None]
        src1 = [method, svc, ep, None]
        steps.append([vfmt(['inc', 0, src0, 1])[1:-1], vfmt(nser(0))])
        steps.append([vfmt(['sample', 3, src1, delay_ms * 1000, True, 0])[1:-1], vfmt(nser(3))])
        which = 1 if ok else 2
        steps.append([vfmt(['inc', which, src1, 1])[1:-1], vfmt(nser(which))])
        if n > 1:
            tags.add('equal-source-reuse')
        if as_obj and ep is not None:
            tags.add('endpoint-object')
        if n % script.get('agg_every', 1000) == 0:
            steps.append(['agg (0 1 2) 0', vfmt(aggregate([0, 1, 2]))])
    steps.append(['agg (0 1 2) 0', vfmt(aggregate([0, 1, 2]))])


def nontrivial(case):
    t = set(case.get('tags', []))
    return bool(t & {'equal-source-reuse', 'shared-key', 'overflow', 'dispatch', 'stale-reservoir',
                     'retained-after-full-past-max-age'})
