"""C20 — generated proxies (real ClientProxyBuilder over a recording stub dispatcher) and URI
parsing (real ScalesUriParser, ZooKeeper client class substituted by a recording stub)."""
from lib import vfmt

PROPERTY = 'C20'
COMPONENT = 'proxy'          # second component: 'uri' (each case names its own)
QUICK = dict(gen=900)
THOROUGH = dict(gen=30000)

TRUSTED = ['stub dispatcher (records DispatchMethodCall, returns a gevent AsyncResult it completes as scripted) in 3 of 5 scripts; the real MessageDispatcher over a recording sink, open or still opening at the first call, in the others',
           'ZooKeeperServerSetProvider.KazooClient substituted by a recording class (no connection is made)',
           "urllib.parse.urlsplit (CPython 3.12) as modelled in Model/Uri.lean for printable-ASCII URIs"]
ASSUMPTIONS = ['interfaces define plain functions; attribute name = function name; no method is called '
               'DispatcherOpen, DispatcherClose or _dispatcher',
               'URIs are printable ASCII; tcp ports are written as ASCII digits (int() also accepts signs, '
               'underscores and blanks, which are not generated); bracketed hosts are only the valid literal [::1]',
               'K2: an interface with methods m and m_async is outside the hypotheses of C20_both_forms_partial']
RULE = ('scripts drawn from the seeded generator (interfaces with inheritance, underscore names, varied '
        'signatures; URIs of every scheme class and malformed endpoint lists); distinct = distinct (cfg, op list); '
        'non-trivial = inheritance, an excluded or underscore name, a late-completing result, an _async collision, '
        'several endpoints, a fragment, another scheme or a malformed list')

RESERVED = {'DispatcherOpen', 'DispatcherClose', '_dispatcher'}
BASES = ['foo', 'bar', 'get', 'put_x', 'a', 'b1', 'ping', 'Echo', 'x_y_z', 'do', 'async', 'm_async_m', 'q_']
SIGS = 4


# ------------------------------------------------------------------ generation
def _gen_name(rng):
    b = rng.choice(BASES)
    r = rng.random()
    if r < 0.12:
        b = '_' + b
    elif r < 0.22:
        b = '__' + b
    elif r < 0.30:
        b = b + '__'
    elif r < 0.36:
        b = b + '_'
    elif r < 0.40:
        b = '__' + b + '__'
    elif r < 0.46:
        b = b + '_async'
    return b


def _gen_args(rng):
    args = [rng.randrange(-5, 100) for _ in range(rng.choice([0, 0, 1, 2, 3]))]
    kws = []
    for k in rng.sample(['k', 'timeout', 'x', '_p', 'method'], rng.choice([0, 0, 1, 2])):
        kws.append([k, rng.randrange(-5, 100)])
    return args, kws


def gen_script(rng, tier):
    if rng.random() < 0.45:
        return gen_uri(rng, tier)
    ncls = rng.choice([1, 1, 2, 3])
    classes = []
    for _ in range(ncls):
        names = []
        for _ in range(rng.randrange(0 if classes else 1, 5)):
            n = _gen_name(rng)
            if n not in RESERVED and n not in [x[0] for x in names]:
                names.append([n, rng.randrange(SIGS)])
        classes.append(names)
    allnames = [n for c in classes for n, _ in c]
    if rng.random() < 0.12 and allnames:       # K2: m and m_async in one interface
        m = rng.choice(allnames)
        if m + '_async' not in allnames:
            classes[rng.randrange(ncls)].append([m + '_async', rng.randrange(SIGS)])
            allnames.append(m + '_async')
    attrs = []
    for n in allnames:
        attrs += [n, n + '_async']
    attrs += ['nope', 'nope_async', '_async', 'DispatcherOpen']
    calls = []
    for _ in range(rng.randrange(2, 14)):
        a, k = _gen_args(rng)
        out = ['ok', rng.randrange(0, 1000)] if rng.random() < 0.7 else ['err', rng.randrange(1, 50)]
        calls.append([rng.choice(attrs), a, k, rng.random() < 0.4, out])
    return {'kind': 'proxy', 'classes': classes, 'shape': rng.choice(['chain', 'chain', 'mixin']), 'calls': calls,
            'disp': rng.choice(['stub', 'stub', 'stub', 'real-open', 'real-preopen']), 'alias': rng.random() < 0.3}


HOSTCH = 'abcdefghijklmnopqrstuvwxyzABCXYZ0123456789.-_~%!$&*+;='


def _gen_host(rng):
    return ''.join(rng.choice(HOSTCH) for _ in range(rng.choice([1, 2, 3, 5, 9])))


def _gen_port(rng):
    p = rng.choice([0, 1, 80, 2181, 9090, 65535, 65536, 70000, rng.randrange(0, 100000)])
    s = str(p)
    if rng.random() < 0.15:
        s = '0' * rng.randrange(1, 3) + s
    return s


def _gen_tail(rng):
    t = ''
    if rng.random() < 0.25:
        t += '/' + rng.choice(['', 'a', 'a/b', 'x;y'])
    if rng.random() < 0.15:
        t += '?' + rng.choice(['', 'q=1', 'a#b'.replace('#', '')])
    if rng.random() < 0.3:
        t += '#' + rng.choice(['', 'ep', 'http', 'a#b', 'a?b', 'thrift-mux'])
    return t


def _gen_one_uri(rng):
    r = rng.random()
    scheme = rng.choice(['tcp', 'tcp', 'tcp', 'TCP', 'Tcp', 'tCp'])
    if r < 0.35:
        eps = [_gen_host(rng) + ':' + _gen_port(rng) for _ in range(rng.choice([1, 1, 2, 3, 5]))]
        return scheme + '://' + ','.join(eps) + (_gen_tail(rng) if rng.random() < 0.3 else '')
    if r < 0.55:
        zs = rng.choice(['zk', 'zk', 'ZK', 'Zk'])
        hosts = ','.join(_gen_host(rng) + ':' + _gen_port(rng) for _ in range(rng.choice([1, 2, 3])))
        if rng.random() < 0.2:
            hosts = rng.choice(['', _gen_host(rng), 'u@' + hosts, '[::1]:2181'])
        path = rng.choice(['', '/', '/a', '/a/b', '/services/foo/prod', '/a;p'])
        return zs + '://' + hosts + path + _gen_tail(rng).lstrip('/') if path else zs + '://' + hosts + _gen_tail(rng)
    if r < 0.75:
        s = rng.choice(['http', 'ftp', 'tcpx', 'zk2', 'a+b', 'tcp.', 'z', 'ZKK', 'https', 'inet', 't-c-p'])
        return s + '://' + _gen_host(rng) + ':' + _gen_port(rng) + _gen_tail(rng)
    if r < 0.80:
        return rng.choice(['', '://', '1tcp://', '+tcp://', 'tc p'.replace(' ', '_') + '://', ':']) + _gen_host(rng) + ':' + _gen_port(rng)
    # malformed endpoint lists and odd shapes
    h, p = _gen_host(rng), _gen_port(rng)
    return rng.choice([
        scheme + '://' + h, scheme + '://' + h + ':', scheme + '://' + h + ':x1', scheme + '://' + h + ':8x',
        scheme + '://' + h + ':' + p + ':' + p, scheme + '://', scheme + '://,', scheme + '://' + h + ':' + p + ',',
        scheme + '://' + ',' + h + ':' + p, scheme + ':/' + h + ':' + p, scheme + ':' + h + ':' + p,
        scheme + '://[' + h + ':' + p, scheme + '://' + h + ']:' + p, scheme + '://[::1]:' + p,
        scheme + '://' + h + ':' + p + ',' + h, scheme + '://:' + p, scheme + ':///' + h + ':' + p,
        scheme + '://' + h + ':' + p + '@' + h + ':' + p, scheme,
    ])


def gen_uri(rng, tier):
    # 'cycles': how many times each provider is used the way a client uses it (Initialize, GetServers, Close) before
    # its endpoints are read: what the second, third … client built from one builder is given
    return {'kind': 'uri', 'uris': [_gen_one_uri(rng) for _ in range(rng.randrange(1, 8))],
            'cycles': rng.choice([0, 0, 1, 2])}


def shrink(script):
    key = 'calls' if script['kind'] == 'proxy' else 'uris'
    xs = script[key]
    for i in range(len(xs)):
        if len(xs) > 1:
            s = dict(script)
            s[key] = xs[:i] + xs[i + 1:]
            yield s
    if script['kind'] == 'proxy':
        used = {c[0] for c in script['calls']} | {c[0][:-6] for c in script['calls'] if c[0].endswith('_async')}
        for ci, cls in enumerate(script['classes']):
            for j in range(len(cls)):
                s = dict(script)
                s['classes'] = [list(c) for c in script['classes']]
                del s['classes'][ci][j]
                if any(s['classes']):
                    yield s
        for i, c in enumerate(xs):
            if c[1] or c[2]:
                s = dict(script)
                s[key] = xs[:i] + [[c[0], [], [], c[3], c[4]]] + xs[i + 1:]
                yield s
    else:
        for i, u in enumerate(xs):
            for cutpos in range(len(u)):
                if len(u) > 8:
                    s = dict(script)
                    s[key] = xs[:i] + [u[:cutpos] + u[cutpos + 1:]] + xs[i + 1:]
                    yield s


# ------------------------------------------------------------------ running the real code
class E(Exception):
    def __init__(self, code):
        Exception.__init__(self, 'E%d' % code)
        self.code = code


def _make_fn(name, sig):
    src = ['def f(self): return ("orig", 0)',
           'def f(self, a=0, b=2): return ("orig", 1)',
           'def f(self, *args, **kwargs): return ("orig", 2)',
           'def f(self, a=0, *rest, k=None, **kw): return ("orig", 3)'][sig % SIGS]
    ns = {}
    exec(src, ns)
    f = ns['f']
    f.__name__ = name
    f.__qualname__ = name
    return f


def _own_name(name):
    """a function name different from the attribute name it is reached under (an alias, a decorator without
    functools.wraps, a method attached with setattr), with the same leading/trailing double underscores"""
    return name[:2] + 'Impl' + name[-2:]


def nm(s):
    return '.' + s


def run_script(script):
    if script['kind'] == 'uri':
        return run_uri(script)
    import gevent
    import rt
    from scales.asynchronous import AsyncResult
    from scales.core import ClientProxyBuilder
    tags, steps = set(), []
    classes = script['classes']
    built = []
    if script.get('alias'):
        # every other method is reached under an attribute name that is not its function's __name__
        tags.add('attribute-name-differs-from-function-name')
        _mk = _make_fn

        def mkfn(n, sg, _c=[0]):
            f = _mk(n, sg)
            _c[0] += 1
            if _c[0] % 2:
                f.__name__ = f.__qualname__ = _own_name(n)
            return f
    else:
        mkfn = _make_fn
    if script.get('shape') == 'mixin' and len(classes) > 1:
        others = [type('B%d' % i, (object,), {n: mkfn(n, s) for n, s in c})
                  for i, c in enumerate(classes[1:])]
        iface = type('Iface', tuple(others), {n: mkfn(n, s) for n, s in classes[0]})
        tags.add('inherit')
    else:
        parent = object
        for i, c in reversed(list(enumerate(classes))):
            parent = type('C%d' % i, (parent,), {n: mkfn(n, s) for n, s in c})
        iface = parent
        if len(classes) > 1:
            tags.add('inherit')
    iface.CONSTANT = 5                      # non-function attributes are not methods

    class Stub(object):
        def __init__(self):
            self.calls, self.ar, self.plan = [], None, None

        def Open(self):
            return AsyncResult.Complete()

        def Close(self):
            pass

        def DispatchMethodCall(self, method, args, kwargs, timeout=None):
            self.calls.append((method, args, kwargs))
            self.ar = AsyncResult()
            late, out = self.plan
            if not late:
                complete(self.ar, out)
            return self.ar

        def finish(self, out):
            complete(self.ar, out)

        def before_measure(self):
            pass

    def complete(ar, out):
        if out[0] == 'ok':
            ar.set(out[1])
        else:
            ar.set_exception(E(out[1]))

    class RealDisp(object):
        """the real MessageDispatcher (scales/dispatch.py) between the proxy and a recording sink; `preopen`:
        the first call is made while the dispatcher's Open() is still pending"""
        def __init__(self, preopen):
            from scales.constants import SinkProperties
            from scales.dispatch import MessageDispatcher
            from scales.message import MethodReturnMessage
            from scales.sink import ClientMessageSink, SinkProviderBase
            outer = self
            self.calls, self.ar, self.plan, self.stack = [], None, None, None
            self.open_ar = AsyncResult()
            self.MRM = MethodReturnMessage

            class Lower(ClientMessageSink):
                def AsyncProcessRequest(self, sink_stack, msg, stream, headers):
                    outer.calls.append((msg.method, msg.args, msg.kwargs))
                    outer.stack = sink_stack
                    late, out = outer.plan
                    if not late:
                        outer.finish(out)

                def AsyncProcessResponse(self, sink_stack, context, stream, msg):
                    pass

                def Open(self):
                    return outer.open_ar

                def Close(self):
                    pass

                @property
                def state(self):
                    return 2

            class LowerProvider(SinkProviderBase):
                def CreateSink(self, properties):
                    return Lower()

                @property
                def sink_class(self):
                    return Lower
            self.real = MessageDispatcher(iface, LowerProvider(), None, {SinkProperties.Label: 'c20'})
            self.real.Open()
            if not preopen:
                self.open_ar.set()

        def Open(self):
            return self.open_ar

        def Close(self):
            pass

        def DispatchMethodCall(self, method, args, kwargs, timeout=None):
            self.ar = self.real.DispatchMethodCall(method, args, kwargs, timeout)
            return self.ar

        def finish(self, out):
            stack, self.stack = self.stack, None
            if stack is None:
                raise RuntimeError('the request did not reach the sink below the dispatcher')
            stack.AsyncProcessResponseMessage(self.MRM(out[1]) if out[0] == 'ok' else self.MRM(error=E(out[1])))

        def before_measure(self):
            if not self.open_ar.ready():
                self.open_ar.set()
                rt.drain()

    proxy_cls = ClientProxyBuilder.CreateServiceClient(iface)
    try:
        dkind = script.get('disp', 'stub')
        stub = Stub() if dkind == 'stub' else RealDisp(dkind == 'real-preopen')
        tags.add('dispatcher-' + dkind)
        obj = proxy_cls(stub)
        gen = {k for k, v in vars(proxy_cls).items() if callable(v) and hasattr(v, '__wrapped__')}
        allnames = [n for c in classes for n, _ in c]
        if any(n.startswith('_') or n.endswith('_') for n in allnames):
            tags.add('underscore-names')
        if any(n.startswith('__') or n.endswith('__') for n in allnames):
            tags.add('excluded-names')
        if any((n + '_async') in allnames for n in allnames
               if not (n.startswith('__') or n.endswith('__'))):
            tags.add('collision')
        steps.append(['count', vfmt(['count', len(gen)])])
        for attr, args, kws, late, out in script['calls']:
            op = vfmt(['call', nm(attr), list(args), [[nm(k), v] for k, v in kws], bool(late), tuple(out)])[1:-1]
            if attr not in gen:
                steps.append([op, 'notgen'])
                tags.add('not-generated')
                continue
            stub.plan = (late, out)
            stub.ar = None
            ncalls = len(stub.calls)
            g = gevent.spawn(getattr(obj, attr), *args, **dict(kws))
            rt.drain()
            stub.before_measure()
            blocked = not g.ready()
            if late:
                tags.add('late')
                if stub.ar is None:
                    raise RuntimeError('dispatcher was not called')
                stub.finish(out)
                rt.drain()
            if not g.ready() or len(stub.calls) != ncalls + 1:
                raise RuntimeError('call did not finish or dispatcher called %d times' % (len(stub.calls) - ncalls))
            if g.successful():
                v = g.value
                if v is stub.ar:
                    ret = 'ar'
                elif isinstance(v, int) and not isinstance(v, bool):
                    ret = ['ok', v]
                else:
                    # not a value of the script (e.g. a result object handed back instead of its value):
                    # encoded as a value no script uses, so that the specification judges it
                    ret = ['ok', 999999]
            else:
                # the real dispatcher hands the sink's error over wrapped in ScalesError(inner_exception=...)
                ex = getattr(g.exception, 'inner_exception', g.exception)
                ret = ['err', ex.code] if isinstance(ex, E) else ['raised', type(ex).__name__]
            method, a, k = stub.calls[-1]
            if kws:
                tags.add('kwargs')
            real = ['fwd', nm(method) if isinstance(method, str) else 'notastring', list(a),
                    [[nm(kk), vv] for kk, vv in k.items()], blocked, ret]
            steps.append([op, vfmt(real)])
        cfg = vfmt([[[nm(n) for n, _ in c] for c in classes]])[1:-1]
    finally:
        ClientProxyBuilder._PROXY_TYPE_CACHE.pop(iface, None)
    errs = [e for e in rt.take_errors() if e[0] not in ('E', 'ScalesError')]
    if errs:
        tags.add('hub-error')
        steps.append(['count', vfmt(['raised', errs[0][0]])])
    return {'comp': 'proxy', 'cfg': cfg, 'steps': steps, 'tags': sorted(tags)}


class _Kazoo(object):
    """stands for kazoo.client.KazooClient: records its arguments, never connects"""
    def __init__(self, **kw):
        self.kw = kw


def run_uri(script):
    from scales.core import ScalesUriParser
    from scales.loadbalancer.serverset import StaticServerSetProvider, ZooKeeperServerSetProvider
    tags, steps = set(), []
    saved = ZooKeeperServerSetProvider.KazooClient
    ZooKeeperServerSetProvider.KazooClient = _Kazoo
    try:
        parser = ScalesUriParser()
        for u in script['uris']:
            op = vfmt(['parse', u.encode('ascii')])[1:-1]
            try:
                r = parser.Parse(u)
            except ValueError:
                steps.append([op, '(err value)'])
                tags.add('malformed')
                continue
            except Exception as ex:
                if type(ex) is Exception and str(ex).startswith('No handler found for prefix'):
                    steps.append([op, '(err nohandler)'])
                    tags.add('other-scheme')
                else:
                    steps.append([op, vfmt(['raised', type(ex).__name__])])
                continue
            if isinstance(r, StaticServerSetProvider):
                for _ in range(script.get('cycles', 0)):
                    r.Initialize(lambda m: None, lambda m: None)
                    r.GetServers()
                    r.Close()
                    tags.add('provider-reused-after-close')
                eps = []
                for s in r.GetServers():
                    ep = s.service_endpoint
                    if not isinstance(ep.port, int) or isinstance(ep.port, bool):
                        raise ValueError('port is not an int')
                    eps.append([ep.host.encode('ascii'), ep.port])
                steps.append([op, vfmt(['tcp', eps])])
                tags.add('tcp')
                if len(eps) > 1:
                    tags.add('multi-endpoint')
            elif isinstance(r, ZooKeeperServerSetProvider):
                hosts = r._zk_client.kw.get('hosts')
                name = r.endpoint_name
                steps.append([op, vfmt(['zk', hosts.encode('ascii'), r._zk_path.encode('ascii'),
                                        None if name is None else name.encode('ascii')])])
                tags.add('zk')
                if name is not None:
                    tags.add('fragment')
            else:
                steps.append([op, vfmt(['other', type(r).__name__])])
    finally:
        ZooKeeperServerSetProvider.KazooClient = saved
    return {'comp': 'uri', 'cfg': '', 'steps': steps, 'tags': sorted(tags)}


def nontrivial(case):
    t = set(case.get('tags', []))
    return bool(t & {'inherit', 'underscore-names', 'excluded-names', 'late', 'collision', 'multi-endpoint',
                     'fragment', 'other-scheme', 'malformed'})
