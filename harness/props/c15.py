"""C15 — Kafka produce requests / responses: run the real KafkaSerializerSink -> KafkaTransportSink
chain (scales/kafka/sink.py, scales/kafka/protocol.py, scales/binary.py, scales/mux/sink.py) over a
fake socket on the virtual loop.

A script is {'ops': [...]}; operations

  ['put', acks, topic, partition, [payload, ...]]     a caller issues Put(topic, payloads, acks)
  ['mdreq']                                           the router's '__metadata' request
  ['presp', corrsel, [[topic, [[partition, error, offset], ...]], ...]]
  ['mresp', corrsel, [[node, host, port], ...], [[terr, name, [[perr, pid, leader, [r..], [i..]], ...]], ...]]
  ['raw', corrsel, body]                              the broker sends corr id + arbitrary bytes
  ['crc', bytes]                                      zlib.crc32 against the model's CRC-32

'tag_base' (optional) is the value of the tag pool's counter when the script starts (a connection
that has already issued that many requests).  byte strings are hex strings or [hex, n] (the pattern repeated n times); corrsel is
['inflight', k] (the k-th request in flight, modulo their number; a literal 7777 if there is none),
['stale', k] (a correlation id that was answered earlier) or ['lit', n].

The broker side (response encoder) below is the harness's own, written from the Kafka protocol
guide with struct.pack; the Lean model has its own; the bytes fed are part of the observation, so
the two are compared on every reply."""
import struct
import zlib

from lib import vfmt

PROPERTY = 'C15'
import isolation as _iso
ISOLATION = [(n, getattr(_iso, n)) for n in ['kafka_protocol']]      # instance-isolation obligation (harness/isolation.py)
ISOLATION_SHARED_OK = ('MSG_HEADER', 'MSG_STRUCT', 'PRODUCE_HEADER')    # struct.Struct constants of the class
COMPONENT = 'kafkacodec'
QUICK = dict(gen=480, big=2)
THOROUGH = dict(gen=24000, big=6)

TRUSTED = ['fake socket harness/fakenet.py (delivers what the broker feeds, records what the client writes)',
           'the harness\'s own broker-side response encoder (struct.pack), cross-checked against the Lean encoder '
           'on every reply',
           'zlib.crc32 as the reference CRC-32 (compared with the Lean bitwise CRC on every message and by the '
           'crc operation)']
ASSUMPTIONS = ['topics and payloads are bytes (a str topic is rejected with an error, nothing is written)',
               'the tag pool hands out a tag that is not in flight (C11); the tag is observed from the run',
               'one reply frame per feed; frames are well-formed at the framing level (size prefix, 4-byte '
               'correlation id)']
RULE = ('scripts drawn from the seeded generator plus a boundary enumeration (acks / partition / topic length / '
        'payload list shapes around the int16 / int32 limits); distinct = distinct (cfg, op list); non-trivial = '
        'the case reaches a branch beyond a plain accepted request with its matching reply: a rejected request, '
        'a reply under an unknown or stale correlation id, a reply of the wrong kind, a decode error, duplicate '
        'dictionary keys, an empty payload list, an empty or >= 64 KiB payload, or a boundary value')

I16 = (-32768, 32767)
I32 = (-2 ** 31, 2 ** 31 - 1)
I64 = (-2 ** 63, 2 ** 63 - 1)


# ------------------------------------------------------------------ byte strings in scripts
def bval(x):
    if isinstance(x, list):
        return bytes.fromhex(x[0]) * x[1]
    return bytes.fromhex(x)


def rbytes(rng, n):
    return bytes(rng.getrandbits(8) for _ in range(n)).hex()


# ------------------------------------------------------------------ generation
def pick_int(rng, rng_, wide=False):
    lo, hi = rng_
    r = rng.random()
    if r < 0.35:
        return rng.choice([0, 1, -1, 2, 5])
    if r < 0.55:
        return rng.choice([lo, hi, lo + 1, hi - 1])
    if wide and r < 0.65:
        return rng.choice([lo - 1, hi + 1, lo * 3, hi * 5 + 3])
    return rng.randint(lo, hi)


def gen_topic(rng, adversarial):
    r = rng.random()
    if r < 0.1:
        return ''
    if adversarial and r < 0.2:
        return ['61', rng.choice([32767, 32768, 40000])]
    if r < 0.6:
        return rng.choice([b'test_topic', b'loghog', b't', b'a.b-c_d']).hex()
    return rbytes(rng, rng.choice([1, 2, 7, 40, 255, 256, 300]))


def gen_payloads(rng, big_left):
    r = rng.random()
    if r < 0.12:
        return []
    n = rng.choice([1, 1, 1, 2, 3, 5, 9])
    out = []
    for _ in range(n):
        q = rng.random()
        if q < 0.15:
            out.append('')
        elif q < 0.2 and big_left[0] > 0:
            big_left[0] -= 1
            if rng.random() < 0.5:
                out.append([rbytes(rng, 16), 4096])              # 64 KiB
            else:
                out.append([rbytes(rng, 7), rng.choice([9363, 10000])])
        elif q < 0.5:
            out.append(rng.choice([b'message_data', b'\x00', b'\xff' * 4, b'{"k": 1}']).hex())
        else:
            out.append(rbytes(rng, rng.choice([1, 2, 3, 8, 31, 64, 200, 1000])))
    return out


def gen_presp(rng, adversarial, topics_hint):
    nt = rng.choice([0, 1, 1, 1, 2, 3])
    ts = []
    for _ in range(nt):
        topic = rng.choice(topics_hint) if topics_hint and rng.random() < 0.6 else gen_topic(rng, False)
        if isinstance(topic, list):
            topic = '61'
        ps = [[pick_int(rng, I32), pick_int(rng, I16), pick_int(rng, I64)]
              for _ in range(rng.choice([0, 1, 1, 1, 2, 4]))]
        ts.append([topic, ps])
    return ts


def gen_mresp(rng, adversarial):
    nb = rng.choice([0, 1, 2, 3, 5])
    ids = list(range(nb)) if rng.random() < 0.6 else [pick_int(rng, I32) for _ in range(nb)]
    if adversarial and nb >= 2 and rng.random() < 0.5:
        ids[-1] = ids[0]                                          # duplicate node id
    brokers = [[i, rng.choice([b'ec2-54-81-106-88.compute-1.amazonaws.com', b'h', b'', b'10.0.0.1']).hex()
                if rng.random() < 0.8 else rbytes(rng, rng.choice([3, 60, 300])),
                rng.choice([9092, 15063, 0, -1, 2 ** 31 - 1])] for i in ids]
    topics = []
    names = []
    for _ in range(rng.choice([0, 1, 1, 2, 3])):
        name = rng.choice([b'loghog', b'test_topic', b'x', b'']).hex() if rng.random() < 0.7 else rbytes(rng, 9)
        if name in names and not adversarial:
            continue
        names.append(name)
        parts = []
        pids = []
        for _ in range(rng.choice([0, 1, 2, 3])):
            pid = rng.choice([0, 1, 2, 3, 7]) if rng.random() < 0.8 else pick_int(rng, I32)
            if pid in pids and not adversarial:
                continue
            pids.append(pid)
            reps = [pick_int(rng, I32) for _ in range(rng.choice([0, 1, 2, 3]))]
            isr = [pick_int(rng, I32) for _ in range(rng.choice([0, 1, 2]))]
            parts.append([pick_int(rng, I16), pid, rng.choice([-1, 0, 1, 2]), reps, isr])
        topics.append([pick_int(rng, I16), name, parts])
    return brokers, topics


def gen_script(rng, tier):
    adversarial = rng.random() < 0.4
    big_left = [1 if rng.random() < ((THOROUGH if tier == 'thorough' else QUICK)['big'] / 40.0) else 0]
    nops = rng.choice([2, 4, 6, 8, 12, 20])
    ops = []
    topics_seen = []
    sim = []           # kinds of the requests in flight, in issue order (as the runner will see them)
    answered = 0
    for _ in range(nops):
        r = rng.random()
        if r < 0.36 or (not sim and r < 0.6):
            if rng.random() < 0.8:
                topic = gen_topic(rng, adversarial)
                if isinstance(topic, str):
                    topics_seen.append(topic)
                acks, part = pick_int(rng, I16, adversarial), pick_int(rng, I32, adversarial)
                ops.append(['put', acks, topic, part, gen_payloads(rng, big_left)])
                if I16[0] <= acks <= I16[1] and I32[0] <= part <= I32[1] and len(bval(topic)) <= 32767:
                    sim.append('p')
            else:
                ops.append(['mdreq'])
                sim.append('m')
        elif r < 0.92:
            # a reply: mostly to a request in flight and of its kind
            q = rng.random()
            if sim and q < (0.6 if adversarial else 0.85):
                k = rng.randrange(len(sim))
                sel, kind = ['inflight', k], sim[k]
                if rng.random() < 0.1:
                    kind = 'p' if kind == 'm' else 'm'          # the other kind of response
                del sim[k]
                answered += 1
            elif answered and q < 0.9:
                sel, kind = ['stale', rng.randrange(8)], rng.choice('pm')
            else:
                # never a value the tag counter can reach: the property presupposes C11
                sel = ['lit', rng.choice([0, 1, -1, -7, 2 ** 24, 2 ** 24 + 5, 2 ** 31 - 1, -2 ** 31, 123456789])]
                kind = rng.choice('pm')
            z = rng.random()
            if z < 0.8:
                if kind == 'p':
                    ops.append(['presp', sel, gen_presp(rng, adversarial, topics_seen)])
                else:
                    b, t = gen_mresp(rng, adversarial)
                    ops.append(['mresp', sel, b, t])
            else:
                # arbitrary bytes, or a valid body cut short / extended
                if z < 0.86:
                    body = rbytes(rng, rng.choice([0, 1, 3, 4, 6, 10, 30]))
                else:
                    full = (enc_produce_resp(gen_presp(rng, False, topics_seen)) if kind == 'p'
                            else enc_metadata_resp(*gen_mresp(rng, False)))
                    if z < 0.95 and full:
                        body = full[:rng.randrange(len(full))].hex()
                    else:
                        body = (full + bytes(rng.getrandbits(8) for _ in range(rng.choice([1, 5])))).hex()
                ops.append(['raw', sel, body])
        else:
            ops.append(['crc', rbytes(rng, rng.choice([0, 1, 9, 100]))])
    sc = {'ops': ops, 'tag_base': rng.choice([1, 1, 1, 126, 254, 32766, 65534, 2 ** 24 - 40])}
    if rng.random() < 0.3:
        # a transport configured with its own client id: empty, short, long, arbitrary bytes
        sc['client_id'] = rng.choice(['', '61', '617070', '62696c6c696e672d66726f6e74656e64', rbytes(rng, rng.randrange(1, 40)),
                                      ['78', 300]])
    return sc


def exhaustive(tier, shard, shards):
    """boundary values of every packed field of a produce request, each followed by its reply"""
    k = 0
    shapes = [[], [''], ['61'], ['', '7879', ''], ['00ff', '']]
    tlens = [0, 1, 32767, 32768]
    if tier == 'thorough':
        shapes.append([['ab', 70000]])
        tlens += [255, 256, 40000]
    for acks in (-32769, -32768, -1, 0, 1, 32767, 32768):
        for part in (-2 ** 31 - 1, -2 ** 31, 0, 7, 2 ** 31 - 1, 2 ** 31):
            for tl in tlens:
                for shape in shapes:
                    k += 1
                    if k % shards != shard:
                        continue
                    yield {'ops': [['put', acks, ['74', tl], part, shape],
                                   ['presp', ['inflight', 0], [['74', [[part % 1000, 0, 5]]]]]],
                           'tag_base': [1, 254, 65534][k % 3]}


def shrink(script):
    for s_ in _shrink_ops(script['ops']):
        s_['tag_base'] = script.get('tag_base', 1)
        if 'client_id' in script:
            s_['client_id'] = script['client_id']
        yield s_
    if script.get('tag_base', 1) != 1:
        yield dict(script, tag_base=1)


def _shrink_ops(ops):
    for i in range(len(ops)):
        yield {'ops': ops[:i] + ops[i + 1:]}
    for i, op in enumerate(ops):
        if op[0] == 'put':
            if len(op[4]) > 0:
                for j in range(len(op[4])):
                    yield {'ops': ops[:i] + [op[:4] + [op[4][:j] + op[4][j + 1:]]] + ops[i + 1:]}
                for j, p in enumerate(op[4]):
                    if p != '61' and p != '':
                        yield {'ops': ops[:i] + [op[:4] + [op[4][:j] + ['61'] + op[4][j + 1:]]] + ops[i + 1:]}
            if op[2] != '74':
                yield {'ops': ops[:i] + [[op[0], op[1], '74', op[3], op[4]]] + ops[i + 1:]}
            if op[1] != 1:
                yield {'ops': ops[:i] + [[op[0], 1, op[2], op[3], op[4]]] + ops[i + 1:]}
            if op[3] != 0:
                yield {'ops': ops[:i] + [[op[0], op[1], op[2], 0, op[4]]] + ops[i + 1:]}
        elif op[0] == 'presp' and op[2]:
            yield {'ops': ops[:i] + [[op[0], op[1], op[2][:-1]]] + ops[i + 1:]}
        elif op[0] == 'mresp' and (op[2] or op[3]):
            yield {'ops': ops[:i] + [[op[0], op[1], op[2][:-1], op[3]]] + ops[i + 1:]}
            yield {'ops': ops[:i] + [[op[0], op[1], op[2], op[3][:-1]]] + ops[i + 1:]}


# ------------------------------------------------------------------ the broker side (harness's own)
def enc_str(b):
    return struct.pack('!h', len(b)) + b


def enc_produce_resp(ts):
    out = struct.pack('!i', len(ts))
    for topic, ps in ts:
        out += enc_str(bval(topic)) + struct.pack('!i', len(ps))
        for p, e, o in ps:
            out += struct.pack('!ihq', p, e, o)
    return out


def enc_i32_array(xs):
    return struct.pack('!i', len(xs)) + b''.join(struct.pack('!i', x) for x in xs)


def enc_metadata_resp(brokers, topics):
    out = struct.pack('!i', len(brokers))
    for node, host, port in brokers:
        out += struct.pack('!i', node) + enc_str(bval(host)) + struct.pack('!i', port)
    out += struct.pack('!i', len(topics))
    for terr, name, parts in topics:
        out += struct.pack('!h', terr) + enc_str(bval(name)) + struct.pack('!i', len(parts))
        for perr, pid, leader, reps, isr in parts:
            out += struct.pack('!hii', perr, pid, leader) + enc_i32_array(reps) + enc_i32_array(isr)
    return out


# ------------------------------------------------------------------ running the real code
def canon_result(msg):
    from scales.kafka.protocol import MetadataResponse
    if msg.error is not None:
        return 'error'
    v = msg.return_value
    if isinstance(v, MetadataResponse):
        brokers = [[k, b.nodeId, bytes(b.host), b.port] for k, b in v.brokers.items()]
        topics = [[bytes(name), [[k, bytes(p.topic_name), p.partition_id, p.leader, list(p.replicas), list(p.isr)]
                                 for k, p in parts.items()]] for name, parts in v.topics.items()]
        return ['metadata', brokers, topics]
    if isinstance(v, list):
        return ['produce', [[bytes(r.topic), r.partition, r.error, r.offset] for r in v]]
    return 'error'


_SERIAL = [0]


def run_script(script):
    import rt
    import fakenet
    fakenet.install()
    from scales.kafka.sink import KafkaSerializerSink, KafkaTransportSink, KafkaEndpoint
    from scales.constants import SinkProperties, MessageProperties
    from scales.message import MethodCallMessage
    from scales.sink import ClientMessageSinkStack, ClientMessageSink

    _SERIAL[0] += 1
    host = 'broker%d' % _SERIAL[0]
    tp = KafkaTransportSink.Builder()
    if script.get('client_id') is not None:
        # a transport configured with another client id (CLIENT_ID is a class attribute read through self: a subclass
        # overrides it); the header must carry that id, whatever its length
        from scales.sink import SocketTransportSinkProvider

        class ConfiguredKafkaTransport(KafkaTransportSink):
            CLIENT_ID = bval(script['client_id'])
        tp = SocketTransportSinkProvider(ConfiguredKafkaTransport)()
    sp = KafkaSerializerSink.Builder()
    sp.next_provider = tp
    sink = sp.CreateSink({SinkProperties.Endpoint: KafkaEndpoint(host, 9092, 0), SinkProperties.Label: 'c15'})
    transport = sink.next_sink
    transport.Open()
    rt.drain()
    # a connection that has been in use for a while: the tag pool's counter is further along
    transport._tag_pool._next = script.get('tag_base', 1)
    conn = fakenet.NET.server(host, 9092).conns[0]
    cid = type(transport).CLIENT_ID
    cid_b = cid if isinstance(cid, bytes) else cid.encode('latin-1')

    delivered = []

    class Caller(ClientMessageSink):
        def AsyncProcessRequest(self, *a):
            pass

        def AsyncProcessResponse(self, sink_stack, context, stream, msg):
            delivered.append([context, canon_result(msg)])
    caller = Caller()

    steps, tags = [], set()
    inflight = []      # [tag, id] in issue order, as the harness believes
    stale = []
    next_id = [0]
    nwritten = [0]

    def observe(fed, raised=None):
        rt.drain()
        errs = rt.take_errors()
        w = b''.join(d for _, d in conn.written[nwritten[0]:])
        nwritten[0] = len(conn.written)
        dl = list(delivered)
        del delivered[:]
        if raised is not None:
            return vfmt(['raised', raised])
        if errs:
            tags.add('hub-error')
            return vfmt(['raised', 'hub:' + errs[0][0]])
        return vfmt(['io', w, fed, dl]), w, dl

    def issue(msg):
        rid = next_id[0]
        next_id[0] += 1
        st = ClientMessageSinkStack()
        st.Push(caller, rid)
        raised = None
        try:
            sink.AsyncProcessRequest(st, msg, None, {})
        except Exception as ex:          # escapes to the caller of the sink chain
            raised = type(ex).__name__
        tag = msg.properties.get('__Tag')
        return rid, (tag if isinstance(tag, int) else 0), raised

    def corr_of(sel):
        kind, k = sel
        if kind == 'inflight':
            if inflight:
                return inflight[k % len(inflight)][0]
            tags.add('unknown-corr')
            return 7777
        if kind == 'stale':
            if stale:
                c = stale[k % len(stale)]
                tags.add('stale-corr' if not any(t == c for t, _ in inflight) else 'reused-corr')
                return c
            tags.add('unknown-corr')
            return 7778
        tags.add('unknown-corr')
        return k

    def feed(corr, body):
        frame = struct.pack('!ii', 4 + len(body), corr) + body
        conn.feed(frame)
        return frame

    def after_reply(corr, res):
        o = res
        if isinstance(o, tuple):
            _, _, dl = o
            for rid, r in dl:
                for j, (t, i) in enumerate(inflight):
                    if i == rid:
                        del inflight[j]
                        stale.append(t)
                        break
                if r == 'error':
                    tags.add('decode-error')
                else:
                    tags.add('decoded-' + r[0])
            return o[0]
        return o

    for op in script['ops']:
        kind = op[0]
        if kind == 'put':
            _, acks, topic, part, payloads = op
            topic_b = bval(topic)
            pl = [bval(p) for p in payloads]
            m = MethodCallMessage(None, 'Put', (topic_b, pl, acks), {})
            m.properties[MessageProperties.Endpoint] = KafkaEndpoint(host, 9092, part)
            rid, tag, raised = issue(m)
            o = observe(b'', raised)
            optxt = vfmt(['put', rid, tag, acks, topic_b, part, pl])[1:-1]
            if isinstance(o, tuple):
                txt, w, dl = o
                if w:
                    inflight.append([tag, rid])
                    tags.add('sent')
                else:
                    tags.add('rejected')
                o = txt
            else:
                tags.add('raised')
            if not pl:
                tags.add('empty-payload-list')
            if any(len(p) == 0 for p in pl):
                tags.add('empty-payload')
            if any(len(p) >= 65536 for p in pl):
                tags.add('payload>=64KiB')
            if len(pl) >= 3:
                tags.add('payloads>=3')
            if acks in (-32768, 32767) or part in (I32[0], I32[1]) or len(topic_b) in (0, 32767):
                tags.add('boundary')
            if len(topic_b) > 255:
                tags.add('topic>255')
            if tag > 32767:
                tags.add('tag>int16')
            elif tag > 255:
                tags.add('tag>255')
            steps.append([optxt, o])
        elif kind == 'mdreq':
            m = MethodCallMessage(None, '__metadata', [], {})
            rid, tag, raised = issue(m)
            o = observe(b'', raised)
            if isinstance(o, tuple):
                if o[1]:
                    inflight.append([tag, rid])
                    tags.add('mdreq-sent')
                o = o[0]
            else:
                tags.add('raised')
            steps.append([vfmt(['mdreq', rid, tag])[1:-1], o])
        elif kind == 'presp':
            corr = corr_of(op[1])
            body = enc_produce_resp(op[2])
            frame = feed(corr, body)
            o = after_reply(corr, observe(frame))
            ts = [[bval(t), [list(p) for p in ps]] for t, ps in op[2]]
            steps.append([vfmt(['presp', corr, ts])[1:-1], o])
            tags.add('presp')
        elif kind == 'mresp':
            corr = corr_of(op[1])
            body = enc_metadata_resp(op[2], op[3])
            frame = feed(corr, body)
            o = after_reply(corr, observe(frame))
            bs = [[n, bval(h), p] for n, h, p in op[2]]
            ts = [[e, bval(name), [[pe, pid, ld, list(r), list(i)] for pe, pid, ld, r, i in parts]]
                  for e, name, parts in op[3]]
            steps.append([vfmt(['mresp', corr, bs, ts])[1:-1], o])
            tags.add('mresp')
            if len({b[0] for b in bs}) < len(bs) or len({t[1] for t in ts}) < len(ts) or \
                    any(len({p[1] for p in t[2]}) < len(t[2]) for t in ts):
                tags.add('dup-keys')
        elif kind == 'raw':
            corr = corr_of(op[1])
            body = bval(op[2])
            frame = feed(corr, body)
            o = after_reply(corr, observe(frame))
            steps.append([vfmt(['raw', corr, body])[1:-1], o])
            tags.add('raw')
        elif kind == 'crc':
            data = bval(op[1])
            steps.append([vfmt(['crc', data])[1:-1], vfmt(['crc', zlib.crc32(data) & 0xffffffff])])
        else:
            raise ValueError(kind)
    # kinds of requests answered by the other kind of response
    try:
        transport.Close()
        rt.drain()
        rt.take_errors()
    except Exception:
        pass
    return {'comp': COMPONENT, 'cfg': vfmt([cid_b])[1:-1], 'steps': steps, 'tags': sorted(tags)}


def nontrivial(case):
    t = set(case.get('tags', []))
    return bool(t & {'rejected', 'unknown-corr', 'stale-corr', 'reused-corr', 'decode-error', 'dup-keys',
                     'empty-payload-list', 'empty-payload', 'payload>=64KiB', 'boundary', 'raised', 'topic>255'})
