"""A second family of Thrift interfaces, UNRELATED to `Store` / `Archive` / `Vault` (c14_iface.py,
c14_derived.py, c14_derived2.py) — a client process talks to both — laid out as the Thrift compiler's
Python generator lays out `journal/Journal.py`:

    struct Amount       { 1: i64 units, 2: i32 scale }
    struct Entry        { 1: i64 id, 2: string memo, 3: Amount amount, 4: binary stamp }
    exception Overdrawn { 1: i64 by, 2: string account }
    exception Frozen    { 1: string account, 2: Amount held }
    service Journal {
      void   ping(),                                                 // Store: void ping()            (the same)
      i64    put(1: Entry entry) throws (2: Frozen frozen),          // Store: void put(1: Item item, 2: bool overwrite) throws (1: Denied denied)
      string find(2: i64 id, 4: bool deep) throws (1: Overdrawn od), // Store: Item find(1: string key, 2: i64 version) throws (1: NotFound nf, 3: Denied denied)
      bool   count(1: string account),                               // Store: i64  count(1: i32 a, 2: i64 b)
      void   size(1: i32 hint) throws (1: Frozen frozen),            // Store: i32  size()
      Amount total(1: string account, 2: Amount floor) throws (1: Overdrawn od, 2: Frozen frozen),
    }

Five of the six method NAMES also exist in the Store family, four of them with another signature:
other argument types and field ids, another return type (void <-> non-void), another declared
exception under another or the same field id.  Nothing here refers to the Store family's types; only
the struct plumbing (`read` / `write` / the generated `process_<m>`) is the same code, as it is for
any two modules the Thrift compiler writes.
"""
from thrift.Thrift import TType, TProcessor

from props.c14_iface import _Struct, _Exc, _process_fn, _process_request


# ----------------------------------------------------------------------------- types
class Amount(_Struct):
    pass


Amount.thrift_spec = (
    None,  # 0
    (1, TType.I64, 'units', None, None, ),  # 1
    (2, TType.I32, 'scale', None, None, ),  # 2
)


class Entry(_Struct):
    pass


Entry.thrift_spec = (
    None,  # 0
    (1, TType.I64, 'id', None, None, ),  # 1
    (2, TType.STRING, 'memo', 'UTF8', None, ),  # 2
    (3, TType.STRUCT, 'amount', [Amount, Amount.thrift_spec], None, ),  # 3
    (4, TType.STRING, 'stamp', 'BINARY', None, ),  # 4
)


class Overdrawn(_Exc):
    pass


Overdrawn.thrift_spec = (
    None,  # 0
    (1, TType.I64, 'by', None, None, ),  # 1
    (2, TType.STRING, 'account', 'UTF8', None, ),  # 2
)


class Frozen(_Exc):
    pass


Frozen.thrift_spec = (
    None,  # 0
    (1, TType.STRING, 'account', 'UTF8', None, ),  # 1
    (2, TType.STRUCT, 'held', [Amount, Amount.thrift_spec], None, ),  # 2
)


# ----------------------------------------------------------------------------- service
class Iface(object):
    def ping(self):
        pass

    def put(self, entry):
        pass

    def find(self, id, deep):
        pass

    def count(self, account):
        pass

    def size(self, hint):
        pass

    def total(self, account, floor):
        pass


def _cls(name, spec):
    c = type(name, (_Struct,), {})
    c.thrift_spec = spec
    c.__module__ = __name__
    return c


ping_args = _cls('ping_args', ())
ping_result = _cls('ping_result', ())

put_args = _cls('put_args', (
    None,  # 0
    (1, TType.STRUCT, 'entry', [Entry, Entry.thrift_spec], None, ),  # 1
))
put_result = _cls('put_result', (
    (0, TType.I64, 'success', None, None, ),  # 0
    None,  # 1
    (2, TType.STRUCT, 'frozen', [Frozen, Frozen.thrift_spec], None, ),  # 2
))

find_args = _cls('find_args', (
    None,  # 0
    None,  # 1
    (2, TType.I64, 'id', None, None, ),  # 2
    None,  # 3
    (4, TType.BOOL, 'deep', None, None, ),  # 4
))
find_result = _cls('find_result', (
    (0, TType.STRING, 'success', 'UTF8', None, ),  # 0
    (1, TType.STRUCT, 'od', [Overdrawn, Overdrawn.thrift_spec], None, ),  # 1
))

count_args = _cls('count_args', (
    None,  # 0
    (1, TType.STRING, 'account', 'UTF8', None, ),  # 1
))
count_result = _cls('count_result', (
    (0, TType.BOOL, 'success', None, None, ),  # 0
))

size_args = _cls('size_args', (
    None,  # 0
    (1, TType.I32, 'hint', None, None, ),  # 1
))
size_result = _cls('size_result', (
    None,  # 0
    (1, TType.STRUCT, 'frozen', [Frozen, Frozen.thrift_spec], None, ),  # 1
))

total_args = _cls('total_args', (
    None,  # 0
    (1, TType.STRING, 'account', 'UTF8', None, ),  # 1
    (2, TType.STRUCT, 'floor', [Amount, Amount.thrift_spec], None, ),  # 2
))
total_result = _cls('total_result', (
    (0, TType.STRUCT, 'success', [Amount, Amount.thrift_spec], None, ),  # 0
    (1, TType.STRUCT, 'od', [Overdrawn, Overdrawn.thrift_spec], None, ),  # 1
    (2, TType.STRUCT, 'frozen', [Frozen, Frozen.thrift_spec], None, ),  # 2
))

METHODS = ['ping', 'put', 'find', 'count', 'size', 'total']      # the service's OWN methods
BASE = None                                                       # `extends`: the base service's module


class Processor(Iface, TProcessor):
    def __init__(self, handler):
        self._handler = handler
        self._processMap = {}
        for m in METHODS:
            self._processMap[m] = getattr(Processor, 'process_' + m)
        self._on_message_begin = None

    def on_message_begin(self, func):
        self._on_message_begin = func

    process = _process_request


for _m in METHODS:
    setattr(Processor, 'process_' + _m, _process_fn(_m, globals()[_m + '_args'], globals()[_m + '_result']))
del _m
