"""C13 — ThriftMux frames are byte-exact.

Runs the real codec of scales.thriftmux / scales.mux on generated messages:

  utf8 / utf8d   Python's own UTF-8 codec (validates the Lean encoder / strict decoder)
  hdr            SocketTransportSink._BuildHeader(tag, type, len)
  rdhdr          ThriftMuxMessageSerializerSink.ReadHeader(stream)
  marshal        MessageSerializer.Marshal(msg, buf, headers)  (Tdispatch / Tdiscarded body)
  wire           ClientIdInterceptorSink -> ThriftMuxMessageSerializerSink -> SocketTransportSink
                 on a fake socket: the bytes the send loop writes to the connection
                 (Tdispatch with the deadline header made by the sink, Tdiscarded produced by the
                 transport's own timeout path, Tping)
  stream         the same sink chain over the REAL VarzSocketWrapper / ScalesSocket on a fake OS socket that takes
                 a write in pieces and yields in between (a full kernel buffer): a large call is part-way
                 written when the keep-alive ping fires (`_SendPingMessage`, what `_PingLoop` does), the call
                 times out (the transport's Tdiscarded) and more calls are queued behind it; observed: the
                 reassembled byte STREAM of the connection, which the Lean spec splits by its length prefixes
  unmarshal      MessageSerializer.Unmarshal(tag, type, buf)
  reply          ThriftMuxMessageSerializerSink.AsyncProcessResponse on a reply stream

The Thrift payload is opaque here (C14): a stub serializer appends the given bytes, or the real
Thrift serializer is used and its output is taken as the payload."""
import struct

from lib import vfmt

PROPERTY = 'C13'
import isolation as _iso
ISOLATION = [(n, getattr(_iso, n)) for n in ['mux_serializer']]      # instance-isolation obligation (harness/isolation.py)
SOURCE_IMPORTS = ['ScalesModel.Model.MuxCodec']
SOURCE_CONSTANTS = {
    'Scales.MuxCodec.tDispatch': ('from scales.thriftmux.protocol import MessageType as M', 'M.Tdispatch'),
    'Scales.MuxCodec.tDiscarded': ('from scales.thriftmux.protocol import MessageType as M', 'M.Tdiscarded'),
    'Scales.MuxCodec.tPing': ('from scales.thriftmux.protocol import MessageType as M', 'M.Tping'),
    'Scales.MuxCodec.rDispatch': ('from scales.thriftmux.protocol import MessageType as M', 'M.Rdispatch'),
    'Scales.MuxCodec.rErr': ('from scales.thriftmux.protocol import MessageType as M', 'M.Rerr'),
    'Scales.MuxCodec.badRerr': ('from scales.thriftmux.protocol import MessageType as M', 'M.BAD_Rerr'),
}
COMPONENT = 'muxcodec'
QUICK = dict(gen=2400)
THOROUGH = dict(gen=40000)

TRUSTED = ['Python struct / str.encode as the reference for the byte-level comparison (utf8/utf8d ops)',
           'the fake OS socket under the real ScalesSocket / VarzSocketWrapper (stream op): send() takes a bounded '
           'piece and waits for writability, yielding, when its buffer is full',
           'the Thrift call bytes are an opaque payload here (C14 covers them)']
ASSUMPTIONS = ['stream op: the order in which messages reach the send queue is the order the script issues them '
               '(the spec itself does not demand any order of the frames)',
               'context keys are str (a non-str key is rejected by the code before anything is written)',
               'tags handed to the transport come from TagPool (C11); they are observed, not predicted',
               'Deadline._ts/_timeout are observed from the real Deadline object and passed to the model']
RULE = ('scripts drawn from the seeded generator plus the exhaustive enumerator (every type byte for '
        '_BuildHeader/ReadHeader at boundary tags, every UTF-8 boundary code point); distinct = distinct '
        '(cfg, op list); non-trivial = the script contains multi-byte text, a deadline, a duplicate or private '
        'key, a near-limit length, a tag >= 2^16, a non-negative reply type, an out-of-domain input, or a ping / '
        'Tdiscarded / call queued while another frame is part-way written')

DEADLINE_KEY = 'com.twitter.finagle.Deadline'
CLIENT_ID_KEY = 'com.twitter.finagle.thrift.ClientIdContext'
T24 = 1 << 24


def cps(s):
    return [ord(c) for c in s]


# ------------------------------------------------------------------ generation
BOUNDARY_CPS = [0, 1, 0x7f, 0x80, 0xe9, 0x7ff, 0x800, 0x20ac, 0xd7ff, 0xe000, 0xfffd, 0xffff, 0x10000,
                0x1f600, 0x10ffff]
TAGS = [0, 1, 2, 3, 127, 128, 255, 256, 257, 65535, 65536, 65537, 0x123456, T24 - 3, T24 - 2, T24 - 1]


def gen_text(rng, allow_long=False, ood=False):
    r = rng.random()
    if ood and r < 0.5:
        if rng.random() < 0.5:
            return [0x61, 0xd800 + rng.randrange(0x800), 0x62]     # lone surrogate: UnicodeEncodeError
        return [0x61] * 32768 if rng.random() < 0.5 else [0xe9] * 16384   # 32768 bytes: struct.error
    if r < 0.10:
        return []
    if r < 0.35:
        return [rng.randrange(0x20, 0x7f) for _ in range(rng.randrange(1, 12))]
    if r < 0.50:
        return [rng.choice([0xe9, 0xe4, 0xf1, 0x3b1, 0x416, 0x7ff, 0x80]) for _ in range(rng.randrange(1, 8))]
    if r < 0.62:
        return [rng.choice([0x20ac, 0x4e2d, 0x6587, 0x800, 0xffff, 0xd7ff, 0xe000]) for _ in range(rng.randrange(1, 8))]
    if r < 0.74:
        return [rng.choice([0x1f600, 0x10000, 0x10ffff, 0x1d11e]) for _ in range(rng.randrange(1, 6))]
    if r < 0.92 or not allow_long:
        return [rng.choice(BOUNDARY_CPS) if rng.random() < 0.5 else rng.randrange(0x20, 0x250)
                for _ in range(rng.randrange(1, 10))]
    # near the 2-byte signed length limit (32767 bytes)
    kind = rng.randrange(4)
    if kind == 0:
        return [0x61] * rng.choice([32767, 32766, 32000])
    if kind == 1:
        return [0xe9] * 16383 + ([0x61] if rng.random() < 0.7 else [])
    if kind == 2:
        return [0x20ac] * 10922 + ([0x61] if rng.random() < 0.7 else [])
    return [0x1f600] * 8191 + [0x61] * rng.choice([0, 1, 3])


def gen_i64(rng):
    return rng.choice([0, 1, -1, 10 ** 9, 1500000000 * 10 ** 9, (1 << 63) - 1, -(1 << 63), -5 * 10 ** 9,
                       rng.randrange(-(1 << 63), 1 << 63), rng.randrange(0, 1 << 40)])


def gen_val(rng, allow_long, ood):
    r = rng.random()
    if r < 0.12:
        if ood and rng.random() < 0.5:
            return ['d', rng.choice([1 << 63, -(1 << 63) - 1, 1 << 70]), gen_i64(rng)]
        return ['d', gen_i64(rng), gen_i64(rng)]
    if ood and r < 0.25:
        return ['o']
    return ['t', gen_text(rng, allow_long, ood and rng.random() < 0.3)]


def gen_key(rng, pool, allow_long, ood):
    r = rng.random()
    if pool and r < 0.15:
        return list(rng.choice(pool))           # duplicate assignment (dict update semantics)
    if r < 0.25:
        return cps('__') + gen_text(rng)        # private: never transported
    if r < 0.32:
        return cps(rng.choice([DEADLINE_KEY, CLIENT_ID_KEY]))
    if r < 0.36:
        return cps('_') + gen_text(rng)         # one underscore only: public
    return gen_text(rng, allow_long and rng.random() < 0.3, ood and rng.random() < 0.2)


def gen_payload(rng):
    r = rng.random()
    if r < 0.15:
        return {'hex': ''}
    if r < 0.3:
        return {'thrift': ''.join(chr(c) for c in gen_text(rng) if not 0xd800 <= c < 0xe000)}
    n = rng.choice([1, 2, 7, 30, 64, 300]) if r < 0.95 else rng.choice([4096, 70000])
    return {'hex': bytes(rng.randrange(256) for _ in range(n)).hex()}


def gen_call(rng, wire, ood=False):
    allow_long = rng.random() < 0.06
    pool = []
    props = []
    for _ in range(rng.choice([0, 1, 1, 2, 2, 3, 4, 6, 9])):
        k = gen_key(rng, pool, allow_long, ood)
        pool.append(k)
        v = gen_val(rng, allow_long, ood)
        if k[:2] == [95, 95] and rng.random() < 0.6:
            v = ['o']                            # private properties usually hold non-text objects
        props.append([k, v])
    m = {'k': 'call', 'props': props, 'payload': gen_payload(rng)}
    if wire:
        if rng.random() < 0.5:
            # the serializer sink turns the __Deadline property into the deadline header
            m['deadline_s'] = rng.choice([0.001, 0.5, 1, 5, 30, 3600, 1e9, 2.5, 0.0037] +
                                         ([1e10, 1e11] if ood else []))
        m['client_id'] = ''.join(chr(c) for c in gen_text(rng) if not 0xd800 <= c < 0xe000)
    else:
        hdrs = []
        for _ in range(rng.choice([0, 0, 1, 1, 2, 3])):
            if rng.random() < 0.5:
                hdrs.append([cps(DEADLINE_KEY), ['d', gen_i64(rng), gen_i64(rng)]])
            else:
                k = gen_key(rng, pool, allow_long, ood)
                pool.append(k)
                hdrs.append([k, gen_val(rng, allow_long, ood)])
        m['hdrs'] = hdrs
    return m


def gen_tag(rng):
    return rng.choice(TAGS) if rng.random() < 0.6 else rng.randrange(T24)


def gen_reply_body(rng):
    """an Rdispatch body: mostly well-formed, sometimes truncated / odd"""
    status = rng.choice([0, 0, 0, 1, 2, 3, 255])
    n = rng.choice([0, 0, 1, 2, 3])
    b = struct.pack('!bh', status if status < 128 else status - 256, n)
    for _ in range(n):
        for _ in range(2):
            x = bytes(rng.randrange(256) for _ in range(rng.choice([0, 1, 5, 20])))
            b += struct.pack('!h', len(x)) + x
    r = rng.random()
    if status in (0, 2) or r < 0.7:
        tail = bytes(rng.randrange(256) for _ in range(rng.choice([0, 3, 12]))) if status in (0, 2) else \
            ''.join(chr(c) for c in gen_text(rng) if not 0xd800 <= c < 0xe000).encode('utf-8')
    else:
        tail = bytes(rng.randrange(256) for _ in range(rng.choice([1, 2, 5])))     # probably invalid UTF-8
    b += tail
    r = rng.random()
    if r < 0.12:
        b = b[:rng.randrange(len(b) + 1)]          # truncated
    elif r < 0.18:
        b = struct.pack('!bh', 0, rng.choice([-1, -300, 5])) + b[3:]   # count that disagrees
    elif r < 0.22:
        b = struct.pack('!bh', 1, 1) + struct.pack('!h', -1) + b[3:]   # negative size: reads to the end
    return b


def gen_op(rng, ood):
    r = rng.random()
    if r < 0.07:
        return {'op': 'utf8', 's': gen_text(rng, rng.random() < 0.1, ood)}
    if r < 0.12:
        if rng.random() < 0.5:
            b = bytes(rng.randrange(256) for _ in range(rng.randrange(0, 6)))
        else:
            s = ''.join(chr(c) for c in gen_text(rng) if not 0xd800 <= c < 0xe000).encode('utf-8')
            b = bytearray(s)
            if b and rng.random() < 0.5:
                b[rng.randrange(len(b))] = rng.choice([0x80, 0xc0, 0xc1, 0xed, 0xa0, 0xf4, 0x90, 0xf5, 0xff, 0xe0, 0xf0])
            b = bytes(b)
        return {'op': 'utf8d', 'b': b.hex()}
    if r < 0.24:
        ty = rng.randrange(-128, 128)
        tag = gen_tag(rng)
        ln = rng.choice([0, 1, 4, 100, 65535, 65536, (1 << 31) - 5, rng.randrange(1 << 20)])
        if ood:
            c = rng.randrange(3)
            if c == 0:
                ty = rng.choice([128, -129, 200, 255, -200])
            elif c == 1:
                tag = rng.choice([T24, T24 + 1, T24 + 0x123456, 1 << 30])
            else:
                ln = rng.choice([(1 << 31) - 4, 1 << 31, 1 << 33])
        return {'op': 'hdr', 'tag': tag, 'ty': ty, 'len': ln}
    if r < 0.36:
        ty = rng.choice([-2, -128, 127, -65, 2, 66, 65, -62, 0, 1, -1, rng.randrange(-128, 128)])
        tag = gen_tag(rng)
        b = struct.pack('!bBBB', ty, tag >> 16 & 255, tag >> 8 & 255, tag & 255)
        b += bytes(rng.randrange(256) for _ in range(rng.choice([0, 0, 3, 9])))
        if ood:
            b = b[:rng.randrange(4)]
        return {'op': 'rdhdr', 'b': b.hex()}
    if r < 0.60:
        if rng.random() < 0.2:
            return {'op': 'marshal', 'm': {'k': 'discard', 'which': gen_tag(rng) if not ood else T24 + 7,
                                           'reason': gen_text(rng, False, ood)}}
        return {'op': 'marshal', 'm': gen_call(rng, False, ood)}
    if r < 0.82:
        c = rng.random()
        if c < 0.12:
            return {'op': 'wire', 'm': {'k': 'ping'}}
        if c < 0.3:
            return {'op': 'wire', 'm': {'k': 'timeout'}, 'tag': gen_tag(rng) or 2}
        return {'op': 'wire', 'm': gen_call(rng, True, ood), 'tag': max(2, gen_tag(rng))}
    if r < 0.92:
        ty = rng.choice([-2, -2, -2, -128, 127, 2, -65, 0, rng.randrange(-128, 128)])
        if ty == -2:
            b = gen_reply_body(rng)
        else:
            b = ''.join(chr(c) for c in gen_text(rng) if not 0xd800 <= c < 0xe000).encode('utf-8')
            if rng.random() < 0.15:
                b += bytes([rng.choice([0x80, 0xff, 0xc3])])
        return {'op': 'unmarshal', 'ty': ty, 'b': b.hex()}
    ty = rng.choice([-2, -2, -128, 127, 127, 2, -65, rng.randrange(-128, 128)])
    tag = gen_tag(rng)
    head = struct.pack('!bBBB', ty, tag >> 16 & 255, tag >> 8 & 255, tag & 255)
    if ty == -2:
        b = gen_reply_body(rng)
    else:
        b = ''.join(chr(c) for c in gen_text(rng) if not 0xd800 <= c < 0xe000).encode('utf-8')
    b = head + b
    if rng.random() < 0.05:
        b = b[:rng.randrange(5)]
    return {'op': 'reply', 'b': b.hex()}


def gen_stream(rng):
    """a call large enough to be written in several pieces, then — while it is part-way written — the keep-alive
    ping, its timeout, more calls"""
    chunk = rng.choice([1, 3, 7, 8, 13, 64, 64, 200, 1024])
    n = rng.choice([2, 3, 3, 4, 5, 7])
    tagset = rng.sample(TAGS[2:] + list(range(2, 60)), n)
    items = []
    if rng.random() < 0.25:
        items.append({'k': 'ping'})
    big = gen_call(rng, True, False)
    big['payload'] = {'hex': bytes(rng.randrange(256) for _ in range(rng.choice([0, 10, 100, 300, 1000, 3000]))).hex()}
    big['tag'] = tagset[0]
    items.append(big)
    for i in range(1, n):
        r = rng.random()
        if r < 0.4:
            it = {'k': 'ping'}
        elif r < 0.55:
            it = {'k': 'timeout'}
        else:
            it = gen_call(rng, True, False)
            if 'hex' in it['payload'] and len(it['payload']['hex']) > 2000:
                it['payload'] = {'hex': it['payload']['hex'][:600]}
            it['tag'] = tagset[i]
        it['yields'] = rng.choice([0, 0, 1, 1, 1, 2, 3, 5]) if i > 1 or rng.random() < 0.2 else rng.choice([1, 1, 2, 3])
        items.append(it)
    return {'op': 'stream', 'mode': rng.choice(['varz', 'varz', 'bare']), 'chunk': chunk, 'items': items}


def gen_script(rng, tier):
    ood = rng.random() < 0.12            # out-of-domain probes: compared with the model, no spec demand
    n = rng.choice([1, 2, 3, 4, 6])
    ops = [gen_op(rng, ood) for _ in range(n)]
    if rng.random() < 0.2:
        # calls issued while the opening handshake is unanswered (they park inside the transport)
        k = rng.choice([2, 2, 3, 4])
        tagset = rng.sample(range(2, 40), k)
        calls = [{'m': gen_call(rng, True, False), 'tag': t} for t in tagset]
        ops = [{'op': 'wirepark', 'calls': calls}] + ops
    if rng.random() < 0.12:
        ops.insert(rng.randrange(len(ops) + 1), gen_stream(rng))
    return {'ops': ops}


def exhaustive(tier, shard, shards):
    """every type byte through _BuildHeader and ReadHeader at boundary tags; every boundary code point"""
    k = 0
    tags = [0, 1, 2, 0x123456, T24 - 2, T24 - 1] if tier == 'quick' else TAGS
    for tag in tags:
        for lo in range(-128, 128, 32):
            k += 1
            if k % shards != shard:
                continue
            ops = []
            for ty in range(lo, lo + 32):
                ops.append({'op': 'hdr', 'tag': tag, 'ty': ty, 'len': (ty * 7 + tag) % 1000})
                ops.append({'op': 'rdhdr', 'b': struct.pack('!bBBB', ty, tag >> 16 & 255, tag >> 8 & 255,
                                                              tag & 255).hex()})
            yield {'ops': ops}
    k += 1
    if k % shards == shard:
        yield {'ops': [{'op': 'utf8', 's': [c]} for c in BOUNDARY_CPS + [0xd800, 0xdbff, 0xdc00, 0xdfff]] +
                      [{'op': 'marshal', 'm': {'k': 'call', 'props': [[[c], ['t', [c, c]]]], 'hdrs': [],
                                               'payload': {'hex': '00'}}} for c in BOUNDARY_CPS]}
    k += 1
    if k % shards == shard:
        # every 2-byte prefix class of the strict decoder
        ops = []
        for b0 in [0x7f, 0x80, 0xbf, 0xc0, 0xc1, 0xc2, 0xdf, 0xe0, 0xed, 0xef, 0xf0, 0xf4, 0xf5, 0xff]:
            for rest in ['', '80', 'bf', '9f80', 'a080', '8f8080', '908080', 'bfbfbf', '808080', '41']:
                ops.append({'op': 'utf8d', 'b': '%02x%s' % (b0, rest)})
        yield {'ops': ops}


def shrink(script):
    ops = script['ops']
    if len(ops) > 1:
        for i in range(len(ops)):
            yield {'ops': ops[:i] + ops[i + 1:]}
    for i, op in enumerate(ops):
        if op.get('op') == 'stream':
            items = op['items']

            def with_items(its, **kw):
                o2 = dict(op, items=its, **kw)
                return {'ops': ops[:i] + [o2] + ops[i + 1:]}
            for j in range(len(items)):
                if len(items) > 1:
                    yield with_items(items[:j] + items[j + 1:])
            for j, it in enumerate(items):
                if it.get('yields', 0) > 1:
                    yield with_items(items[:j] + [dict(it, yields=1)] + items[j + 1:])
                if it.get('k') == 'call':
                    for fld in ('props',):
                        for q in range(len(it.get(fld) or [])):
                            yield with_items(items[:j] + [dict(it, **{fld: it[fld][:q] + it[fld][q + 1:]})] + items[j + 1:])
                    if it.get('payload') != {'hex': ''}:
                        h = it['payload'].get('hex', '')
                        for h2 in ('', h[:len(h) // 4 * 2]):
                            if h2 != h:
                                yield with_items(items[:j] + [dict(it, payload={'hex': h2})] + items[j + 1:])
                    for fld in ('deadline_s', 'client_id'):
                        if it.get(fld):
                            it2 = dict(it)
                            it2.pop(fld)
                            yield with_items(items[:j] + [it2] + items[j + 1:])
            if op.get('mode', 'varz') != 'varz':
                yield with_items(items, mode='varz')
            if op.get('chunk', 64) not in (8, 64):
                yield with_items(items, chunk=64)
                yield with_items(items, chunk=8)
            continue
        m = op.get('m')
        if not m or m.get('k') != 'call':
            continue

        def with_m(m2):
            o2 = dict(op)
            o2['m'] = m2
            return {'ops': ops[:i] + [o2] + ops[i + 1:]}
        for fld in ('props', 'hdrs'):
            lst = m.get(fld) or []
            for j in range(len(lst)):
                m2 = dict(m)
                m2[fld] = lst[:j] + lst[j + 1:]
                yield with_m(m2)
            for j, (k, v) in enumerate(lst):
                if len(k) > 1:
                    for k2 in (k[:len(k) // 2], k[len(k) // 2:], k[1:], k[:-1]):
                        m2 = dict(m)
                        m2[fld] = lst[:j] + [[k2, v]] + lst[j + 1:]
                        yield with_m(m2)
                if v[0] == 't' and len(v[1]) > 0:
                    for s2 in ([], v[1][:len(v[1]) // 2], v[1][1:]):
                        m2 = dict(m)
                        m2[fld] = lst[:j] + [[k, ['t', s2]]] + lst[j + 1:]
                        yield with_m(m2)
        if m.get('payload') not in ({'hex': ''}, {'hex': '00'}):
            m2 = dict(m)
            m2['payload'] = {'hex': ''}
            yield with_m(m2)
        for fld in ('deadline_s', 'client_id'):
            if m.get(fld):
                m2 = dict(m)
                m2.pop(fld)
                yield with_m(m2)


# ------------------------------------------------------------------ running the real code
def text_of(cp_list):
    return ''.join(chr(c) for c in cp_list)


def errname(ex):
    import struct as _s
    if isinstance(ex, _s.error):
        return 'struct'
    if isinstance(ex, UnicodeError):
        return 'unicode'
    if isinstance(ex, NotImplementedError):
        return 'notimpl'
    if isinstance(ex, KeyError):
        return 'key'
    return 'other-' + type(ex).__name__


class _StubThrift(object):
    """stands in for scales.thrift.serializer.MessageSerializer: the call is an opaque byte string"""
    def __init__(self):
        self.payload = b''

    def SerializeThriftCall(self, msg, buf):
        buf.write(self.payload)

    def DeserializeThriftCall(self, buf):
        from scales.message import MethodReturnMessage
        return MethodReturnMessage(return_value=('payload', buf.read()))


class _Capture(object):
    """bottom of a sink stack: records what comes back"""
    def __init__(self):
        self.got = []

    def AsyncProcessResponse(self, sink_stack, context, stream, msg):
        self.got.append((stream, msg))


class _Provider(object):
    def __init__(self, sink):
        self.sink = sink

    def CreateSink(self, properties):
        return self.sink


class _FakeSock(object):
    host, port = 'peer', 4242

    def __init__(self):
        import gevent.event
        self.written = []
        self.buf = bytearray()
        self.evt = gevent.event.Event()
        self.closed = False
        self.hold_ping = False
        self.held = []

    def release_ping(self):
        self.hold_ping = False
        for b in self.held:
            self.feed(b)
        del self.held[:]

    def open(self):
        pass

    def isOpen(self):
        return not self.closed

    def close(self):
        self.closed = True
        self.evt.set()

    def write(self, b):
        b = bytes(b)
        self.written.append(b)
        # a mux peer answers Tping (type 65) with Rping on the same tag
        if len(b) == 8 and b[4] == 65:
            rping = struct.pack('!ib', 4, -65) + b[5:8]
            if self.hold_ping:
                self.held.append(rping)       # the peer is slow to answer the opening handshake
            else:
                self.feed(rping)

    def feed(self, b):
        self.buf += b
        self.evt.set()

    def readAll(self, n):
        while len(self.buf) < n:
            if self.closed:
                raise EOFError()
            self.evt.clear()
            self.evt.wait()
        out = bytes(self.buf[:n])
        del self.buf[:n]
        return out


class _PieceConn(object):
    """A fake OS socket (what `ScalesSocket.handle` is: a gevent socket).  `send` takes at most `chunk` bytes —
    the room left in the kernel buffer — and, when the buffer is full, first waits for writability, which lets
    other greenlets run; `sendall` is gevent's loop over `send`.  Every byte that reaches the peer is appended to
    `stream`; the peer answers each whole Tping frame it can split off the stream with an Rping."""

    def __init__(self, chunk):
        import gevent.event
        self.chunk = chunk
        self.stream = bytearray()
        self.parsed = 0            # the peer has consumed whole frames up to here
        self.peer_lost = False     # the peer could not make sense of the stream any more
        self.full = False
        self.to_client = bytearray()
        self.evt = gevent.event.Event()
        self.closed = False
        self.yields = 0

    # --- client side
    def connect(self, addr):
        pass

    def setsockopt(self, *a):
        pass

    def close(self):
        self.closed = True
        self.evt.set()

    def send(self, data):
        import gevent
        import socket as _socket
        if self.closed:
            raise _socket.error(9, 'Bad file descriptor')
        if self.full:
            self.yields += 1
            gevent.sleep(0)        # wait for writability
            self.full = False
            if self.closed:
                raise _socket.error(9, 'Bad file descriptor')
        data = bytes(data)
        n = min(len(data), self.chunk)
        self.stream += data[:n]
        self.full = n == self.chunk
        self._peer()
        return n

    def sendall(self, data):
        data = bytes(data)
        while data:
            data = data[self.send(data):]

    def recv_into(self, view, sz):
        import socket as _socket
        while True:
            if self.closed:
                raise _socket.error(9, 'Bad file descriptor')
            if self.to_client:
                n = min(sz, len(self.to_client))
                view[:n] = self.to_client[:n]
                del self.to_client[:n]
                return n
            self.evt.clear()
            self.evt.wait()

    def recv(self, sz):
        b = bytearray(sz)
        n = self.recv_into(memoryview(b), sz)
        return bytes(b[:n])

    # --- peer side
    def mid_frame(self):
        """the peer holds the beginning of a frame whose end has not arrived"""
        return len(self.stream) > self.parsed

    def _peer(self):
        while not self.peer_lost and len(self.stream) - self.parsed >= 4:
            sz = int.from_bytes(self.stream[self.parsed:self.parsed + 4], 'big')
            if sz < 4 or sz > (1 << 24):
                self.peer_lost = True
                return
            if len(self.stream) - self.parsed - 4 < sz:
                return
            frame = bytes(self.stream[self.parsed + 4:self.parsed + 4 + sz])
            self.parsed += 4 + sz
            if frame[0] == 65:
                self.to_client += struct.pack('!ib', 4, -65) + frame[1:4]
                self.evt.set()


def _piece_socket(mode, chunk):
    """the REAL scales.scales_socket.ScalesSocket — under the REAL VarzSocketWrapper as the transport provider
    builds it (mode 'varz': writes go through handle.sendall), or bare (mode 'bare': ScalesSocket.write loops
    over handle.send) — with only the OS socket class and name resolution replaced"""
    import scales.scales_socket as ss
    from scales.varz import VarzSocketWrapper
    conn = _PieceConn(chunk)
    sock = ss.ScalesSocket('peer', 4242)
    sock._resolveAddr = lambda: [(2, 1, 6, '', ('peer', 4242))]
    orig = ss.gsocket
    ss.gsocket = lambda family, type_: conn
    if mode == 'varz':
        sock = VarzSocketWrapper(sock, 'svc')
    return sock, conn, orig


class _Env(object):
    """the real sinks, built lazily once per script"""
    def __init__(self):
        self.stack_built = False
        self.thrift = None

    def serializer(self):
        from scales.thriftmux.serializer import MessageSerializer
        ser = MessageSerializer(None)
        ser._thrift_serializer = _StubThrift()
        return ser

    def real_thrift(self):
        if self.thrift is None:
            from scales.thrift.serializer import MessageSerializer as TS
            from test.scales.thrift.gen_py.hello import Hello
            self.thrift = TS(Hello.Iface)
        return self.thrift

    def build_stack(self, hold_ping=False, pieces=None):
        import rt
        from scales.constants import SinkProperties
        from scales.thriftmux import sink as tmsink
        from scales.message import Deadline
        self.conn = None
        if pieces:
            self.sock, self.conn, self._orig_gsocket = _piece_socket(pieces[0], pieces[1])
        else:
            self.sock = _FakeSock()
            self.sock.hold_ping = hold_ping
        self.transport = tmsink.SocketTransportSink(self.sock, 'svc')
        ar = self.transport.Open()
        self.open_ar = ar
        rt.drain()
        if self.conn is not None:
            import scales.scales_socket as ss
            ss.gsocket = self._orig_gsocket      # only open() instantiates it
        if not hold_ping:
            assert ar.ready() and ar.exception is None, 'transport did not open: %r' % (ar.exception,)
        # the serializer sink is built the way the builder builds it, with the service interface: the Thrift serializer
        # it makes for itself is the one used for calls with a Thrift payload (`ctor_thrift`, None if it made none)
        from test.scales.thrift.gen_py.hello import Hello
        gp = {SinkProperties.ServiceInterface: Hello.Iface, SinkProperties.Label: 'svc'}
        self.ser_sink = tmsink.ThriftMuxMessageSerializerSink(_Provider(self.transport), None, gp)
        self.ctor_thrift = getattr(self.ser_sink._serializer, '_thrift_serializer', None)

        class SP(object):
            client_id = 'client'
        self.sp = SP
        self.cid_sink = tmsink.ClientIdInterceptorSink(_Provider(self.ser_sink), SP, gp)
        env = self
        env.deadlines = []

        class RecDeadline(Deadline):
            def __init__(self, timeout):
                Deadline.__init__(self, timeout)
                env.deadlines.append(self)
        self._orig_deadline = tmsink.Deadline
        tmsink.Deadline = RecDeadline
        env.discards = []
        orig_create = tmsink.SocketTransportSink._CreateDiscardMessage

        def rec_create(tag):
            r = orig_create(tag)
            env.discards.append((r[0].which, r[0].reason))
            return r
        self._orig_create = orig_create
        tmsink.SocketTransportSink._CreateDiscardMessage = staticmethod(rec_create)
        self.stack_built = True
        if self.conn is not None:
            self.open_frames = [bytes(self.conn.stream)]
            self.base = len(self.conn.stream)
        else:
            self.open_frames = list(self.sock.written)
            del self.sock.written[:]

    def teardown(self):
        if self.stack_built:
            import rt
            from scales.thriftmux import sink as tmsink
            tmsink.Deadline = self._orig_deadline
            tmsink.SocketTransportSink._CreateDiscardMessage = staticmethod(self._orig_create)
            self.transport.Close()
            rt.drain()


def py_val(v):
    from scales.message import Deadline
    if v[0] == 't':
        return text_of(v[1])
    if v[0] == 'd':
        d = Deadline.__new__(Deadline)
        d._ts, d._timeout = v[1], v[2]
        return d
    return 5


def v_val(v):
    if v[0] == 't':
        return ('t', list(v[1]))
    if v[0] == 'd':
        return ('d', v[1], v[2])
    return 'o'


def v_entries(lst):
    return [(list(k), v_val(v)) for k, v in lst]


def note_text(tags, s):
    if any(c >= 0x10000 for c in s):
        tags.add('astral')
    if any(0x80 <= c < 0x10000 for c in s):
        tags.add('nonascii')
    if not s:
        tags.add('empty-text')
    if len(s) >= 8000:
        tags.add('near-limit-length')
    if any(0xd800 <= c < 0xe000 for c in s) or len(s) >= 16384 and len(text_of_safe(s)) >= 32768:
        tags.add('ood')


def text_of_safe(s):
    try:
        return text_of(s).encode('utf-8')
    except UnicodeError:
        return b''


def note_entries(tags, lst):
    seen = set()
    for k, v in lst:
        note_text(tags, k)
        if tuple(k) in seen:
            tags.add('dup-key')
        seen.add(tuple(k))
        if k[:2] == [95, 95]:
            tags.add('private-key')
        if v[0] == 't':
            note_text(tags, v[1])
        elif v[0] == 'd':
            tags.add('deadline')
            if not (-(1 << 63) <= v[1] < (1 << 63) and -(1 << 63) <= v[2] < (1 << 63)):
                tags.add('ood')
        else:
            if k[:2] != [95, 95]:
                tags.add('ood')


def issue_call(env, op, m, cap, tags, parked, payload_of, drain=True, event=None):
    """one call through ClientIdInterceptorSink -> ThriftMuxMessageSerializerSink -> transport; `parked`: on its own
    greenlet (the transport blocks it until the channel is open)"""
    import gevent
    import rt
    from scales.message import MethodCallMessage
    from scales.sink import ClientMessageSinkStack
    payload, targ = payload_of(m['payload'])
    ts = env.ser_sink._serializer
    if targ is not None:
        if env.ctor_thrift is not None:
            ts._thrift_serializer = env.ctor_thrift
        elif hasattr(ts, '_thrift_serializer'):
            del ts._thrift_serializer          # the constructor made none: the call meets what the constructor left
        msg = MethodCallMessage(None, 'hi', (targ,), {})
    else:
        ts._thrift_serializer = _StubThrift()
        ts._thrift_serializer.payload = payload
        msg = MethodCallMessage(None, 'm', (), {})
    assigns = []
    for k, v in m['props']:
        msg.properties[text_of(k)] = py_val(v)
        assigns.append([k, v])
    if 'deadline_s' in m:
        msg.properties['__Deadline'] = m['deadline_s']
        assigns.append([cps('__Deadline'), ['o']])
    if event is not None:
        msg.properties['__Deadline_Event'] = event
        assigns.append([cps('__Deadline_Event'), ['o']])
    env.cid_sink._client_id = m.get('client_id', 'client')
    assigns.append([cps(CLIENT_ID_KEY), ['t', cps(env.cid_sink._client_id)]])
    del env.deadlines[:]
    if not parked:
        env.transport._tag_pool._set = {op.get('tag', 2)}
    stack = ClientMessageSinkStack()
    stack.Push(cap)
    err = None
    if parked:
        box = []

        def run():
            try:
                env.cid_sink.AsyncProcessRequest(stack, msg, None, {})
            except Exception as ex:
                box.append(errname(ex))
        gevent.spawn(run)
        rt.drain()
        err = box[0] if box else None
    else:
        try:
            env.cid_sink.AsyncProcessRequest(stack, msg, None, {})
            if drain:
                rt.drain()
        except Exception as ex:
            err = errname(ex)
    return msg, assigns, payload, err


def call_hdrs(env, m=None):
    hdrs = []
    if env.deadlines:
        d = env.deadlines[-1]
        hdrs.append([cps(DEADLINE_KEY), ['d', int(d._ts), int(d._timeout)]])
    elif m is not None and m.get('deadline_s'):
        # the call carried a deadline but the serializer sink made no Deadline object for it: the context entry was
        # supplied all the same (the values are unknown: zeros), the frame will be judged against it
        hdrs.append([cps(DEADLINE_KEY), ['d', 0, 0]])
    return hdrs



def run_script(script):
    import rt
    from scales.compat import BytesIO
    from scales.message import MethodCallMessage, MethodDiscardMessage, ServerError
    from scales.sink import ClientMessageSinkStack
    from scales.thriftmux.sink import SocketTransportSink, ThriftMuxMessageSerializerSink
    from scales.observable import Observable
    env = _Env()
    steps, tags = [], set()

    def payload_of(p):
        """-> (bytes, use_real_thrift_arg | None)"""
        if 'thrift' in p:
            ts = env.real_thrift()
            m = MethodCallMessage(None, 'hi', (p['thrift'],), {})
            b = BytesIO()
            ts.SerializeThriftCall(m, b)
            tags.add('thrift-payload')
            return b.getvalue(), p['thrift']
        return bytes.fromhex(p['hex']), None

    def reply_obs(msg):
        if msg.error is not None:
            if isinstance(msg.error, ServerError):
                return ['srverr', str(msg.error).encode('utf-8')]
            return ['err', errname(msg.error)]
        rv = msg.return_value
        if isinstance(rv, tuple) and rv and rv[0] == 'payload':
            return ['ret', rv[1]]
        return ['err', 'other-return']

    try:
        for op in script['ops']:
            kind = op['op']
            tags.add(kind)
            if kind == 'utf8':
                note_text(tags, op['s'])
                try:
                    obs = text_of(op['s']).encode('utf-8')
                except Exception as ex:
                    obs = ['err', errname(ex)]
                steps.append([vfmt(['utf8', list(op['s'])])[1:-1], vfmt(obs)])
            elif kind == 'utf8d':
                b = bytes.fromhex(op['b'])
                try:
                    obs = ['text', cps(b.decode('utf-8'))]
                    tags.add('utf8d-valid')
                except Exception as ex:
                    obs = ['err', errname(ex)]
                    tags.add('utf8d-invalid')
                steps.append([vfmt(['utf8d', b])[1:-1], vfmt(obs)])
            elif kind == 'hdr':
                t = SocketTransportSink.__new__(SocketTransportSink)
                try:
                    obs = t._BuildHeader(op['tag'], op['ty'], op['len'])
                except Exception as ex:
                    obs = ['err', errname(ex)]
                    tags.add('ood')
                if op['tag'] >= 65536:
                    tags.add('tag-high')
                if op['tag'] >= T24:
                    tags.add('ood')
                steps.append([vfmt(['hdr', op['tag'], op['ty'], op['len']])[1:-1], vfmt(obs)])
            elif kind == 'rdhdr':
                b = bytes.fromhex(op['b'])
                try:
                    ty, tag = ThriftMuxMessageSerializerSink.ReadHeader(BytesIO(b))
                    obs = ['head', ty, tag]
                except Exception as ex:
                    obs = ['err', errname(ex)]
                    tags.add('ood')
                if b and b[0] < 128:
                    tags.add('type-nonneg')
                steps.append([vfmt(['rdhdr', b])[1:-1], vfmt(obs)])
            elif kind == 'marshal':
                m = op['m']
                ser = env.serializer()
                if m['k'] == 'call':
                    payload, targ = payload_of(m['payload'])
                    if targ is not None:
                        ser._thrift_serializer = env.real_thrift()
                        msg = MethodCallMessage(None, 'hi', (targ,), {})
                    else:
                        ser._thrift_serializer.payload = payload
                        msg = MethodCallMessage(None, 'm', (), {})
                    for k, v in m['props']:
                        msg.properties[text_of(k)] = py_val(v)
                    headers = {}
                    for k, v in m['hdrs']:
                        headers[text_of(k)] = py_val(v)
                    note_entries(tags, m['props'])
                    note_entries(tags, m['hdrs'])
                    vm = ('call', v_entries(m['props']), v_entries(m['hdrs']), payload)
                else:
                    msg = MethodDiscardMessage(m['which'], text_of(m['reason']))
                    headers = {}
                    note_text(tags, m['reason'])
                    tags.add('discard')
                    if m['which'] >= T24:
                        tags.add('ood')
                    vm = ('discard', m['which'], list(m['reason']))
                buf = BytesIO()
                try:
                    ser.Marshal(msg, buf, headers)
                    obs = ['body', headers['__MessageType'], buf.getvalue()]
                except Exception as ex:
                    obs = ['err', errname(ex)]
                    tags.add('marshal-error')
                steps.append([vfmt(['marshal', vm])[1:-1], vfmt(obs)])
            elif kind == 'wirepark':
                # calls issued while the transport's opening handshake (Tping) is still unanswered: each one
                # runs through the serializer sink and parks inside the transport until the channel is open;
                # then the peer answers and every parked call writes its frame
                if env.stack_built:
                    continue
                env.build_stack(hold_ping=True)
                for f in env.open_frames:
                    steps.append([vfmt(['wire', 1, 'ping'])[1:-1], vfmt(f)])
                sock, tr = env.sock, env.transport
                del sock.written[:]
                tags.add('parked-during-open')
                tr._tag_pool._set = set(c.get('tag', 2 + i) for i, c in enumerate(op['calls']))
                parked = []
                for c in op['calls']:
                    cap = _Capture()
                    msg, assigns, payload, err = issue_call(env, c, c['m'], cap, tags, True, payload_of)
                    parked.append((c, msg, assigns, payload, call_hdrs(env, c['m']), cap, err))
                env.sock.release_ping()
                rt.drain()
                frames = {}
                for f in sock.written:
                    if len(f) >= 8:
                        frames.setdefault(int.from_bytes(f[5:8], 'big'), []).append(f)
                for c, msg, assigns, payload, hdrs, cap, err in parked:
                    note_entries(tags, assigns)
                    note_entries(tags, hdrs)
                    tag = msg.properties.get('__Tag', 0)
                    vm = ('call', v_entries(assigns), v_entries(hdrs), payload)
                    got = frames.get(tag, [])
                    if err is not None:
                        obs = ['err', err]
                    elif cap.got:
                        obs = ['err', errname(cap.got[0][1].error)] if cap.got[0][1] is not None else ['err', 'other']
                        tags.add('marshal-error')
                    elif len(got) == 1:
                        obs = got[0]
                    elif not got:
                        obs = ['err', 'nowrite']
                    else:
                        obs = ['err', 'other-%d-writes' % len(got)]
                    steps.append([vfmt(['wire', tag, vm])[1:-1], vfmt(obs)])
                del sock.written[:]
            elif kind == 'wire':
                if not env.stack_built:
                    env.build_stack()
                    # the frame written while opening is the transport's Tping on tag 1
                    for f in env.open_frames:
                        steps.append([vfmt(['wire', 1, 'ping'])[1:-1], vfmt(f)])
                m = op['m']
                tags.add('wire-' + m['k'])
                sock, tr = env.sock, env.transport
                del sock.written[:]
                cap = _Capture()
                obs = None
                if m['k'] == 'ping':
                    tr._SendPingMessage()
                    rt.drain()
                    tag, vm = 1, 'ping'
                elif m['k'] == 'timeout':
                    # a call that times out in transit: the transport itself creates and sends Tdiscarded
                    del env.discards[:]
                    want_tag = op.get('tag', 2)
                    tr._tag_pool._set = {want_tag}
                    msg = MethodCallMessage(None, 'm', (), {})
                    evt = Observable()
                    msg.properties['__Deadline_Event'] = evt
                    stack = ClientMessageSinkStack()
                    stack.Push(cap)
                    env.ser_sink._serializer._thrift_serializer = _StubThrift()
                    env.ser_sink._serializer._thrift_serializer.payload = b'\x00'
                    env.ser_sink.AsyncProcessRequest(stack, msg, None, {})
                    rt.drain()
                    call_tag = msg.properties.get('__Tag', want_tag)    # the tag the call went out under
                    # the call itself is a frame on the connection too
                    first = sock.written[0] if len(sock.written) == 1 else ['err', 'other-%d-writes' % len(sock.written)]
                    steps.append([vfmt(['wire', call_tag, ('call', [(cps('__Deadline_Event'), 'o')], [], b'\x00')])[1:-1],
                                  vfmt(first)])
                    del sock.written[:]
                    rt.fire_deadline(evt)
                    rt.drain()
                    # supplied: the tag of the timed-out call; the reason text is the transport's own choice
                    reason = env.discards[-1][1] if env.discards else '?'
                    vm = ('discard', call_tag, cps(reason))
                    tag = 0
                    if want_tag >= 65536:
                        tags.add('tag-high')
                else:
                    msg, assigns, payload, err = issue_call(env, op, m, cap, tags, False, payload_of)
                    if err is not None:
                        obs = ['err', err]
                    hdrs = call_hdrs(env, m)
                    note_entries(tags, assigns)
                    note_entries(tags, hdrs)
                    tag = msg.properties.get('__Tag', op.get('tag', 2))
                    if tag >= 65536:
                        tags.add('tag-high')
                    vm = ('call', v_entries(assigns), v_entries(hdrs), payload)
                    if cap.got and obs is None:
                        obs = ['err', errname(cap.got[0][1].error)] if cap.got[0][1] is not None else ['err', 'other']
                        tags.add('marshal-error')
                if obs is None:
                    if len(sock.written) == 1:
                        obs = sock.written[0]
                    elif not sock.written:
                        obs = ['err', 'nowrite']
                    else:
                        obs = ['err', 'other-%d-writes' % len(sock.written)]
                steps.append([vfmt(['wire', tag, vm])[1:-1], vfmt(obs)])
            elif kind == 'stream':
                # its own connection: the real socket classes over an OS socket that takes writes in pieces
                import gevent
                senv = _Env()
                senv.thrift = env.thrift
                senv.build_stack(pieces=(op.get('mode', 'varz'), max(1, op.get('chunk', 64))))
                try:
                    for f in senv.open_frames:
                        steps.append([vfmt(['wire', 1, 'ping'])[1:-1], vfmt(f)])
                    conn, tr = senv.conn, senv.transport
                    tags.add('stream-' + op.get('mode', 'varz'))
                    items = []           # (tag, message) in the order they were put on the send queue
                    first = None         # the first call: (tag, event)
                    for it in op['items']:
                        for _ in range(it.get('yields', 0)):
                            gevent.sleep(0)
                        mid = conn.mid_frame()
                        behind = mid or not tr._send_queue.empty()
                        if it['k'] == 'ping':
                            tr._SendPingMessage()            # what _PingLoop does when its timer goes off
                            items.append((1, 'ping'))
                            tags.add('stream-ping')
                            if mid:
                                tags.add('ping-while-frame-half-written')
                        elif it['k'] == 'timeout':
                            # the first call's deadline passes; only meaningful once the send loop has taken the
                            # call off the queue (it then sends Tdiscarded itself instead of dropping the call)
                            if first is None or first[1].Get() or not first[1]._one_shot_callbacks:
                                tags.add('stream-timeout-skipped')
                                continue
                            del senv.discards[:]
                            rt.fire_deadline(first[1])
                            gevent.sleep(0)                  # the event's subscribers run on their own greenlet
                            reason = senv.discards[-1][1] if senv.discards else '?'
                            items.append((0, ('discard', first[0], cps(reason))))
                            tags.add('discard')
                            if mid:
                                tags.add('discard-while-frame-half-written')
                        else:
                            cap = _Capture()
                            evt = Observable() if first is None else None
                            msg, assigns, payload, err = issue_call(senv, {'tag': it.get('tag', 2)}, it, cap, tags,
                                                                    False, payload_of, drain=False, event=evt)
                            hdrs = call_hdrs(senv, it)
                            note_entries(tags, assigns)
                            note_entries(tags, hdrs)
                            tag = msg.properties.get('__Tag', it.get('tag', 2))
                            if tag >= 65536:
                                tags.add('tag-high')
                            if first is None:
                                first = (tag, evt)
                            if err is not None or cap.got:
                                tags.add('marshal-error')
                            items.append((tag, ('call', v_entries(assigns), v_entries(hdrs), payload)))
                            if behind:
                                tags.add('call-queued-behind-unfinished-frame')
                    rt.drain()
                    if conn.yields:
                        tags.add('frame-written-in-pieces')
                    if len(items) >= 3:
                        tags.add('stream-3+')
                    steps.append([vfmt(['stream', items])[1:-1], vfmt(bytes(conn.stream[senv.base:]))])
                finally:
                    senv.teardown()
                    env.thrift = senv.thrift
            elif kind == 'unmarshal':
                b = bytes.fromhex(op['b'])
                ser = env.serializer()
                try:
                    obs = reply_obs(ser.Unmarshal(0, op['ty'], BytesIO(b)))
                except Exception as ex:
                    obs = ['err', errname(ex)]
                tags.add('unmarshal-' + str(obs[0]))
                steps.append([vfmt(['unmarshal', op['ty'], b])[1:-1], vfmt(obs)])
            elif kind == 'reply':
                b = bytes.fromhex(op['b'])
                from scales.constants import SinkProperties
                gp = {SinkProperties.ServiceInterface: None, SinkProperties.Label: 'svc'}
                sink = ThriftMuxMessageSerializerSink(_Provider(None), None, gp)
                sink._serializer._thrift_serializer = _StubThrift()
                cap = _Capture()
                stack = ClientMessageSinkStack()
                stack.Push(cap)
                sink.AsyncProcessResponse(stack, None, BytesIO(b), None)
                obs = reply_obs(cap.got[0][1]) if cap.got else ['err', 'other-noreply']
                if b and b[0] < 128:
                    tags.add('type-nonneg')
                tags.add('reply-' + str(obs[0]))
                steps.append([vfmt(['reply', b])[1:-1], vfmt(obs)])
            else:
                raise ValueError(kind)
    finally:
        env.teardown()
    errs = rt.take_errors()
    if errs:
        tags.add('hub-error')
        steps.append(['utf8 ()', vfmt(['err', 'other-hub-' + errs[0][0]])])
    return {'comp': COMPONENT, 'cfg': '', 'steps': steps, 'tags': sorted(tags)}


def nontrivial(case):
    t = set(case.get('tags', []))
    return bool(t & {'nonascii', 'astral', 'deadline', 'dup-key', 'private-key', 'near-limit-length', 'tag-high',
                     'type-nonneg', 'ood', 'discard', 'wire-timeout', 'marshal-error', 'utf8d-invalid',
                     'thrift-payload', 'ping-while-frame-half-written', 'discard-while-frame-half-written',
                     'call-queued-behind-unfinished-frame'})
