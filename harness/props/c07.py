"""C07 — watermark pool: run the real WatermarkPoolSink (under a real ClientTimeoutSink and the real
global TimerQueue, over mock connections and a mock provider) on an operation script.

Script: {'min','max','maxq','mode': 'step'|'hub', 'ops': [...]} with ops
  ['req', ok, has_timer, lat]  a new call (ids 0,1,2,.. in arrival order), issued from its own greenlet when `lat`;
                           if a connection is created for it: `lat` — its Open() stays pending (the greenlet blocks
                           inside _Get) until an `opened` op; otherwise `ok` — whether it opens (at once)
  ['opened', sid, ok]      the pending Open() of connection sid completes (ok / fails); the blocked greenlet resumes
  ['openedany', k, ok]     same, for the k-th (mod n) of the connections that are currently being opened
  ['resp', c]              the connection serving call c posts a reply into c's sink stack
  ['to', c]                virtual time advances to c's deadline: the real timer fires and drains c's stack
  ['die', sid]             connection sid dies (state Closed, fault signal)
  ['run']                  step mode: run the oldest deferred _ProcessQueue; hub mode: let the hub run all of them
  ['close']                pool.Close()
  ['open', ok]             pool.Open() and one hub turn
Operations that make no sense at that point of the real run (reply on a call that is still queued,
timer of a call that has no timer / already completed, unknown ids, `run` with nothing deferred) are skipped:
no step is emitted for them.

Observed per step: events in real order (provider.CreateSink, sink.Close, request reaching a sink, append
to _waiters, entry of _Release with a real sink, response reaching the caller, escaped exception) and
_current_size, _cache, _waiters, deferred _ProcessQueue greenlets, _state."""
import itertools

from lib import vfmt

PROPERTY = 'C07'
import isolation as _iso
ISOLATION = [(n, getattr(_iso, n)) for n in ['watermark_pool']]      # instance-isolation obligation (harness/isolation.py)
COMPONENT = 'watermark'
QUICK = dict(gen=1500, exhaustive_len=5)
THOROUGH = dict(gen=50000, exhaustive_len=6)
INF = 2147483647

SOURCE_IMPORTS = ['ScalesModel.Model.Watermark']
_RELEASE_VARS = {'self.state == ChannelState.Closed': 'pc', 'sink.state == ChannelState.Closed': 'sc', 'any(self._waiters)': 'hw', 'self._current_size': 'size', 'self._min_size': 'mn'}
# decision logic translated from the current source on every run (harness/pytrans.py); each obligation states that
# the hand-written model function is the translated decision applied to the model state, for every state
SOURCE_SITES = [
    dict(name='genReleaseBranch', file='scales/pool/watermark.py', func='WatermarkPoolSink._Release', kind='branch',
         marker='self.state == ChannelState.Closed', varmap=_RELEASE_VARS,
         params=['pc : Bool', 'sc : Bool', 'hw : Bool', 'size', 'mn'],
         obligation='open Scales.Watermark\ntheorem genReleaseBranch_eq (cfg : Cfg) (s0 : St) (sid : Nat) :\n    let s := s0.emit (.rel sid)\n    release cfg s0 sid =\n      (match genReleaseBranch (decide (s.pstate = .closed)) (!(s.alive sid)) (!s.waiters.isEmpty) s.size cfg.min with\n       | 0 => discard { s with size := s.size - 1 } sid\n       | 1 => closePool { s with size := s.size - 1 }\n       | 2 => { s with tasks := s.tasks ++ [sid] }\n       | 3 => { s with cache := s.cache ++ [sid] }\n       | _ => discard { s with size := s.size - 1 } sid) := by\n  intro s\n  unfold release genReleaseBranch\n  by_cases h1 : s.pstate = .closed <;> by_cases h2 : s.alive sid <;> by_cases h3 : s.waiters.isEmpty <;>\n    by_cases h4 : s.size ≤ cfg.min <;> simp [s, h1, h2, h3, h4] at * <;> simp_all <;> omega\n'),
    dict(name='genReleaseSize', file='scales/pool/watermark.py', func='WatermarkPoolSink._Release', kind='after',
         marker=('do_close = False', 'self._varz.size'), var='self._current_size', varmap=_RELEASE_VARS,
         params=['pc : Bool', 'sc : Bool', 'hw : Bool', 'size', 'mn'],
         obligation='theorem failWaiters_size (s : St) (l : List Nat) : (failWaiters s l).size = s.size := by\n  induction l generalizing s with\n  | nil => rfl\n  | cons c cs ih => unfold failWaiters; split <;> simp [ih, St.emit]\ntheorem foldl_discard_size (l : List Nat) (s : St) : (l.foldl Scales.Watermark.discard s).size = s.size := by\n  induction l generalizing s with\n  | nil => rfl\n  | cons c cs ih => simp [List.foldl, ih, Scales.Watermark.discard, St.emit]\ntheorem foldl_discard_waiters (l : List Nat) (s : St) : (l.foldl Scales.Watermark.discard s).waiters = s.waiters := by\n  induction l generalizing s with\n  | nil => rfl\n  | cons c cs ih => simp [List.foldl, ih, Scales.Watermark.discard, St.emit]\ntheorem closePool_size (s : St) : (closePool s).size = s.size := by\n  simp [closePool, failWaiters_size, foldl_discard_size]\ntheorem genReleaseSize_eq (cfg : Cfg) (s0 : St) (sid : Nat) :\n    (release cfg s0 sid).size =\n      (genReleaseSize (decide ((s0.emit (.rel sid)).pstate = .closed)) (!((s0.emit (.rel sid)).alive sid))\n        (!s0.waiters.isEmpty) s0.size cfg.min).toNat := by\n  unfold release genReleaseSize\n  have e0 : (s0.emit (.rel sid)).pstate = s0.pstate := rfl\n  have e1 : (s0.emit (.rel sid)).size = s0.size := rfl\n  have e2 : (s0.emit (.rel sid)).waiters = s0.waiters := rfl\n  generalize hal : (s0.emit (.rel sid)).alive sid = al\n  generalize hs : s0.emit (.rel sid) = s at *\n  by_cases h1 : s.pstate = .closed\n  · simp [h1, Scales.Watermark.discard, St.emit, ← e1]\n  · cases al with\n    | false => simp [h1, hal, closePool_size, ← e1]\n    | true =>\n      by_cases h3 : s.waiters.isEmpty = false\n      · simp [h1, hal, h3, ← e2, ← e1]\n      · by_cases h4 : s.size ≤ cfg.min\n        · simp [h1, hal, h3, h4, ← e1, ← e2]\n        · simp [h1, hal, h3, h4, ← e1, ← e2, Scales.Watermark.discard, St.emit]\n'),
    dict(name='genGetBranch', file='scales/pool/watermark.py', func='WatermarkPoolSink._Get', kind='branch',
         marker='cached',
         varmap={'cached': 'cached', 'self._current_size': 'size', 'self._max_size': 'mx',
                 'len(self._waiters)': 'nw', 'self._max_queue_size': 'mq'},
         params=['cached : Bool', 'size', 'mx', 'nw', 'mq'],
         obligation="theorem genGetBranch_eq (cfg : Cfg) (s0 : St) (ok : Bool) :\n    (Scales.Watermark.get cfg s0 ok).2 =\n      (match genGetBranch (dequeue s0 s0.cache).2.isSome (dequeue s0 s0.cache).1.size cfg.max\n              (dequeue s0 s0.cache).1.waiters.length cfg.maxq with\n       | 0 => .sink ((dequeue s0 s0.cache).2.getD 0) false\n       | 1 => .sink (dequeue s0 s0.cache).1.view.sinks.length true\n       | 2 => .fail\n       | _ => .queue) := by\n  unfold Scales.Watermark.get genGetBranch\n  rcases h : dequeue s0 s0.cache with ⟨s, o⟩\n  cases o with\n  | some sid => simp\n  | none =>\n    by_cases h1 : s.size < cfg.max\n    · have h1' : (s.size : Int) < cfg.max := by omega\n      simp [h1, h1']\n    · have h1' : ¬ (s.size : Int) < cfg.max := by omega\n      by_cases h2 : s.waiters.length + 1 > cfg.maxq\n      · have h2' : ((s.waiters.length : Int) + 1) > cfg.maxq := by omega\n        simp [h1, h1', h2, h2']\n      · have h2' : ¬ ((s.waiters.length : Int) + 1) > cfg.maxq := by omega\n        simp [h1, h1', h2, h2']\n"),
]
TRUSTED = ['gevent starts spawned greenlets in spawn order (step mode replaces gevent.spawn inside '
           'scales.pool.watermark by a FIFO the harness drains one task at a time; hub mode uses the real hub)',
           'mock connections: Open() either returns a completed result or a pending AsyncResult that the harness '
           'completes later (requests are then issued from their own greenlets, which block inside _Get)']
ASSUMPTIONS = ['FIFO "no overtaking by a fresh request" is only claimed for a pool that was never closed; '
               'hand-off order, exclusivity, bounds and size accounting are claimed for every history',
               'connections do not answer synchronously inside AsyncProcessRequest',
               'Open() of the pool itself (_OpenImpl) is exercised with connections whose Open() completes at once']
RULE = ('scripts from the seeded generator (one in five directed at a deadline expiring during the connect made for '
        'that request, min in {0,1,2}) plus every op sequence up to a small length for (1,1,1),(0,2,1),(1,2,2) and, one '
        'shorter, (2,3,1); '
        'distinct = distinct (cfg, op list); non-trivial = reaches a queued waiter being skipped, a dead connection '
        'discarded from the cache or found on release, a double release before hand-off, MaxWaiters, Close, an arrival '
        'while another caller is blocked in a connect, a failed connect, or a timer firing during a connect')


# ------------------------------------------------------------------ generation
def gen_connect_timeout(rng, tier):
    """directed: the deadline of a request expires while the pool is connecting for that very request
    (min in {0,1,2}, several max), the connect then ends (either outcome), and traffic goes on"""
    mn = rng.choice([0, 1, 2])
    mx = rng.choice([1, 2, 2, 3, 4])
    mq = rng.choice([0, 1, 2, 3, INF])
    mode = 'step' if rng.random() < 0.7 else 'hub'
    ops = []
    ncalls = 0
    opened = rng.random() < 0.5
    if opened:
        ops.append(['open', True])
    # occupy some connections (this also empties the cache, so that the next request has to connect)
    busy = rng.randrange(0, mx)
    if opened and mn > 0 and busy == 0 and mx > 1:
        busy = 1
    for _ in range(busy):
        ops.append(['req', True, False, False])
        ncalls += 1
    if opened and mn > 0 and busy == 0:
        # max = 1 and the only connection is cached: it dies while idle, the next _Get discards it and connects anew
        ops.append(['die', 0])
    victims = []
    nvict = 1 if rng.random() < 0.7 else 2
    for _ in range(nvict):
        ops.append(['req', True, True, True])
        victims.append(ncalls)
        ncalls += 1
    others = []
    for _ in range(rng.randrange(0, 3)):       # arrivals while the connect is in flight
        ops.append(['req', True, rng.random() < 0.3, rng.random() < 0.5])
        others.append(ncalls)
        ncalls += 1
    for v in victims:
        if rng.random() < 0.9:
            ops.append(['to', v])
        if rng.random() < 0.3:
            ops.append(rng.choice([['run'], ['req', True, False, False], ['die', rng.randrange(0, 3)]]))
            if ops[-1][0] == 'req':
                others.append(ncalls)
                ncalls += 1
    for _ in range(nvict + 1):
        ops.append(['openedany', 0, rng.random() < 0.85])
        if rng.random() < 0.3:
            ops.append(['run'])
    # further traffic
    live = list(range(ncalls))
    for _ in range(rng.randrange(3, 14)):
        r = rng.random()
        if r < 0.35:
            ops.append(['req', True, False, rng.random() < 0.2])
            live.append(ncalls)
            ncalls += 1
        elif r < 0.75 and live:
            ops.append(['resp', live.pop(0) if rng.random() < 0.7 else rng.choice(live)])
        elif r < 0.8:
            ops.append(['openedany', 0, True])
        else:
            ops.append(['run'])
    if rng.random() < 0.8:     # let the traffic stop
        ops += [['openedany', 0, True], ['openedany', 0, True]]
        for _rep in range(2):
            for c in range(ncalls):
                ops.append(['resp', c])
                ops.append(['run'])
        ops += [['run'], ['run']]
        if rng.random() < 0.5:   # and come back: the whole capacity must still be usable
            for _ in range(mx):
                ops.append(['req', True, False, False])
    return {'min': mn, 'max': mx, 'maxq': mq, 'mode': mode, 'ops': ops}


def gen_script(rng, tier):
    if rng.random() < 0.2:
        return gen_connect_timeout(rng, tier)
    mn = rng.choice([0, 0, 1, 1, 2, 3])
    mx = rng.choice([1, 1, 2, 2, 3, 4])
    mq = rng.choice([0, 1, 1, 2, 3, INF, INF])
    mode = 'step' if rng.random() < 0.7 else 'hub'
    n = rng.randrange(5, 60 if tier == 'quick' else 90)
    p_to = rng.choice([0.0, 0.2, 0.5])
    p_die = rng.choice([0.0, 0.05, 0.15])
    p_close = rng.choice([0.0, 0.0, 0.03])
    p_fail_open = rng.choice([0.0, 0.0, 0.1])
    p_lat = rng.choice([0.0, 0.3, 0.6, 1.0])     # connects that take time
    ops = []
    if rng.random() < 0.7:
        ops.append(['open', rng.random() >= 0.15])      # sometimes the first connection fails to open
    ncalls, nsinks_guess, nlat = 0, 0, 0
    live = []          # call ids believed incomplete
    timers = {}
    for _ in range(n):
        r = rng.random()
        if r < 0.34 or not live:
            has_t = rng.random() < p_to
            lat = rng.random() < p_lat
            burst = 1 if rng.random() < 0.75 else rng.randrange(2, 4)   # arrivals during one connect
            for _b in range(burst):
                ops.append(['req', rng.random() >= p_fail_open, has_t, lat])
                if has_t:
                    timers[ncalls] = True
                live.append(ncalls)
                ncalls += 1
                nsinks_guess += 1
                nlat += 1 if lat else 0
        elif r < 0.44 and nlat:
            ops.append(['openedany', rng.randrange(0, 3), rng.random() >= p_fail_open])
        elif r < 0.64:
            # prefer old calls (they hold connections), sometimes a burst of releases before any run
            k = 1 if rng.random() < 0.7 else rng.randrange(2, 4)
            for _k in range(k):
                if not live:
                    break
                c = live.pop(0) if rng.random() < 0.6 else live.pop(rng.randrange(len(live)))
                ops.append(['resp', c])
        elif r < 0.64 + 0.12 * (1 if p_to else 0):
            cands = [c for c in live if c in timers]
            if cands:
                c = rng.choice(cands)
                del timers[c]
                if rng.random() < 0.8:
                    live.remove(c)      # otherwise: it may have been connecting and still needs an answer
                ops.append(['to', c])
        elif r < 0.86:
            ops.append(['run'])
        elif r < 0.86 + p_die:
            ops.append(['die', rng.randrange(0, max(1, min(nsinks_guess, 6)))])
        elif r < 0.86 + p_die + p_close:
            ops.append(['close'])
        elif r < 0.86 + p_die + p_close + 0.02:
            ops.append(['open', rng.random() >= 0.3])
        else:
            if live and rng.random() < 0.3:
                ops.append(['resp', rng.choice(range(ncalls))])   # late / duplicate reply
            else:
                ops.append(['run'])
    if rng.random() < 0.7:   # let the traffic stop
        for _k in range(min(nlat, 6)):
            ops.append(['openedany', 0, True])
        for _rep in range(2):
            for c in range(ncalls) if nlat else list(live):
                ops.append(['resp', c])
                ops.append(['run'])
        ops += [['run'], ['run']]
    return {'min': mn, 'max': mx, 'maxq': mq, 'mode': mode, 'ops': ops}


def exhaustive(tier, shard, shards):
    """all sensible op sequences up to length L over a small alphabet, for three configurations
    (sensible: a call is only answered / timed out after it was requested, a timer fires once, a connect
    only ends if one may be pending)"""
    L = (THOROUGH if tier == 'thorough' else QUICK)['exhaustive_len']
    alphabet = [['req', True, True, False], ['req', True, True, True], ['resp', 0], ['resp', 1], ['to', 1],
                ['to', 0], ['run'], ['die', 0], ['resp', 2], ['close'], ['openedany', 0, True],
                ['openedany', 0, False], ['open', False], ['open', True]]
    k = 0

    def sensible(seq):
        nreq, timed, nlat, nopen = 0, set(), 0, 0
        for x in seq:
            o = alphabet[x]
            if o[0] == 'open':
                nopen += 1
                if nopen > 1:
                    return False
            elif o[0] == 'req':
                nreq += 1
                if nreq > 4:
                    return False
                if o[3]:
                    nlat += 1
            elif o[0] in ('resp', 'to'):
                if o[1] >= nreq:
                    return False
                if o[0] == 'to':
                    if o[1] in timed:
                        return False
                    timed.add(o[1])
            elif o[0] == 'die' and nreq == 0 and nopen == 0:
                return False
            elif o[0] == 'openedany':
                if nlat == 0:
                    return False
                nlat -= 1
        return True

    for cfg in ((1, 1, 1), (0, 2, 1), (1, 2, 2), (2, 3, 1)):
        for n in range(1, (L if cfg[0] < 2 else L - 1) + 1):
            for seq in itertools.product(range(len(alphabet)), repeat=n):
                if seq[0] not in (0, 1, 12, 13) or not sensible(seq):
                    continue
                k += 1
                if k % shards != shard:
                    continue
                yield {'min': cfg[0], 'max': cfg[1], 'maxq': cfg[2], 'mode': 'step',
                       'ops': [list(alphabet[x]) for x in seq]}


def shrink(script):
    ops = script['ops']
    for i in range(len(ops)):
        s = dict(script)
        s['ops'] = ops[:i] + ops[i + 1:]
        # removing a request renumbers later calls
        if ops[i][0] == 'req':
            c_removed = sum(1 for o in ops[:i] if o[0] == 'req')
            new = []
            for o in s['ops']:
                if o[0] in ('resp', 'to'):
                    if o[1] == c_removed:
                        continue
                    new.append([o[0], o[1] - 1 if o[1] > c_removed else o[1]])
                else:
                    new.append(o)
            s['ops'] = new
        yield s
    if script.get('mode') == 'hub':
        s = dict(script)
        s['mode'] = 'step'
        yield s
    for i, o in enumerate(ops):
        if o[0] == 'req' and len(o) > 3 and o[3]:
            s = dict(script)
            s['ops'] = [list(p) for p in ops]
            s['ops'][i][3] = False
            yield s
    for key, lo in (('min', 0), ('max', 1), ('maxq', 0)):
        if script[key] > lo and script[key] != INF:
            s = dict(script)
            s[key] = script[key] - 1
            yield s
    if script['maxq'] == INF:
        s = dict(script)
        s['maxq'] = 3
        yield s
    for i, o in enumerate(ops):
        if o[0] == 'req' and o[2] and not any(p[0] == 'to' and p[1] == sum(1 for q in ops[:i] if q[0] == 'req')
                                               for p in ops):
            s = dict(script)
            s['ops'] = [list(p) for p in ops]
            s['ops'][i][2] = False
            yield s


# ------------------------------------------------------------------ running the real code
def run_script(script):
    import rt
    import gevent
    import scales.pool.watermark as wm
    from scales.asynchronous import AsyncResult
    from scales.constants import ChannelState, SinkProperties
    from scales.dispatch import ServiceClosedError
    from scales.loadbalancer.zookeeper import Endpoint
    from scales.message import Deadline, Message, MethodReturnMessage, TimeoutError
    from scales.sink import (ClientMessageSink, ClientMessageSinkStack, SinkProviderBase, TimeoutSinkProvider)

    mode = script.get('mode', 'step')
    ops = script['ops']
    steps, tags = [], set()
    evs = []                 # events of the operation in progress
    st = {'pending_op': None, 'next_ok': True, 'next_lat': False, 'created': None}
    connecting = []          # sink ids whose Open() is pending, in creation order
    conn_call = {}           # sink id -> the call whose greenlet is blocked in its Open().wait()
    orphaned = set()         # sink ids whose connecting call was answered by its timer meanwhile
    sinks = []               # HSink by id
    calls = []               # dict(stack, term, msg, sink) by id
    stack_ids = {}           # id(stack) -> call id
    tasks = []               # deferred _ProcessQueue: list of sink ids (FIFO)

    class HSink(ClientMessageSink):
        def __init__(self, sid, ok, lat):
            super(HSink, self).__init__()
            self.sid = sid
            self.endpoint = None
            if lat:      # the connect takes time: Idle until the harness completes `open_ar`
                self._st = ChannelState.Idle
                self.open_ar = AsyncResult()
            else:
                self._st = ChannelState.Open if ok else ChannelState.Closed
                self.open_ar = None

        @property
        def state(self):
            return self._st

        def Open(self):
            return self.open_ar if self.open_ar is not None else AsyncResult.Complete()

        def Close(self):
            evs.append(['closed', self.sid])
            self._st = ChannelState.Closed

        def AsyncProcessRequest(self, sink_stack, msg, stream, headers):
            c = stack_ids.get(id(sink_stack), -1)
            evs.append(['sent', self.sid, c])
            if 0 <= c < len(calls):
                calls[c]['sink'] = self.sid

        def AsyncProcessResponse(self, sink_stack, context, stream, msg):
            raise NotImplementedError()

    class HProvider(SinkProviderBase):
        Role = 'transport'

        def CreateSink(self, properties):
            s = HSink(len(sinks), st['next_ok'], st['next_lat'])
            sinks.append(s)
            evs.append(['created', s.sid, s.state <= ChannelState.Open])
            st['created'] = s.sid
            return s

        @property
        def sink_class(self):
            return HSink

    class Term(ClientMessageSink):
        def __init__(self, c):
            super(Term, self).__init__()
            self.c = c

        def AsyncProcessRequest(self, *a):
            raise NotImplementedError()

        def AsyncProcessResponse(self, sink_stack, context, stream, msg):
            err = getattr(msg, 'error', None)
            if err is None:
                out = 'reply'
            elif isinstance(err, TimeoutError):
                out = 'Timeout'
            elif isinstance(err, wm.MaxWaitersError):
                out = 'MaxWaiters'
            elif isinstance(err, ServiceClosedError):
                out = 'ServiceClosed'
            else:
                out = 'Other'
            evs.append(['done', self.c, out])
            calls[self.c]['done'] = True

    # ---- pool under a real timeout sink
    pool_provider = wm.WatermarkPoolSink.Builder(min_watermark=script['min'], max_watermark=script['max'],
                                                 max_queue_len=script['maxq'])
    pool_provider.next_provider = HProvider()
    tsp = TimeoutSinkProvider()
    tsp.next_provider = pool_provider
    props = {SinkProperties.Label: 'c07', SinkProperties.Endpoint: Endpoint('h', 1)}
    top = tsp.CreateSink(props)
    pool = top.next_sink
    assert isinstance(pool, wm.WatermarkPoolSink)

    def snapshot():
        cache = [s.sid for s in pool._cache]
        waiters = [stack_ids.get(id(w[0]), -1) for w in pool._waiters]
        return [[tuple(e) for e in evs], pool._current_size, cache, waiters, list(tasks), pool._state]

    def flush(op_text):
        if not st.get('finished'):
            steps.append([op_text, vfmt(snapshot())])
        del evs[:]

    def flush_pending():
        if st['pending_op'] is not None:
            op_text, st['pending_op'] = st['pending_op'], None
            flush(op_text)

    # ---- observe _Release(real sink)
    orig_release = pool._Release

    def release(sink):
        if isinstance(sink, HSink):
            evs.append(['rel', sink.sid])
        return orig_release(sink)
    pool._Release = release

    # ---- deferred _ProcessQueue
    orig_pq = pool._ProcessQueue

    def run_task(sid):
        """runs one deferred _ProcessQueue as its own step"""
        flush_pending()
        if sid in tasks:
            tasks.remove(sid)
        try:
            orig_pq(sinks[sid])
        except Exception as ex:  # the greenlet would die with this exception
            evs.append(['raised', type(ex).__name__])
            tags.add('raised')
        flush('run')

    class GeventShim(object):
        def __getattr__(self, name):
            return getattr(gevent, name)

        def spawn(self, fn, *args):
            assert getattr(fn, '__name__', '') == '_ProcessQueue' or fn is orig_pq, fn
            sid = args[0].sid
            tasks.append(sid)
            if mode == 'hub':
                return gevent.spawn(run_task, sid)
            return None
    saved_gevent = wm.gevent
    wm.gevent = GeventShim()
    pool._ProcessQueue = orig_pq

    # deadlines: a call with a timer gets the instant of its `to` op (strictly increasing with the op index)
    base_t = rt.loop.now() + 1.0
    SP = 0.05
    to_index = {}
    nreq = 0
    for i, o in enumerate(ops):
        if o[0] == 'req':
            nreq += 1
        if o[0] == 'to' and o[1] not in to_index and 0 <= o[1] < nreq:
            to_index[o[1]] = i

    def hub_turns():
        if mode == 'hub':
            rt.drain()

    try:
        for i, o in enumerate(ops):
            kind = o[0]
            if kind == 'req':
                c = len(calls)
                stack = ClientMessageSinkStack()
                term = Term(c)
                stack.Push(term)
                msg = Message()
                has_timer = bool(o[2]) and c in to_index
                if has_timer:
                    msg.properties[Deadline.KEY] = base_t + (to_index[c] + 1) * SP
                calls.append({'stack': stack, 'sink': None, 'done': False, 'timer': has_timer})
                stack_ids[id(stack)] = c
                lat = bool(o[3]) if len(o) > 3 else False
                st['next_ok'], st['next_lat'], st['created'] = bool(o[1]), lat, None
                nw = len(pool._waiters)

                def do_request(stack=stack, msg=msg):
                    try:
                        top.AsyncProcessRequest(stack, msg, None, {})
                    except Exception as ex:
                        evs.append(['raised', type(ex).__name__])
                        tags.add('raised')
                if lat:
                    # the caller's own greenlet: it may block inside _Get
                    hub_turns()
                    nw = len(pool._waiters)
                    if connecting:
                        tags.add('arrival-during-connect')
                    st['pending_op'] = vfmt(['request', bool(o[1]), lat])[1:-1]
                    g = gevent.spawn(do_request)
                    rt.drain()
                    if not g.dead:
                        sid = st['created']
                        if sid is None or sinks[sid].open_ar is None or sinks[sid].open_ar.ready():
                            raise RuntimeError('request greenlet blocked somewhere else')
                        evs.append(['connecting', sid, c])
                        connecting.append(sid)
                        conn_call[sid] = c
                        tags.add('connecting')
                else:
                    if connecting:
                        tags.add('arrival-during-connect')
                    st['pending_op'] = vfmt(['request', bool(o[1]), lat])[1:-1]
                    do_request()
                st['next_lat'] = False
                if len(pool._waiters) == nw + 1 and pool._waiters[-1][0] is stack:
                    evs.append(['queued', c])
                    tags.add('queued')
                flush_pending()
            elif kind in ('opened', 'openedany'):
                if kind == 'openedany':
                    if not connecting:
                        continue
                    sid = connecting[o[1] % len(connecting)]
                else:
                    sid = o[1]
                    if sid not in connecting:
                        continue
                ok = bool(o[2])
                hub_turns()
                connecting.remove(sid)
                sinks[sid]._st = ChannelState.Open if ok else ChannelState.Closed
                st['pending_op'] = vfmt(['opened', sid, ok])[1:-1]
                if ok:
                    sinks[sid].open_ar.set()
                else:
                    sinks[sid].open_ar.set_exception(Exception('connect failed'))
                    sinks[sid].on_faulted.Set()     # seen by the pool: it subscribes before Open().wait()
                    tags.add('connect-failed')
                rt.drain()
                flush_pending()
                conn_call.pop(sid, None)
                if sid in orphaned:
                    # the scenario of "capacity leaked": the deadline expired while the pool was connecting
                    tags.add('connect-timeout-opened')
                    tags.add('cto-min%d' % min(script['min'], 3))
                    tags.add('cto-max%d' % min(script['max'], 4))
                    st['cto_step'] = len(steps)
                if any(cl['sink'] == sid and cl['done'] for cl in calls):
                    tags.add('zombie')
            elif kind == 'resp':
                c = o[1]
                if not (0 <= c < len(calls)) or calls[c]['sink'] is None:
                    continue
                if calls[c]['done']:
                    tags.add('late-reply')
                try:
                    calls[c]['stack'].AsyncProcessResponseMessage(MethodReturnMessage('r%d' % c))
                except Exception as ex:
                    evs.append(['raised', type(ex).__name__])
                    tags.add('raised')
                flush('respond %d' % c)
            elif kind == 'to':
                c = o[1]
                if not (0 <= c < len(calls)) or not calls[c]['timer'] or calls[c]['done'] or to_index.get(c) != i:
                    continue
                hub_turns()
                was_waiting = calls[c]['sink'] is None
                st['pending_op'] = 'timeout %d' % c
                rt.advance_to_us(int(round((base_t + (i + 1) * SP + 0.02 - rt.T0) * 1e6)))
                flush_pending()
                if not calls[c]['done']:
                    raise RuntimeError('timer of call %d did not fire' % c)
                tags.add('waiter-timeout' if was_waiting else 'lent-timeout')
                for sid_, c_ in conn_call.items():
                    if c_ == c:
                        orphaned.add(sid_)
                        tags.add('connect-timeout')
            elif kind == 'die':
                sid = o[1]
                if not (0 <= sid < len(sinks)):
                    continue
                sinks[sid]._st = ChannelState.Closed
                sinks[sid].on_faulted.Set()
                flush('die %d' % sid)
            elif kind == 'run':
                if mode == 'hub':
                    rt.drain()
                elif tasks:
                    run_task(tasks[0])
            elif kind == 'close':
                try:
                    pool.Close()
                except Exception as ex:
                    evs.append(['raised', type(ex).__name__])
                    tags.add('raised')
                flush('close')
            elif kind == 'open':
                hub_turns()
                st['next_ok'] = bool(o[1])
                ar = pool.Open()
                st['pending_op'] = vfmt(['open', bool(o[1])])[1:-1]
                rt.drain()
                if ar.ready() and ar.exception is not None:
                    evs.append(['raised', type(ar.exception).__name__])
                    tags.add('open-failed')
                flush_pending()
        hub_turns()
        rt.drain()
        hub_errs = rt.take_errors()
    finally:
        # let every timer that is still armed fire now, so that nothing of this pool runs during a later script
        st['finished'] = True
        try:
            for sid in list(connecting):     # let the blocked greenlets finish
                sinks[sid]._st = ChannelState.Open
                sinks[sid].open_ar.set()
            rt.drain()
            rt.advance_to_us(int(round((base_t + (len(ops) + 5) * SP - rt.T0) * 1e6)))
            rt.take_errors()
        finally:
            wm.gevent = saved_gevent
    # tags for coverage
    text = ' '.join(s[1] for s in steps)
    for t, needle in (('maxwaiters', 'MaxWaiters'), ('service-closed', 'ServiceClosed'), ('closed-conn', '(closed '),
                      ('timeout', 'Timeout')):
        if needle in text:
            tags.add(t)
    if any(s[1].endswith(' 4)') for s in steps):
        tags.add('pool-closed')
    for op_text, obs in steps:
        if op_text == 'run':
            if '(sent ' in obs:
                tags.add('handoff')
            if '(rel ' in obs:
                tags.add('handoff-fallthrough')
    # a waiter skipped: a run step whose waiters list lost more than one entry is visible as fallthrough or
    # as a handoff after a waiter timeout
    if 'waiter-timeout' in tags and ('handoff' in tags or 'handoff-fallthrough' in tags):
        tags.add('skip-candidate')
    if len([1 for s in steps if s[0].startswith('die')]) and 'closed-conn' in tags:
        tags.add('dead-conn')
    if 'cto_step' in st:
        # further traffic after the connect of a timed-out caller ended: another call is started / the pool idles
        later = steps[st['cto_step']:]
        if any((op_text.startswith('request') or op_text == 'run') and '(sent ' in obs for op_text, obs in later):
            tags.add('connect-timeout-followup')
    tags.add('mode-' + mode)
    errs = hub_errs
    if errs:
        tags.add('hub-error')
        steps.append(['run', vfmt([[('raised', errs[0][0])], pool._current_size, [s.sid for s in pool._cache],
                                   [stack_ids.get(id(w[0]), -1) for w in pool._waiters], list(tasks),
                                   pool._state])])
    cfg = '%d %d %d' % (script['min'], script['max'], script['maxq'])
    return {'comp': COMPONENT, 'cfg': cfg, 'steps': steps, 'tags': sorted(tags)}


def nontrivial(case):
    t = set(case.get('tags', []))
    return bool(t & {'skip-candidate', 'waiter-timeout', 'dead-conn', 'handoff-fallthrough', 'maxwaiters',
                     'pool-closed', 'service-closed', 'late-reply', 'lent-timeout', 'arrival-during-connect',
                     'connect-failed', 'zombie', 'open-failed', 'connect-timeout'})
