"""`service Ledger extends Journal` (c14_other_base.py): the derived service of the second,
unrelated family, laid out as the Thrift compiler's Python generator lays out `journal/Ledger.py`:

    service Ledger extends Journal {
      Entry  latest(1: i64 after) throws (1: Frozen frozen),       // Archive: Item latest(1: string key, 2: Range range) throws (2: Busy busy)
      void   flush(1: bool hard) throws (1: Overdrawn od),         // Archive: void flush()
      i32    drop(1: binary key),                                  // Archive: void drop(1: Item item, 2: Range range) throws (1: Busy busy, 2: NotFound nf)
      string seal(1: i64 id),                                      // Vault:   string seal(1: Item item, 2: string note) throws (1: Denied denied, 3: Locked locked)
      i64    balance(1: string account, 3: Entry last) throws (1: Overdrawn od),
    }

Own `Iface(Journal.Iface)`, `Processor(Journal.Processor, Iface, TProcessor)` and the `<m>_args` /
`<m>_result` classes of the five OWN methods only; the classes of the six inherited methods are in
c14_other_base and nowhere else.  Four of the own method NAMES are own methods of Archive / Vault
(inherited ones of Vault), five of the inherited ones are methods of Store (inherited by Archive and
Vault) — with other argument types and field ids, other return types, other declared exceptions.
A serializer for this interface and a serializer for an interface of the Store family, alive in one
process, must each use the classes of their own interface.
"""
from thrift.Thrift import TType, TProcessor

from props import c14_other_base
from props.c14_iface import _Struct, _process_fn, _process_request
from props.c14_other_base import Entry, Overdrawn, Frozen


# ----------------------------------------------------------------------------- service
class Iface(c14_other_base.Iface):
    def latest(self, after):
        pass

    def flush(self, hard):
        pass

    def drop(self, key):
        pass

    def seal(self, id):
        pass

    def balance(self, account, last):
        pass


def _cls(name, spec):
    c = type(name, (_Struct,), {})
    c.thrift_spec = spec
    c.__module__ = __name__
    return c


latest_args = _cls('latest_args', (
    None,  # 0
    (1, TType.I64, 'after', None, None, ),  # 1
))
latest_result = _cls('latest_result', (
    (0, TType.STRUCT, 'success', [Entry, Entry.thrift_spec], None, ),  # 0
    (1, TType.STRUCT, 'frozen', [Frozen, Frozen.thrift_spec], None, ),  # 1
))

flush_args = _cls('flush_args', (
    None,  # 0
    (1, TType.BOOL, 'hard', None, None, ),  # 1
))
flush_result = _cls('flush_result', (
    None,  # 0
    (1, TType.STRUCT, 'od', [Overdrawn, Overdrawn.thrift_spec], None, ),  # 1
))

drop_args = _cls('drop_args', (
    None,  # 0
    (1, TType.STRING, 'key', 'BINARY', None, ),  # 1
))
drop_result = _cls('drop_result', (
    (0, TType.I32, 'success', None, None, ),  # 0
))

seal_args = _cls('seal_args', (
    None,  # 0
    (1, TType.I64, 'id', None, None, ),  # 1
))
seal_result = _cls('seal_result', (
    (0, TType.STRING, 'success', 'UTF8', None, ),  # 0
))

balance_args = _cls('balance_args', (
    None,  # 0
    (1, TType.STRING, 'account', 'UTF8', None, ),  # 1
    None,  # 2
    (3, TType.STRUCT, 'last', [Entry, Entry.thrift_spec], None, ),  # 3
))
balance_result = _cls('balance_result', (
    (0, TType.I64, 'success', None, None, ),  # 0
    (1, TType.STRUCT, 'od', [Overdrawn, Overdrawn.thrift_spec], None, ),  # 1
))

METHODS = ['latest', 'flush', 'drop', 'seal', 'balance']    # the service's OWN methods
BASE = c14_other_base                                       # `extends Journal`


class Processor(c14_other_base.Processor, Iface, TProcessor):
    def __init__(self, handler):
        c14_other_base.Processor.__init__(self, handler)
        for m in METHODS:
            self._processMap[m] = getattr(Processor, 'process_' + m)
        self._on_message_begin = None

    def on_message_begin(self, func):
        self._on_message_begin = func

    process = _process_request


for _m in METHODS:
    setattr(Processor, 'process_' + _m, _process_fn(_m, globals()[_m + '_args'], globals()[_m + '_result']))
del _m
