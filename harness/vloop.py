"""Prototype: a pure-python deterministic virtual-time loop for gevent."""
import heapq, random, sys, time as _time

class _Callback(object):
    # mirrors gevent's own loop callback object: `pending` is cleared before the function runs,
    # `args` (and therefore the truth value) survive until it has returned.  Semaphore and
    # AsyncResult use the truth value of their notifier, and `notifier.args[0]` while it runs.
    __slots__ = ('func', 'args', 'stopped')
    def __init__(self, func, args):
        self.func, self.args, self.stopped = func, args, False
    def stop(self):
        self.stopped = True; self.func = None; self.args = None
    close = stop
    @property
    def pending(self):
        return not self.stopped and self.func is not None
    def __bool__(self): return self.args is not None

class _Timer(object):
    def __init__(self, loop, after, repeat=0.0):
        self.loop, self.after, self.repeat = loop, max(0.0, after), repeat
        self.callback = None; self.args = None; self._active = False; self.seq = None
        self.ref = True
    def start(self, callback, *args, **kw):
        update = kw.get('update', True)
        self.callback, self.args = callback, args
        self._active = True
        self.loop._add_timer(self)
    def again(self, callback, *args, **kw):
        self.start(callback, *args, **kw)
    def stop(self):
        self._active = False; self.callback = None; self.args = None
    def close(self): self.stop()
    @property
    def active(self): return self._active
    @property
    def pending(self): return False
    def __enter__(self): return self
    def __exit__(self, *a): self.close()

class VLoop(object):
    CALLBACK_CHECK_COUNT = 50
    error_handler = None
    def __init__(self, flags=None, default=None):
        self._now = 1000.0
        self._callbacks = []
        self._timers = []
        self._seq = 0
        self.rng = None   # set for schedule permutation
        self.starting_timer_may_update_loop_time = False
    # --- ILoop
    def run(self, nowait=False, once=False):
        while True:
            while self._callbacks:
                if self.rng is not None and len(self._callbacks) > 1:
                    i = self.rng.randrange(len(self._callbacks))
                else:
                    i = 0
                cb = self._callbacks.pop(i)
                if cb.stopped: continue
                func, args = cb.func, cb.args
                cb.func = None
                try:
                    func(*args)
                except BaseException:
                    self.handle_error(cb, *sys.exc_info())
                finally:
                    cb.stop()
            # advance time
            while self._timers and not self._timers[0][2]._active:
                heapq.heappop(self._timers)
            if not self._timers:
                return
            at, seq, t = heapq.heappop(self._timers)
            if t.seq != seq or not t._active: continue
            if at > self._now: self._now = at
            t._active = False
            cb, args = t.callback, t.args
            try:
                cb(*args)
            except BaseException:
                self.handle_error(t, *sys.exc_info())
    def handle_error(self, context, type, value, tb):
        if self.error_handler is not None:
            self.error_handler.handle_error(context, type, value, tb)
        else:
            import traceback; traceback.print_exception(type, value, tb)
    def _add_timer(self, t):
        self._seq += 1; t.seq = self._seq
        heapq.heappush(self._timers, (self._now + t.after, t.seq, t))
    def now(self): return self._now
    def update_now(self): pass
    update = update_now
    def destroy(self): pass
    def timer(self, after, repeat=0.0, ref=True, priority=None): return _Timer(self, after, repeat)
    def run_callback(self, func, *args):
        cb = _Callback(func, args); self._callbacks.append(cb); return cb
    run_callback_threadsafe = run_callback
    def io(self, *a, **k): raise NotImplementedError('no real IO in virtual loop')
    def closing_fd(self, fd): return False
    def signal(self, *a, **k): raise NotImplementedError
    def idle(self, *a, **k): raise NotImplementedError
    def prepare(self, *a, **k): raise NotImplementedError
    def check(self, *a, **k): raise NotImplementedError
    def fork(self, ref=True, priority=None): return _Timer(self, 1e18)
    def async_(self, ref=True, priority=None): return _Timer(self, 1e18)
    def install_sigchld(self): pass
    def reinit(self): pass
    def ref(self): pass
    def unref(self): pass
    def break_(self, how=0): pass
    def verify(self): pass
    @property
    def default(self): return True
    @property
    def pendingcnt(self): return len(self._callbacks)
    @property
    def activecnt(self): return len(self._timers)
    MAXPRI = 2; MINPRI = -2
    WatcherType = _Timer
