"""mkseed.py <key> <PROP> [extra constraint text] — scratch worktree /tmp/seed/<key> of /repo + the prompt for a
seeding sub-agent (property text only; nothing from /verif)."""
import json
import subprocess
import sys

key, pid = sys.argv[1], sys.argv[2]
extra = sys.argv[3] if len(sys.argv) > 3 else ''
wt = '/tmp/seed/' + key
subprocess.run(['git', '-C', '/repo', 'worktree', 'add', '--detach', wt, 'HEAD'], check=True,
               stdout=subprocess.DEVNULL, stderr=subprocess.DEVNULL)
p = [json.loads(l) for l in open('/verif/properties.jsonl') if json.loads(l)['id'] == pid][0]
files = p['anchors']['files']
t = open('/tmp/seed/TEMPLATE').read()
t = (t.replace('{wt}', wt).replace('{pid}', pid).replace('{title}', p['title'])
     .replace('{statement}', p['statement']).replace('{quant}', p['quantifier']['text'])
     .replace('{files}', ', '.join(files)))
if extra:
    t += '\n\nADDITIONAL CONSTRAINT: ' + extra + '\n'
open('/tmp/seed/%s.prompt' % key, 'w').write(t)
print(wt)
