"""Shared driver for the balancer membership / aperture slices (C05, C06): runs the real
HeapBalancerSink / ApertureBalancerSink (scales/loadbalancer/{base,heap,aperture}.py) over harness
channels and a harness server set whose initial load is released by the script.

Script: {'kind': 'heap'|'aperture', 'min_size', 'max_size', 'min_load': [n, d], 'max_load': [n, d],
         'slow_open': bool, 'initial': [ep...], 'ops': [...], 'seed': int}
script ops:  ['open'] ['snap'] ['loaded'] ['join', ep] ['leave', ep] ['get'] ['getd'] ['expire', k] ['put', k] ['chan', nid, st]
             ['opened', nid, ok] ['jitter'] ['tick', ms] ['back', ms] ['decoy', n, ms]
`snap` (the moment the provider takes the snapshot it will return from GetServers), `tick` (virtual time
passes) and `back` (the wall clock that `scales.varz` reads — `time.time()` inside `MonoClock` — is stepped
BACKWARDS by ms milliseconds: an NTP step, a VM resume; the gevent loop's own clock stays monotone) are
harness-only, and so is `decoy`: after ms milliseconds n requests are dispatched, ms/4 apart, through a SECOND
ApertureBalancerSink of the same process (harness/isolation.py `aperture_balancer()`, four members of its own,
opened at its first use) and stay outstanding — the other service an application talks to; nothing of it is
recorded or shown to the model: whatever it does must leave the balancer under test alone.  All others become
model operations

    open | loaded (eps in AddServer order) E | join ep E | leave ep E | get E | getd E | expire k | put r j E | chan nid st
    | opened nid T/F E | jitter E          with E = (choices…) ((wn wd an ad tn td)…)

where `choices` are the endpoints `random.choice` returned inside `_TryExpandAperture` and each 6-tuple is the
decay weight, the value returned by the real `Ema.Update` and the wall-clock reading `time.time()` returned inside
`MonoClock.Sample()` (seconds since the reading `MonoClock.__init__` took; exact rationals of the floats, the
difference taken exactly) for one `_AdjustAperture` call, all recorded from the run, in call order.  The model has
its own `MonoClock` (Model/Ema.lean): from the readings it predicts the time delta each `Ema.Update` saw."""
from fractions import Fraction

from lib import vfmt

NEAR = 1e-9


def frac(x):
    f = Fraction(x)
    return [f.numerator, f.denominator]


class WallClock(object):
    """Stands for the `time` module inside scales.varz: the loop's (monotone) virtual clock plus an offset the
    script can move both ways.  Every reading is logged."""

    def __init__(self, real, loop):
        self._real, self._loop = real, loop
        self.offset = 0.0
        self.reads = []

    def time(self):
        v = self._loop.now() + self.offset
        self.reads.append(v)
        return v

    def __getattr__(self, name):
        return getattr(self._real, name)


class LoggingMath(object):
    """Stands for the `math` module inside scales.varz: `exp` results are logged (the decay weight `Ema.Update`
    really used)."""

    def __init__(self, real):
        self._real = real
        self.exps = []

    def exp(self, x):
        v = self._real.exp(x)
        self.exps.append(v)
        return v

    def __getattr__(self, name):
        return getattr(self._real, name)


# --------------------------------------------------------------------------- generation
def gen_gate(rng, tier):
    """C12, balancer hop: requests with and without a deadline event pile up in front of the open result (slow
    initial load and/or slow channel opens), some of their deadline events are set, then the open result completes"""
    kind = rng.choice(['heap', 'aperture'])
    n_eps = rng.choice([0, 1, 2, 3, 5])
    initial = sorted(rng.sample(range(n_eps + 2), n_eps))
    slow = rng.random() < 0.5
    ops = [['open']]
    waiting = []            # has a deadline event?
    n_get = 0

    def traffic(n):
        nonlocal n_get
        for _ in range(n):
            r = rng.random()
            if r < 0.3:
                ops.append(['get']); waiting.append(False); n_get += 1
            elif r < 0.7:
                ops.append(['getd']); waiting.append(True); n_get += 1
            elif r < 0.9 and any(waiting):
                k = rng.choice([i for i, w in enumerate(waiting) if w])
                ops.append(['expire', k])
            elif r < 0.95:
                ops.append(['join', rng.randrange(n_eps + 2)])
            else:
                ops.append(['leave', rng.randrange(n_eps + 2)])

    traffic(rng.choice([0, 2, 4, 8, 12]))
    ops.append(['loaded'])
    if slow:
        # the open result is still pending: more requests arrive, more deadlines pass
        traffic(rng.choice([0, 3, 6, 10]))
        for _ in range(rng.choice([1, 2, 4])):
            ops.append(['opened', -1, rng.random() < 0.7])
            if rng.random() < 0.3:
                traffic(2)
    # afterwards the gate is open: requests go straight through, deadline event or not
    for _ in range(rng.choice([0, 2, 5])):
        r = rng.random()
        if r < 0.4:
            ops.append(['get']); n_get += 1
        elif r < 0.8:
            ops.append(['getd']); n_get += 1
        elif n_get:
            ops.append(['put', rng.randrange(n_get)])
    return {'t': 'lbgate', 'kind': kind, 'min_size': rng.choice([1, 1, 2]), 'max_size': rng.choice([2, 4]),
            'min_load': [1, 2], 'max_load': [2, 1], 'slow_open': slow, 'initial': initial, 'ops': ops,
            'auto_open': rng.random() < 0.7, 'seed': rng.randrange(1 << 30)}


def gen_faults(rng, tier):
    """C03/C04 on the balancers that inherit __Get/__Put: an aperture of min_size >= 3 members with idle endpoints
    outside it, requests kept outstanding on some members, then faults on the member at the root of the heap and
    on busy members (each mark-down inside __Get makes the aperture take in an idle endpoint), bursts of
    dispatches right after the fault, recoveries, completions in any order, a few joins/leaves"""
    kind = 'aperture' if rng.random() < 0.85 else 'heap'
    min_size = rng.choice([3, 3, 4, 5])
    n_eps = min_size + rng.choice([1, 2, 3, 5])
    universe = n_eps + 2
    max_size = rng.choice([min_size + 1, min_size + 3, 1 << 31, 1 << 31])
    bands = [([0, 1], [1000, 1]), ([0, 1], [1000, 1]), ([1, 2], [2, 1]), ([1, 4], [3, 1]), ([0, 1], [2, 1])]
    min_load, max_load = rng.choice(bands)
    slow = rng.random() < 0.1
    initial = sorted(rng.sample(range(universe), n_eps))
    ops = [['open']]
    n_get = 0
    open_gets = []
    if rng.random() < 0.3:
        # requests that arrive while the balancer is still opening, some with a deadline that passes before it is
        # open (they have completed with a timeout by then: dispatching them afterwards would book load nobody returns)
        nd = 0
        for _ in range(rng.choice([1, 2, 4])):
            if rng.random() < 0.7:
                ops.append(['getd']); nd += 1
            else:
                ops.append(['get'])
            open_gets.append(n_get); n_get += 1
        for k in range(nd):
            if rng.random() < 0.7:
                ops.append(['expire', k])
    ops.append(['loaded'])
    if slow:
        ops += [['opened', -1, True] for _ in range(min_size)]

    def get(n):
        nonlocal n_get
        for _ in range(n):
            ops.append(['get']); open_gets.append(n_get); n_get += 1

    def put(n):
        for _ in range(n):
            if not open_gets:
                return
            mode = rng.random()
            i = 0 if mode < 0.25 else (len(open_gets) - 1 if mode < 0.5 else rng.randrange(len(open_gets)))
            ops.append(['put', open_gets.pop(i)])

    rounds = rng.choice([2, 3, 5, 8])
    for _ in range(rounds):
        get(rng.choice([0, 1, 2, 4, 7]))
        put(rng.choice([0, 0, 1, 3]))
        r = rng.random()
        if r < 0.45:
            ops.append(['chan', -2, rng.choice([4, 4, 3, 1])])
        elif r < 0.65:
            ops.append(['chan', -3, rng.choice([4, 4, 3])])
        elif r < 0.8:
            ops.append(['chan', -1, rng.choice([4, 2, 2, 1])])
        elif r < 0.9:
            ops.append(['leave', rng.choice(initial) if rng.random() < 0.8 else rng.randrange(universe)])
        else:
            ops.append(['join', rng.randrange(universe)])
        if rng.random() < 0.3:
            ops.append(['tick', rng.choice([10, 1000, 10000])])
        get(rng.choice([1, 2, 4, 6]))
        if slow and rng.random() < 0.7:
            ops.append(['opened', -1, rng.random() < 0.8])
        put(rng.choice([0, 1, 2, 5]))
        if rng.random() < 0.4:
            ops.append(['chan', -1, 2])
        if rng.random() < 0.1 and kind == 'aperture':
            ops.append(['jitter'])
    get(rng.choice([0, 2, 4]))
    put(rng.choice([0, 2, 8]))
    return {'kind': kind, 'min_size': min_size, 'max_size': max_size, 'min_load': min_load,
            'max_load': max_load, 'slow_open': slow, 'initial': initial, 'ops': ops,
            'auto_open': rng.random() < 0.9, 'seed': rng.randrange(1 << 30)}


def gen_phases(rng):
    """aperture dynamics in phases: (a jitter round,) traffic climbing to a level with time passing, draining, then a
    trickle of single requests while the smoothed load decays below the band — the growth and the shrinking the
    property promises, also after jitter rounds"""
    n_eps = rng.choice([3, 4, 6, 8])
    min_size = rng.choice([1, 1, 2])
    max_size = rng.choice([3, 4, 6, 1 << 31])
    min_load, max_load = rng.choice([([1, 2], [2, 1]), ([1, 2], [2, 1]), ([1, 4], [1, 1]), ([1, 1], [3, 1])])
    ops = [['open'], ['loaded']]
    n_get, open_gets = 0, []
    for _ in range(rng.choice([1, 2, 3])):
        if rng.random() < 0.6:
            ops.append(['jitter'])
        level = rng.choice([4, 8, 12, 20])
        for _ in range(level):
            ops.append(['get']); open_gets.append(n_get); n_get += 1
            if rng.random() < 0.5:
                ops.append(['tick', rng.choice([10, 100, 500, 1000])])
        if rng.random() < 0.3:
            ops.append(['jitter'])
        while open_gets:
            ops.append(['put', open_gets.pop(rng.randrange(len(open_gets)))])
            if rng.random() < 0.5:
                ops.append(['tick', rng.choice([100, 1000, 3000])])
        for _ in range(rng.choice([6, 12, 20])):
            ops += [['get'], ['tick', rng.choice([100, 1000, 3000, 10000])], ['put', n_get],
                    ['tick', rng.choice([1000, 3000, 10000])]]
            n_get += 1
    script = {'kind': 'aperture', 'min_size': min_size, 'max_size': max_size, 'min_load': min_load,
              'max_load': max_load, 'slow_open': False, 'initial': list(range(n_eps)), 'ops': ops,
              'auto_open': True, 'seed': rng.randrange(1 << 30)}
    add_clock_steps(script)
    add_decoy_traffic(script)
    return script


def gen_script(rng, tier, focus):
    """focus 5: membership histories on both balancers; focus 6: aperture dynamics; focus 12: the open gate;
    focus 3: member faults under load (C03/C04 on the aperture balancer).  Every focus: a quarter of the scripts call
    Open() again (add_reopens)"""
    return add_reopens(_gen_script(rng, tier, focus))


def add_reopens(script):
    """A quarter of the scripts: Open() is called again, one to three times, anywhere after the first call — while
    the initial list is loading, right after it, between notifications and traffic, at the very end.  The balancer
    is opening or open then and hands back the open result it has.  Drawn from a generator of its own (derived from
    the script's seed) and inserted last, so the rest of the script is what it was without."""
    import random as _random
    aux = _random.Random(script['seed'] ^ 0x0C05E)
    if aux.random() >= 0.25:
        return script
    ops = script['ops']
    for _ in range(aux.choice([1, 1, 2, 3])):
        ops.insert(aux.randrange(1, len(ops) + 1), ['open'])
    return script


def _gen_script(rng, tier, focus):
    if focus == 12:
        return gen_gate(rng, tier)
    if focus == 3:
        return gen_faults(rng, tier)
    if focus == 6 and rng.random() < 0.2:
        return gen_phases(rng)
    if focus == 5:
        kind = rng.choice(['heap', 'aperture'])
    else:
        kind = 'aperture'
    n_eps = rng.choice([0, 1, 2, 3, 4, 5, 6, 8]) if focus == 5 else rng.choice([2, 3, 4, 5, 6, 6, 8, 10])
    universe = n_eps + 3
    min_size = rng.choice([0, 1, 1, 1, 2, 3])
    max_size = rng.choice([1, 2, 3, 4, 6, 1 << 31])
    if max_size < min_size and rng.random() < 0.8:
        max_size = min_size + rng.choice([0, 1, 2])
    bands = [([1, 2], [2, 1]), ([1, 2], [2, 1]), ([1, 4], [1, 1]), ([1, 1], [3, 1]), ([1, 1], [1, 1]),
             ([0, 1], [1, 2]), ([3, 2], [2, 1])]
    min_load, max_load = rng.choice(bands)
    slow = rng.random() < (0.25 if focus == 5 else 0.35)
    initial = sorted(rng.sample(range(universe), n_eps))
    steps = rng.choice([15, 30, 50, 80] if focus == 5 else [30, 60, 100])
    ops = [['open']]
    ref = set(initial)
    # --- loading phase: notifications and requests arrive while GetServers is outstanding
    p_during = rng.choice([0.0, 0.3, 0.6, 0.9]) if focus == 5 else rng.choice([0.0, 0.0, 0.3])
    snapped = False
    n_get = 0
    open_gets = []
    while rng.random() < p_during:
        r = rng.random()
        if r < 0.4:
            ep = rng.randrange(universe)
            ops.append(['join', ep]); ref.add(ep)
        elif r < 0.8:
            ep = rng.choice(sorted(ref)) if ref and rng.random() < 0.7 else rng.randrange(universe)
            ops.append(['leave', ep]); ref.discard(ep)
        elif r < 0.9 and not snapped:
            ops.append(['snap']); snapped = True
        elif r < 0.95:
            ops.append(['get']); open_gets.append(n_get); n_get += 1
        elif r < 0.985:
            ops.append(['getd']); open_gets.append(n_get); n_get += 1
        else:
            ops.append(['expire', rng.randrange(4)])
    ops.append(['loaded'])
    n_nodes_guess = universe * 3
    p_get = rng.choice([0.3, 0.45, 0.6])
    p_member = rng.choice([0.05, 0.15, 0.3]) if focus == 5 else rng.choice([0.0, 0.03, 0.08])
    p_chan = rng.choice([0.0, 0.05, 0.15])
    p_tick = rng.choice([0.0, 0.1, 0.3]) if kind == 'aperture' else 0.0
    # the wall clock steps backwards now and then (never in the first rounds of a script: drawn after everything
    # else so that the scripts of earlier rounds keep their shape)
    p_jit = rng.choice([0.0, 0.02, 0.06]) if kind == 'aperture' else 0.0
    p_opened = 0.25 if slow else 0.0
    target = rng.choice([0, 1, 3, 6, 12])       # outstanding level the traffic hovers around
    for k in range(steps):
        if k % 25 == 24:
            target = rng.choice([0, 1, 3, 6, 12, 20])
        r = rng.random()
        if r < p_opened:
            ops.append(['opened', -1 if rng.random() < 0.8 else rng.randrange(n_nodes_guess), rng.random() < 0.8])
            continue
        r = rng.random()
        if r < p_member:
            if rng.random() < 0.5:
                ep = rng.choice(sorted(ref)) if ref and rng.random() < 0.75 else rng.randrange(universe)
                ops.append(['leave', ep]); ref.discard(ep)
            else:
                ep = rng.randrange(universe)
                ops.append(['join', ep]); ref.add(ep)
        elif r < p_member + p_chan:
            ops.append(['chan', -1 if rng.random() < 0.7 else rng.randrange(n_nodes_guess),
                        rng.choice([1, 2, 2, 2, 3, 4, 4])])
        elif r < p_member + p_chan + p_tick:
            ops.append(['tick', rng.choice([1, 10, 100, 500, 1000, 3000, 10000])])
        elif r < p_member + p_chan + p_tick + p_jit:
            ops.append(['jitter'])
        else:
            want_get = len(open_gets) < target or (len(open_gets) == target and rng.random() < 0.5)
            if not open_gets or (want_get and rng.random() < 0.85) or rng.random() < 0.1:
                ops.append(['get']); open_gets.append(n_get); n_get += 1
            else:
                mode = rng.random()
                i = 0 if mode < 0.2 else (len(open_gets) - 1 if mode < 0.4 else rng.randrange(len(open_gets)))
                g = open_gets.pop(i)
                ops.append(['put', g])
                if rng.random() < 0.03:
                    ops.append(['put', g])
    script = {'kind': kind, 'min_size': min_size, 'max_size': max_size, 'min_load': min_load,
              'max_load': max_load, 'slow_open': slow, 'initial': initial, 'ops': ops,
              'auto_open': rng.random() < 0.65, 'seed': rng.randrange(1 << 30)}
    if kind == 'aperture':
        add_clock_steps(script)
        if focus == 6:
            add_decoy_traffic(script)
    return script


def add_decoy_traffic(script):
    """A fifth of the aperture scripts: a second aperture balancer of the same process takes traffic (1 … 12 requests
    that stay outstanding, 100 ms … 5 s after the operation before) at one to four places between the traffic of the
    balancer under test.  Drawn from a generator of its own and inserted afterwards, like the clock steps."""
    import random as _random
    aux = _random.Random(script['seed'] ^ 0xDEC06)
    if aux.random() >= 0.2:
        return
    ops = script['ops']
    first = next(i for i, o in enumerate(ops) if o[0] == 'loaded') + 1
    for _ in range(aux.choice([1, 2, 2, 4])):
        ops.insert(aux.randrange(first, len(ops) + 1), ['decoy', aux.choice([1, 2, 4, 8, 12]),
                                                        aux.choice([100, 1000, 1000, 5000])])


def add_clock_steps(script):
    """Half of the aperture scripts: the wall clock steps backwards one to four times somewhere after the initial
    load (1 ms … 30 s), with more time passing at other places.  Drawn from a generator of its own (derived from the
    script's seed) and inserted afterwards, so the rest of the script is what it was without."""
    import random as _random
    aux = _random.Random(script['seed'] ^ 0x5C06F)
    if aux.random() < 0.5:
        return
    ops = script['ops']
    first = next(i for i, o in enumerate(ops) if o[0] == 'loaded') + 1
    for _ in range(aux.choice([1, 1, 2, 4])):
        ops.insert(aux.randrange(first, len(ops) + 1), ['back', aux.choice([1, 10, 100, 1000, 3000, 30000])])
        if aux.random() < 0.6:
            ops.insert(aux.randrange(first, len(ops) + 1), ['tick', aux.choice([1, 10, 100, 1000, 3000, 10000])])


def shrink(script):
    ops = script['ops']
    for i in range(len(ops) - 1, -1, -1):
        if ops[i][0] == 'loaded' or (ops[i][0] == 'open' and i == 0):
            continue
        cand = ops[:i] + ops[i + 1:]
        if ops[i][0] in ('get', 'getd'):
            gi = sum(1 for o in ops[:i] if o[0] in ('get', 'getd'))
            new = []
            for o in cand:
                if o[0] == 'put':
                    if o[1] == gi:
                        continue
                    new.append(['put', o[1] - 1 if o[1] > gi else o[1]])
                else:
                    new.append(o)
            cand = new
        s = dict(script)
        s['ops'] = cand
        yield s
    if script['initial']:
        for i in range(len(script['initial'])):
            s = dict(script)
            s['initial'] = script['initial'][:i] + script['initial'][i + 1:]
            yield s


# --------------------------------------------------------------------------- the real code
_COUNTER = [0]


def cfg_text(script):
    ap = script['kind'] == 'aperture'
    return vfmt_items([1 if ap else 0, script['min_size'], script['max_size'],
                       script['min_load'], script['max_load'], bool(script['slow_open']),
                       list(script['initial'])])


def vfmt_items(items):
    return ' '.join(vfmt(e) for e in items)


def run_script(script, comp):
    """the wall clock `scales.varz` reads (`time.time()` in MonoClock.__init__/Sample) is the harness's for the
    duration of the script: the loop's virtual clock plus an offset that `back` operations decrease"""
    import time as _time
    import rt
    import scales.varz as varzmod
    real = varzmod.time._real if isinstance(varzmod.time, WallClock) else varzmod.time
    real_math = varzmod.math._real if isinstance(varzmod.math, LoggingMath) else varzmod.math
    wall = WallClock(real, rt.loop)
    varzmod.time = wall
    vmath = varzmod.math = LoggingMath(real_math)
    # `Ema.Update` is wrapped ON THE CLASS: whatever Ema object the code under test made for itself (the harness
    # assigns none) has what each call was given, held before and returned on record, in `ema_log`
    real_update = getattr(varzmod.Ema.Update, '_lbrun_real', varzmod.Ema.Update)
    ema_log = []

    def Update(self, ts, sample):
        first = self._time == -1
        prev_t, prev_v = self._time, self.value
        del vmath.exps[:]
        v = real_update(self, ts, sample)
        if first:
            w, dt, prev = 0.0, Fraction(0), None
        else:
            w = vmath.exps[-1] if vmath.exps else 0.0     # the weight it used (no exp: window 0, weight 0)
            dt, prev = Fraction(ts) - Fraction(prev_t), frac(prev_v)
        ema_log.append((self, (w, v, dt, prev, int(sample))))
        return v

    Update._lbrun_real = real_update
    varzmod.Ema.Update = Update
    try:
        return _run_script(script, comp, wall, ema_log)
    finally:
        varzmod.time = real
        varzmod.math = real_math
        varzmod.Ema.Update = real_update


def _run_script(script, comp, wall, ema_log):
    import random as _random
    import gevent
    from gevent.event import Event
    import rt
    import scales.loadbalancer.base as basemod
    import scales.loadbalancer.heap as heapmod
    import scales.loadbalancer.aperture as apmod
    from scales.asynchronous import AsyncResult
    from scales.constants import ChannelState, SinkProperties, MessageProperties
    from scales.core import ScalesUriParser
    from scales.loadbalancer.aperture import ApertureBalancerSink
    from scales.loadbalancer.heap import HeapBalancerSink
    from scales.loadbalancer.serverset import ServerSetProvider
    from scales.message import Deadline, Message, MethodReturnMessage
    from scales.observable import Observable
    from scales.sink import ClientMessageSink, ClientMessageSinkStack, SinkProviderBase
    from scales.varz import Ema, VarzReceiver

    aperture = script['kind'] == 'aperture'
    slow = bool(script['slow_open'])
    draws, choices, shuffles = [], [], []

    # `named`: the provider selects a named endpoint ('http') of every member, and a member's *service* endpoint is
    # the named endpoint of the member before it (a replacement process that was handed the freed port); the
    # balancer must go by the named endpoint everywhere.  Explicit flag, else derived from the script.
    named = script.get('named')
    if named is None:
        import json as _json
        import zlib as _zlib
        named = bool(_zlib.crc32(_json.dumps([script.get('initial'), script.get('seed')]).encode()) % 3 == 0)

    class NamedMember(object):
        def __init__(self, ep):
            self.service_endpoint = ScalesUriParser.Endpoint('h', 8000 + ep - 1)
            self.additional_endpoints = {'http': ScalesUriParser.Endpoint('h', 8000 + ep)}

    def server(ep):
        if named:
            return NamedMember(ep)
        return ScalesUriParser.Server(ScalesUriParser.Endpoint('h', 8000 + ep))

    def member_ep(m):
        return m.additional_endpoints['http'] if named else m.service_endpoint

    def ep_id(endpoint):
        return endpoint.port - 8000

    class LoggingRandom(object):
        def __init__(self, seed):
            self._r = _random.Random(seed)

        def randint(self, a, b):
            v = self._r.randint(a, b)
            draws.append(v)
            return v

        def choice(self, seq):
            v = self._r.choice(seq)
            choices.append(ep_id(v))
            return v

        def shuffle(self, lst):
            self._r.shuffle(lst)
            shuffles.append([ep_id(member_ep(m)) for m in lst])

        def __getattr__(self, name):
            return getattr(self._r, name)

    lr = LoggingRandom(script['seed'])
    basemod.random = lr
    heapmod.random = lr
    apmod.random = lr

    class Chan(ClientMessageSink):
        def __init__(self, cid, endpoint, log):
            super(Chan, self).__init__()
            self.cid, self.endpoint, self.log = cid, endpoint, log
            self._state = ChannelState.Idle
            self.closes = 0
            self.opens = 0
            self.open_ar = None
            self.open_out = None      # None pending / True / False

        def AsyncProcessRequest(self, sink_stack, msg, stream, headers):
            self.log.append(('req', self.cid, msg))

        def AsyncProcessResponse(self, sink_stack, context, stream, msg):
            pass

        @property
        def state(self):
            return self._state

        @state.setter
        def state(self, v):
            self._state = v

        def Open(self):
            self.opens += 1
            if not slow:
                self.open_out = True
                return AsyncResult.Complete()
            self.open_ar = AsyncResult()
            return self.open_ar

        def Close(self):
            self.closes += 1

    class ChanProvider(SinkProviderBase):
        def __init__(self):
            super(ChanProvider, self).__init__()
            self.chans, self.log = [], []

        def CreateSink(self, properties):
            c = Chan(len(self.chans), properties[SinkProperties.Endpoint], self.log)
            self.chans.append(c)
            return c

        @property
        def sink_class(self):
            return Chan

    class ServerSet(ServerSetProvider):
        def __init__(self, initial):
            self.members = list(initial)       # the reference server set
            self.snapshot = None
            self.release = Event()
            self.on_join = self.on_leave = None
            self.calls = 0

        def Initialize(self, on_join, on_leave):
            self.on_join, self.on_leave = on_join, on_leave

        def Close(self):
            pass

        @property
        def endpoint_name(self):
            return 'http' if named else None

        def GetServers(self):
            self.calls += 1
            self.release.wait()
            snap = self.snapshot if self.snapshot is not None else self.members
            return [server(ep) for ep in snap]

    ss = ServerSet(script['initial'])
    prov = ChanProvider()
    cls = ApertureBalancerSink if aperture else HeapBalancerSink
    props = cls.Builder._defaults.copy()
    props['server_set_provider'] = ss
    if aperture:
        props.update(min_size=script['min_size'], max_size=script['max_size'],
                     min_load=script['min_load'][0] / float(script['min_load'][1]),
                     max_load=script['max_load'][0] / float(script['max_load'][1]),
                     jitter_min_sec=0, jitter_max_sec=0)
    _COUNTER[0] += 1
    label = 'v%d' % _COUNTER[0]
    sink = cls(prov, cls.Builder.PARAMS_CLASS(**props), {SinkProperties.Label: label})
    nodes = []

    class TNode(HeapBalancerSink.Node):
        __slots__ = ('nid',)

        def __init__(self, *a, **kw):
            HeapBalancerSink.Node.__init__(self, *a, **kw)
            self.nid = len(nodes)
            nodes.append(self)

    sink.Node = TNode
    adj_in, adj_rec = [], []
    near = [False]
    clock_tags = set()
    if aperture:
        sink._ScheduleNextJitter = lambda: None        # timer queue is not part of this slice
        t_created = Fraction(sink._time._last)         # the reading MonoClock.__init__ took
        orig_adjust = sink._AdjustAperture

        def healthy():
            return len([c for c in sink._heap[1:] if c.channel.is_open])

        def adjust(amount):
            # "pending": members whose expansion is still bringing up its connection.  A marker left on a member whose
            # open had already ended when the current operation began is not one (the implementation defers
            # contraction on its own bookkeeping; the property knows no such deferral)
            pend = len([e for e in sink._pending_endpoints if e not in settled_at_op_start[0]])
            before = (sink._size, len(sink._idle_endpoints), pend, healthy())
            held = sink._time._last
            del wall.reads[:]
            n0 = len(ema_log)
            orig_adjust(amount)
            # the update this call made on the Ema object the balancer uses (its last one ever, had it made none)
            mine = [r for o, r in ema_log[n0:] if o is sink._ema] or [r for o, r in ema_log if o is sink._ema]
            w, v, dt, prev, sample = mine[-1]
            # what time.time() returned inside MonoClock.Sample() (no reading: the clock was not consulted)
            reading = wall.reads[0] if wall.reads else held
            if reading < held:
                clock_tags.add('clock-behind-at-sample')
            adj_in.append(frac(w) + frac(v) + frac(Fraction(reading) - t_created))
            if before[0] > 0:
                load = v / before[0]
                for b in (sink._min_load, sink._max_load):
                    if load != b and abs(load - b) < NEAR:
                        near[0] = True
            adj_rec.append(list(before) + [frac(v), sink._size, len(sink._idle_endpoints), True,
                                           frac(dt), frac(w), prev, sample])

        sink._AdjustAperture = adjust

    def gauge(name):
        if not aperture:
            return 0
        v = sink._ApertureBalancerSink__varz
        m = getattr(v, name)
        return int(VarzReceiver.VARZ_DATA[m._metric][m._source])

    def ost(n):
        c = n.channel
        if c.opens == 0:
            return 0
        if c.open_out is None:
            return 1
        return 2 if c.open_out else 3

    def view(n):
        return [n.nid, ep_id(n.endpoint), n.load, n.index, n.channel.closes, ost(n)]

    settled_at_op_start = [set()]
    blocked = []        # notification greenlets still inside the callback
    queued = []         # dispatches waiting for the open result
    stacks = []         # per dispatch id: (stack, wrapper, done)
    getmap = []         # k-th `get` of the script -> record
    jit = [None]

    class Rec(ClientMessageSink):
        def __init__(self):
            super(Rec, self).__init__()
            self.got = []

        def AsyncProcessRequest(self, sink_stack, msg, stream, headers):
            pass

        def AsyncProcessResponse(self, sink_stack, context, stream, msg):
            self.got.append(msg)
            # the moment a completion reaches the sink above the balancer: what the balancer attributes to its members
            # right now is what a caller re-dispatching from here (a synchronous retry) would meet
            at_delivery.append(member_views())

    at_delivery = []
    delivery_counts = [False]

    def member_views():
        inheap = set(id(n) for n in sink._heap[1:])
        return ([view(n) for n in sink._heap[1:]], [view(n) for n in nodes if id(n) not in inheap])

    def snapshot(res):
        heap = [view(n) for n in sink._heap[1:]]
        if at_delivery:
            # an operation that delivered a completion upward is observed as of that moment (member loads)
            heap0, off0 = at_delivery[-1]
        down, n, k = [], sink._downq, 0
        while n is not None and k <= len(nodes) + 1:
            down.append(n.nid)
            n = n.downq
            k += 1
        inheap = set(id(n) for n in sink._heap[1:])
        off = [view(n) for n in nodes if id(n) not in inheap]
        if at_delivery and delivery_counts[0]:
            heap, off = heap0, off0
        servers = sorted(ep_id(e) for e in sink._servers)
        idle = sorted(ep_id(e) for e in getattr(sink, '_idle_endpoints', ()))
        pend = sorted(ep_id(e) for e in getattr(sink, '_pending_endpoints', ()))
        init_done = sink._LoadBalancerSink__init_done.is_set()
        oar = sink._LoadBalancerSink__open_ar
        flags = [init_done, len([g for g in blocked if not g.ready()]),
                 bool(oar is not None and oar.ready()), len([q for q in queued if not q['served']]),
                 bool(jit[0] is not None and not jit[0].ready())]
        return vfmt([res, heap, down, off, servers, idle, pend, flags, getattr(sink, '_total', 0),
                     list(adj_rec), [gauge('active'), gauge('idle')]])

    def env_text():
        return vfmt_items([list(choices), list(adj_in)])

    def issue_get(with_deadline=False):
        st = ClientMessageSinkStack()
        rec = Rec()
        st.Push(rec)
        msg = Message()
        evt = None
        if with_deadline:
            evt = Observable()
            msg.properties[Deadline.EVENT_KEY] = evt
        q = {'st': st, 'rec': rec, 'msg': msg, 'served': False, 'res': None, 'dispatch': None, 'evt': evt}
        getmap.append(q)
        queued.append(q)
        sink.AsyncProcessRequest(st, msg, None, {})
        return q

    steps, tags = [], set()
    if named:
        tags.add('named-endpoint')
    req_seen = [0]

    def harvest():
        """what became, during this operation, of the requests that had not been served before it: results in
        arrival order.  Dispatch numbers follow the order in which the channels received the requests."""
        waiting = [q for q in queued if not q['served']]
        extra = []
        for e in prov.log[req_seen[0]:]:
            if e[0] != 'req':
                continue
            owner = [q for q in queued if q['msg'] is e[2]]
            if not owner or owner[0]['served']:
                extra.append(['late' if owner else 'lost', e[1]])     # a request nobody is waiting for was forwarded
                continue
            q = owner[0]
            q['served'] = True
            ep = q['msg'].properties.get(MessageProperties.Endpoint)
            wrapper = q['st']._stack[-1][1] if q['st']._stack else None
            q['dispatch'] = len(stacks)
            stacks.append([q['st'], wrapper, False])
            q['res'] = ['node', e[1], ep_id(ep) if ep is not None else -1, q['dispatch']]
        req_seen[0] = len(prov.log)
        oar = sink._LoadBalancerSink__open_ar
        ready = oar is not None and oar.ready()
        res = []
        for q in waiting:
            if not q['served'] and q['rec'].got:
                err = q['rec'].got[0].error
                q['served'] = True
                q['res'] = 'nomembers' if type(err).__name__ == 'NoMembersError' else ['error', type(err).__name__]
            if not q['served'] and ready:
                # its link on the open result has run and did not forward it
                q['served'] = 'dropped'
                q['res'] = 'dropped'
                tags.add('gate-dropped')
            if q['served']:
                res.append(q['res'])
        return res + extra

    decoy = []

    def decoy_traffic(n, gap):
        """the other aperture balancer of the process: made the way harness/isolation.py makes one, with a random
        source, members and channels of its own; its requests stay outstanding"""
        import isolation
        from test.scales.util.mocks import MockSink, MockSinkStack
        own = _random.Random(script['seed'] ^ 0xDEC0)
        basemod.random = heapmod.random = apmod.random = own
        try:
            if not decoy:
                d = isolation.aperture_balancer()
                d._ScheduleNextJitter = lambda: None
                for i in range(4):
                    d._server_set_provider.AddServer('decoy', 9000 + i)
                d.Open()
                rt.drain()
                decoy.append(d)
            d = decoy[0]
            rt.advance(gap)
            for _ in range(n):
                st = MockSinkStack()
                term = MockSink({SinkProperties.Endpoint: None})
                term.ProcessResponse = lambda *a: None
                st.Push(term)
                d.AsyncProcessRequest(st, Message(), None, {})
                rt.drain()
                rt.advance(gap / 4)
        finally:
            basemod.random = heapmod.random = apmod.random = lr

    if aperture:
        # every aperture script starts after the same prelude — the other balancer of the process is made, opened and
        # takes one request — so that what a script sees of the process does not depend on the scripts the worker ran
        # before it: a sweep, a shrink step and a replay behave alike
        decoy_traffic(1, 1.0)

    open_results = []           # what each Open() returned
    for op in script['ops']:
        if aperture:
            in_flight = set(c.endpoint for c in prov.chans if c.opens > 0 and c.open_out is None)
            # (a marker may outlive its own open while the expansion that replaces a failed one is still opening:
            # markers count as long as any connection is being brought up)
            settled_at_op_start[0] = set() if in_flight else set(getattr(sink, '_pending_endpoints', ()))
        kind = op[0]
        del draws[:], choices[:], adj_in[:], adj_rec[:], shuffles[:]
        pre_queued = [q for q in queued if not q['served']]
        direct = None
        if kind == 'tick':
            rt.advance(op[1] / 1000.0)
            tags.add('tick')
            continue
        if kind == 'back':
            wall.offset -= op[1] / 1000.0
            tags.add('clock-back')
            continue
        if kind == 'decoy':
            if aperture:
                decoy_traffic(op[1], (op[2] if len(op) > 2 else 1000) / 1000.0)
                tags.add('decoy-traffic')
                del draws[:], choices[:], adj_in[:], adj_rec[:], shuffles[:]
            continue
        if kind == 'snap':
            if ss.snapshot is None:
                ss.snapshot = list(ss.members)
                tags.add('snap-late')
            continue
        if kind == 'open':
            ar = sink.Open()
            if open_results:
                # Open() on a balancer that is opening or open: the same open result, nothing else
                tags.add('open-again')
                tags.add('open-again-open' if open_results[0].ready() else
                         ('open-again-opening' if ss.release.is_set() else 'open-again-loading'))
                if ar is not open_results[0]:
                    tags.add('open-returned-new-result')
            open_results.append(ar)
            rt.drain()
            optxt = 'open'
        elif kind == 'loaded':
            ss.release.set()
            rt.drain()
            order = shuffles[0] if shuffles else []
            optxt = 'loaded ' + vfmt(order) + ' ' + env_text()
            if blocked:
                tags.add('gated%d' % min(len(blocked), 5))
            if pre_queued:
                tags.add('queued-req')
        elif kind in ('join', 'leave'):
            ep = op[1]
            if kind == 'join':
                if ep not in ss.members:
                    ss.members.append(ep)
                else:
                    tags.add('dup-join')
                g = gevent.spawn(ss.on_join, server(ep))
            else:
                if ep in ss.members:
                    ss.members.remove(ep)
                else:
                    tags.add('unknown-leave')
                g = gevent.spawn(ss.on_leave, server(ep))
            blocked.append(g)
            rt.drain()
            optxt = '%s %d %s' % (kind, ep, env_text())
        elif kind in ('get', 'getd'):
            direct = issue_get(kind == 'getd')
            rt.drain()
            optxt = kind + ' ' + env_text()
        elif kind == 'expire':
            waiting = [q for q in queued if not q['served']]
            if op[1] >= len(waiting) or waiting[op[1]]['evt'] is None:
                continue
            rt.fire_deadline(waiting[op[1]]['evt'])       # the timeout sink's timer fired: the caller has its TimeoutError
            rt.drain()
            optxt = 'expire %d' % op[1]
            tags.add('gate-expired')
        elif kind == 'put':
            if op[1] >= len(getmap):
                continue
            q = getmap[op[1]]
            if q['dispatch'] is None:
                continue
            ent = stacks[q['dispatch']]
            if ent[1] is None:
                continue
            if not ent[2]:
                del at_delivery[:]
                ent[0].AsyncProcessResponseMessage(MethodReturnMessage())
                ent[2] = True
                delivery_counts[0] = len(at_delivery) == 1
            else:
                ent[1]()
                tags.add('dup-put')
            rt.drain()
            optxt = 'put %d %d %s' % (q['dispatch'], draws[0] if draws else 0, env_text())
            if draws:
                tags.add('idle-put')
        elif kind == 'chan':
            live = [n for n in sink._heap[1:]]
            if op[1] < 0:
                if not live:
                    continue
                if op[1] == -2:          # the member at the root of the heap (the next one to be chosen)
                    nid = live[0].nid
                    tags.add('chan-root')
                elif op[1] == -3:        # a member with the most requests outstanding
                    nid = max(live, key=lambda n: (n.load if n.load < 0 else n.load - sink.Penalty, -n.nid)).nid
                    tags.add('chan-busy')
                else:
                    nid = live[lr._r.randrange(len(live))].nid
            else:
                nid = op[1]
            if nid >= len(prov.chans):
                continue
            prov.chans[nid].state = op[2]
            optxt = 'chan %d %d' % (nid, op[2])
            if op[2] == 4:
                tags.add('chan-closed')
        elif kind == 'opened':
            cands = [c for c in prov.chans if c.open_ar is not None and c.open_out is None]
            if op[1] < 0:
                if not cands:
                    continue
                c = cands[lr._r.randrange(len(cands))]
            else:
                if op[1] >= len(prov.chans):
                    continue
                c = prov.chans[op[1]]
                if c.open_ar is None or c.open_out is not None:
                    continue
            ok = bool(op[2])
            c.open_out = ok
            if ok:
                c.open_ar.set(None)
            else:
                c.open_ar.set_exception(Exception('open failed'))
                tags.add('open-failed')
            rt.drain()
            optxt = 'opened %d %s %s' % (c.cid, 'T' if ok else 'F', env_text())
        elif kind == 'jitter':
            if not aperture or (jit[0] is not None and not jit[0].ready()):
                continue
            jit[0] = gevent.spawn(sink._Jitter)
            rt.drain()
            optxt = 'jitter ' + env_text()
            tags.add('jitter')
        else:
            raise ValueError(kind)
        res = harvest()
        if direct is not None and not direct['served']:
            res = res + ['queued']
            tags.add('get-queued')
        steps.append([optxt, snapshot(res)])
        delivery_counts[0] = False
        del at_delivery[:]
        for r in adj_rec:
            if r[5] == r[0] + 1:
                tags.add('adj-expand')
            elif r[5] + 1 == r[0]:
                tags.add('adj-contract')
            else:
                tags.add('adj-none')
        if choices:
            tags.add('expand')
        if getattr(sink, '_pending_endpoints', None):
            tags.add('pending')
        errs = rt.take_errors()
        if errs:
            steps.append(['open', vfmt(['raised', errs[0][0]])])
            tags.add('raised')
            break
        if near[0]:
            tags.add('near-bound-stop')
            break
        if script.get('auto_open'):
            # like a real sink: a channel whose Open() succeeded reports Open (one `chan` operation each)
            for c in prov.chans:
                if c.open_out is True and c.state == ChannelState.Idle:
                    c.state = ChannelState.Open
                    del adj_rec[:]
                    steps.append(['chan %d 2' % c.cid, snapshot([])])
    if any(n.index < 0 for n in nodes):
        tags.add('removed')
    if getattr(sink, '_idle_endpoints', None):
        tags.add('idle-nonempty')
    if sink._downq is not None:
        tags.add('downlist')
    tags.add('kind-' + script['kind'])
    tags.update(clock_tags)
    if slow:
        tags.add('slow-open')
    tags.add('members%d' % min(len(sink._servers), 9))
    for g in blocked:
        if not g.ready():
            g.kill(block=False)
    if jit[0] is not None and not jit[0].ready():
        jit[0].kill(block=False)
    g = sink._LoadBalancerSink__open_greenlet
    if g is not None and not g.ready():
        g.kill(block=False)
    rt.drain()
    rt.take_errors()
    return {'comp': comp, 'cfg': cfg_text(script), 'steps': steps, 'tags': sorted(tags)}


def nontrivial(case):
    t = set(case.get('tags', []))
    return bool(t & {'dup-join', 'unknown-leave', 'gated1', 'gated2', 'gated3', 'gated4', 'gated5', 'removed',
                     'expand', 'adj-expand', 'adj-contract', 'jitter', 'chan-closed', 'open-failed',
                     'queued-req', 'downlist'})
