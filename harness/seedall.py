"""seedall.py — regression over every kept seeded change: apply, run the quick check of its property (and of the
extra properties named in meta.json 'also'), undo; writes seeded/REGRESSION.json and prints one line per seed."""
import json
import os
import subprocess
import sys

root = '/verif/seeded'
out = {}
regfile = os.path.join(root, 'REGRESSION.json')
names = sorted(d for d in os.listdir(root) if os.path.isdir(os.path.join(root, d)))
if len(sys.argv) > 1:
    names = [n for n in names if any(a in n for a in sys.argv[1:])]
    if os.path.exists(regfile):
        out = json.load(open(regfile))        # partial run: keep the other entries
if os.environ.get('OWN_ONLY') and os.path.exists(regfile):
    out = json.load(open(regfile))        # own-property run: keep what is known about the other checks
for n in names:
    meta = json.load(open(os.path.join(root, n, 'meta.json')))
    props = [meta['property']] + ([] if os.environ.get('OWN_ONLY') else list(meta.get('also', [])))
    assert subprocess.run(['git', '-C', '/repo', 'status', '--porcelain', '--untracked-files=no'],
                          stdout=subprocess.PIPE, text=True).stdout.strip() == ''
    res = {}
    try:
        a = subprocess.run(['git', '-C', '/repo', 'apply', os.path.join(root, n, 'patch.diff')])
        if a.returncode != 0:
            out[n] = {'error': 'patch does not apply'}
            print(n, 'PATCH DOES NOT APPLY')
            continue
        for p in props:
            q = subprocess.run(['./check', p, '--tier', 'quick'], cwd='/verif', env=dict(os.environ, VERIF_SEED='1'),
                               stdout=subprocess.PIPE, stderr=subprocess.STDOUT, text=True)
            v = [l for l in q.stdout.splitlines() if l.startswith('VIOLATION')]
            concrete = [l for l in v if not l.endswith('no-failing-input-found')]
            res[p] = {'exit': q.returncode, 'violation_lines': len(v), 'concrete': len(concrete)}
    finally:
        subprocess.run(['git', '-C', '/repo', 'checkout', '--', '.'], check=True)
    out[n] = dict(out.get(n, {}), **res) if os.environ.get('OWN_ONLY') and isinstance(out.get(n), dict) else res
    print(n, ' '.join('%s:%s' % (p, 'CONCRETE' if r['concrete'] else ('diverge-only' if r['exit'] == 1 else 'MISSED'))
                      for p, r in res.items()), flush=True)
json.dump(out, open(regfile, 'w'), indent=1, sort_keys=True)
