"""Fake network.  `install()` leaves the REAL scales.scales_socket.ScalesSocket in place and replaces only the OS socket
class it instantiates (`gsocket`) and name resolution, so open()/close()/isOpen() are the code under test.
`FakeScalesSocket` is kept for harnesses that hand a socket object to a transport directly.  Virtual-time gevent loop
required."""
import gevent
from gevent.event import Event
from gevent.queue import Queue
import socket as _socket

class Net(object):
    def __init__(self):
        self.servers = {}    # (host,port) -> Server
        self.conns = []
        self.log = []
        self.connect_delay = 0   # seconds every connect takes (virtual time)
    def server(self, host, port):
        s = self.servers.get((host, port))
        if not s:
            s = self.servers[(host, port)] = Server(self, host, port)
        return s

class Server(object):
    def __init__(self, net, host, port):
        self.net, self.host, self.port = net, host, port
        self.reachable = True
        self.hang_connect = False
        self.conns = []
        self.on_connect = None
        self.connect_attempts = []
    def __repr__(self): return 'S(%s:%s)' % (self.host, self.port)

class Conn(object):
    """client side handle (like a gevent socket)"""
    def __init__(self, server=None):
        self.server = server
        self.to_client = bytearray()
        self.client_evt = Event()
        self.written = []       # (time, bytes) written by client
        self.closed_by_client = False
        self.eof = False        # server closed
        self.read_error = None
        self.write_error = None
        self.on_write = None
    # --- client API
    def connect(self, addr):
        """what the real ScalesSocket.open() calls on the OS socket it has just created"""
        import time
        srv = NET.server(addr[0], addr[1])
        self.server = srv
        if getattr(srv, 'on_attempt', None):
            srv.on_attempt()            # the moment the client starts the attempt (before any connect delay)
        if NET.connect_delay:
            gevent.sleep(NET.connect_delay)
        srv.connect_attempts.append(time.time())
        if srv.hang_connect:
            Event().wait()
        if not srv.reachable:
            raise _socket.error(111, 'Connection refused')
        srv.conns.append(self)
        if srv.on_connect: srv.on_connect(self)
    def recv_into(self, view, sz):
        while True:
            if self.closed_by_client: raise _socket.error('closed')
            if self.read_error: 
                e, self.read_error = self.read_error, None
                raise e
            if self.to_client:
                n = min(sz, len(self.to_client), getattr(self, 'max_chunk', 1 << 30))
                view[:n] = self.to_client[:n]
                del self.to_client[:n]
                return n
            if self.eof: return 0
            self.client_evt.clear()
            self.client_evt.wait()
    def recv(self, sz):
        b = bytearray(sz); n = self.recv_into(memoryview(b), sz); return bytes(b[:n])
    def sendall(self, data):
        hook = getattr(self, 'before_write', None)
        if hook: hook(self)          # the moment the client issues the write; may block (a peer that does not read)
        if self.closed_by_client: raise _socket.error('closed')
        if self.write_error:
            e, self.write_error = self.write_error, None
            raise e
        import time
        self.written.append((time.time(), bytes(data)))
        if self.on_write: self.on_write(self, bytes(data))
    def send(self, data): self.sendall(data); return len(data)
    def setsockopt(self, *a): pass
    def close(self):
        self.closed_by_client = True
        self.client_evt.set()
    # --- server API
    def feed(self, data):
        self.to_client += data; self.client_evt.set()
    def server_close(self):
        self.eof = True; self.client_evt.set()
    def inject_read_error(self, e):
        self.read_error = e; self.client_evt.set()

NET = Net()

class FakeScalesSocket(object):
    def __init__(self, host, port):
        self.host, self.port = host, port
        self.handle = None
    def isOpen(self): return self.handle is not None
    def open(self):
        import time
        srv = NET.server(self.host, self.port)
        srv.connect_attempts.append(time.time())
        if srv.hang_connect:
            Event().wait()
        if not srv.reachable:
            raise _socket.error(111, 'Connection refused')
        c = Conn(srv)
        srv.conns.append(c)
        self.handle = c
        if srv.on_connect: srv.on_connect(c)
    def close(self):
        if self.handle:
            self.handle.close(); self.handle = None
    def read(self, sz): return self.handle.recv(sz)
    def readAll(self, sz):
        buff = b''
        while len(buff) < sz:
            chunk = self.read(sz - len(buff))
            if not chunk: raise EOFError()
            buff += chunk
        return buff
    def write(self, buff): self.handle.sendall(buff)

def install():
    import scales.scales_socket as ss
    def fake_gsocket(family, type_):
        # what the kernel does for the one address the fake resolver returns: (AF_INET, SOCK_STREAM) gives a socket,
        # anything else is refused the way socket(2) refuses it
        if (family, type_) != (2, 1):
            raise _socket.error(94, 'Socket type not supported')
        return Conn()
    ss.gsocket = fake_gsocket
    ss.ScalesSocket._resolveAddr = lambda self: [(2, 1, 6, '', (self.host, self.port))]
    NET.connect_delay = 0
