"""Factories for the instance-isolation obligation (lib.isolation_obligations): each returns a fresh, used-a-little
object of a class in some property's anchors.  Two objects so made must not hold one and the same mutable object."""


def _props(cls, **kw):
    p = cls.Builder._defaults.copy()
    p.update(kw)
    return cls.Builder.PARAMS_CLASS(**p)


def _balancer(cls):
    def make():
        from scales.constants import SinkProperties
        from test.scales.util.mocks import MockSinkProvider, MockServerSetProvider
        return cls(MockSinkProvider(), _props(cls, server_set_provider=MockServerSetProvider()),
                   {SinkProperties.Label: 'iso'})
    return make


def heap_balancer():
    from scales.loadbalancer.heap import HeapBalancerSink
    return _balancer(HeapBalancerSink)()


def aperture_balancer():
    from scales.loadbalancer.aperture import ApertureBalancerSink
    return _balancer(ApertureBalancerSink)()


def watermark_pool():
    from scales.constants import SinkProperties
    from scales.pool.watermark import WatermarkPoolSink
    from scales.loadbalancer.zookeeper import Endpoint
    from test.scales.util.mocks import MockSinkProvider
    return WatermarkPoolSink(MockSinkProvider(), _props(WatermarkPoolSink),
                             {SinkProperties.Label: 'iso', SinkProperties.Endpoint: Endpoint('h', 1)})


def singleton_pool():
    from scales.constants import SinkProperties
    from scales.pool.singleton import SingletonPoolSink
    from scales.loadbalancer.zookeeper import Endpoint
    from test.scales.util.mocks import MockSinkProvider
    return SingletonPoolSink(MockSinkProvider(), _props(SingletonPoolSink),
                             {SinkProperties.Label: 'iso', SinkProperties.Endpoint: Endpoint('h', 1)})


def resurrector():
    from scales.constants import SinkProperties
    from scales.resurrector import ResurrectorSink
    from scales.loadbalancer.zookeeper import Endpoint
    from test.scales.util.mocks import MockSinkProvider
    return ResurrectorSink(MockSinkProvider(), _props(ResurrectorSink),
                           {SinkProperties.Label: 'iso', SinkProperties.Endpoint: Endpoint('h', 1)})


def timer_queue():
    from scales.timer_queue import TimerQueue
    q = TimerQueue(resolution=0.01)
    q.Schedule(1e12, lambda: None)()
    return q


def tag_pool():
    from scales.mux.sink import TagPool
    p = TagPool(100, 'svc', 'h:1')
    p.release(p.get())
    return p


def thrift_serializer():
    from scales.thrift.serializer import MessageSerializer
    from props import c14_derived
    s = MessageSerializer(c14_derived.Iface)
    s._FindClass('ping_args')             # an inherited method: fills whatever cache the lookup keeps
    return s


def mux_serializer():
    from scales.thriftmux.serializer import MessageSerializer
    from test.scales.thrift.gen_py.hello import Hello
    return MessageSerializer(Hello.Iface)


def kafka_protocol():
    from scales.kafka.protocol import KafkaProtocol
    return KafkaProtocol()


def observable():
    from scales.observable import Observable
    o = Observable()
    o.Subscribe(lambda v: None)
    o.Subscribe(lambda v: None, True)
    return o
