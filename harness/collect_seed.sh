#!/bin/sh
# collect_seed.sh <worktree> <name> <PROP> [more props]: confirm a seeded change (demo fails with it, passes without,
# unit tests pass with it), store it under /verif/seeded/<name>/ and run the quick checks against it.
wt="$1"; name="$2"; shift 2
pid=$(basename "$wt")
cd "$wt" || exit 2
demo=$(ls demo_* test_demo* 2>/dev/null | head -1)
PYTHONPATH="$wt" timeout 120 /venv/bin/python "$demo" >/dev/null 2>&1; w=$?
git apply -R patch.diff
PYTHONPATH="$wt" timeout 120 /venv/bin/python "$demo" >/dev/null 2>&1; wo=$?
git apply patch.diff
t=$(PYTHONPATH="$wt" /venv/bin/python -m pytest -q -p no:cacheprovider test/scales 2>&1 | tail -1)
echo "demo=$demo with_change_exit=$w without_exit=$wo tests: $t"
mkdir -p "/verif/seeded/$name"
cp patch.diff "$demo" "/verif/seeded/$name/"
cd /verif && /venv/bin/python harness/seedtest.py "seeded/$name" "$@"
printf '{"demo": "%s", "demo_exit_with_change": %s, "demo_exit_without": %s, "unit_tests_with_change": "%s"}\n' "$demo" "$w" "$wo" "$t" > "/verif/seeded/$name/confirm.json"
