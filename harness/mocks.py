"""Harness-side stand-ins for a sink's neighbours (imported after rt)."""
from scales.asynchronous import AsyncResult
from scales.constants import ChannelState, SinkProperties
from scales.core import ScalesUriParser
from scales.loadbalancer.serverset import ServerSetProvider
from scales.sink import ClientMessageSink, ClientMessageSinkStack, SinkProviderBase


class Chan(ClientMessageSink):
    """A next sink whose state is set by the harness only."""

    def __init__(self, cid, endpoint, log):
        super(Chan, self).__init__()
        self.cid = cid
        self.endpoint = endpoint
        self._state = ChannelState.Idle
        self.closes = 0
        self.opens = 0
        self.requests = []      # (sink_stack, msg)
        self.log = log

    def AsyncProcessRequest(self, sink_stack, msg, stream, headers):
        self.requests.append((sink_stack, msg))
        self.log.append(('req', self.cid))

    def AsyncProcessResponse(self, sink_stack, context, stream, msg):
        pass

    @property
    def state(self):
        return self._state

    @state.setter
    def state(self, v):
        self._state = v

    def Open(self):
        self.opens += 1
        self.log.append(('open', self.cid))
        return AsyncResult.Complete()

    def Close(self):
        self.closes += 1
        self.log.append(('close', self.cid))


class ChanProvider(SinkProviderBase):
    def __init__(self):
        super(ChanProvider, self).__init__()
        self.chans = []
        self.log = []

    def CreateSink(self, properties):
        c = Chan(len(self.chans), properties[SinkProperties.Endpoint], self.log)
        self.chans.append(c)
        return c

    @property
    def sink_class(self):
        return Chan


class Recorder(ClientMessageSink):
    """Bottom frame of a harness-made sink stack: records the response it is handed."""

    def __init__(self):
        super(Recorder, self).__init__()
        self.got = []

    def AsyncProcessRequest(self, sink_stack, msg, stream, headers):
        pass

    def AsyncProcessResponse(self, sink_stack, context, stream, msg):
        self.got.append(msg)


def new_stack():
    st = ClientMessageSinkStack()
    rec = Recorder()
    st.Push(rec)
    return st, rec


class ServerSet(ServerSetProvider):
    """Server set under harness control."""

    def __init__(self, initial=()):
        self.initial = list(initial)
        self.on_join = None
        self.on_leave = None
        self.get_delay = 0

    def Initialize(self, on_join, on_leave):
        self.on_join, self.on_leave = on_join, on_leave

    def Close(self):
        pass

    def GetServers(self):
        if self.get_delay:
            import gevent
            gevent.sleep(self.get_delay)
        return list(self.initial)


def server(ep):
    return ScalesUriParser.Server(ScalesUriParser.Endpoint('h', 8000 + ep))


def ep_id(endpoint):
    return endpoint.port - 8000
