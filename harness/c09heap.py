"""C09 at the balancer hop (component `heap9`): the real HeapBalancerSink over harness channels whose
state the script sets (the ResurrectorSink below reports Closed while down and Open once reconnected).
Driven through harness/heaprun.py (the driver of C03/C04); judged by Adapter/HeapC09.lean `specC09`:
right after every dispatch no member whose channel is Open is still marked down.

Scripts: several members are down at once (marked down one after the other by dispatches, so that the
down list holds them in a known order), they come back in a chosen order — the order they went down
(non-LIFO w.r.t. the list, whose head is the member marked down last), the reverse, random, several at
once — with dispatches and completions in between; members leave or re-join while listed; members go
down again after recovery."""
import heaprun

COMPONENT = 'heap9'
NOT_OPEN = [1, 3, 4, 4]


class _Gen(object):
    def __init__(self, rng, n):
        self.rng = rng
        self.ops = []
        self.gets = 0
        self.open_reqs = []
        self.nodes = 0
        self.ep_of = {}         # node id -> endpoint, current members only
        self.next_ep = 0
        for _ in range(n):
            self.join()

    def join(self):
        ep = self.next_ep
        self.next_ep += 1
        self.ops.append(['join', ep])
        nid = self.nodes
        self.nodes += 1
        self.ep_of[nid] = ep
        self.ops.append(['chan', nid, 2])
        return nid

    def leave(self, nid):
        self.ops.append(['leave', self.ep_of.pop(nid)])

    def chan(self, nid, st):
        self.ops.append(['chan', nid, st])

    def get(self, k=1):
        for _ in range(k):
            self.ops.append(['get'])
            self.open_reqs.append(self.gets)
            self.gets += 1

    def put(self, k=1):
        for _ in range(k):
            if not self.open_reqs:
                return
            mode = self.rng.random()
            i = 0 if mode < 0.3 else (len(self.open_reqs) - 1 if mode < 0.5 else self.rng.randrange(len(self.open_reqs)))
            self.ops.append(['put', self.open_reqs.pop(i)])

    def traffic(self, lo, hi):
        """a burst of dispatches with some completions in between"""
        for _ in range(self.rng.randint(lo, hi)):
            self.get()
            if self.rng.random() < self.p_put:
                self.put()


def gen_script(rng, tier):
    if rng.random() < 0.15:
        # the general generator of C03/C04 (joins, leaves, channel flips, completions of every kind)
        s = heaprun.gen_script(rng, tier, 9)
        s['kind'] = 'heap'
        return s
    n = rng.choice([2, 3, 3, 4, 5, 6, 7])
    g = _Gen(rng, n)
    g.p_put = rng.choice([0.0, 0.3, 0.6, 0.9])
    if rng.random() < 0.6:
        g.traffic(0, 2 * n)
    rounds = rng.choice([1, 1, 2, 3])
    for _ in range(rounds):
        members = sorted(g.ep_of)
        if len(members) < 2:
            g.join()
            g.join()
            members = sorted(g.ep_of)
        # how many go down together: at least two, sometimes all (then dispatches go to down members)
        k = rng.randint(2, len(members)) if rng.random() < 0.8 else len(members)
        victims = rng.sample(members, k)
        style = rng.choice(['one-by-one', 'one-by-one', 'together'])
        for v in victims:
            g.chan(v, rng.choice(NOT_OPEN))
            if style == 'one-by-one':
                # enough dispatches for the member to reach the root and be marked down
                g.traffic(1, n + 2)
        if style == 'together':
            g.traffic(1, 2 * n + 2)
        # membership changes while listed
        if rng.random() < 0.25 and victims:
            v = rng.choice(victims)
            g.leave(v)
            victims = [x for x in victims if x != v]
            if rng.random() < 0.5:
                g.traffic(0, 2)
            if rng.random() < 0.5:
                g.join()
        order = rng.choice(['fifo', 'fifo', 'lifo', 'random', 'random', 'pairs'])
        back = list(victims)
        if order == 'lifo':
            back.reverse()
        elif order != 'fifo':
            rng.shuffle(back)
        stay = back.pop() if back and rng.random() < 0.2 else None      # one stays down
        i = 0
        while i < len(back):
            step = 2 if order == 'pairs' else 1
            for v in back[i:i + step]:
                g.chan(v, 2)
            i += step
            if rng.random() < 0.9:
                g.traffic(1, 3)
            if rng.random() < 0.15 and i < len(back):
                # flaps: goes away again before the others are back
                g.chan(back[i - 1], rng.choice(NOT_OPEN))
                g.traffic(0, n)
                g.chan(back[i - 1], 2)
        g.traffic(1, n + 2)
        if stay is not None and rng.random() < 0.7:
            g.chan(stay, 2)
            g.traffic(1, 3)
        if rng.random() < 0.5:
            g.put(rng.randint(0, len(g.open_reqs)))
    return {'kind': 'heap', 'ops': g.ops, 'seed': rng.randrange(1 << 30)}


def exhaustive(tier, shard, shards):
    """three or four members, D of them marked down in every order (one dispatch round after each),
    coming back in every order, 0/1/2 dispatches after each return, then a final round of dispatches"""
    import itertools
    sizes = [(3, 2), (3, 3), (4, 3)] if tier != 'thorough' else [(3, 2), (3, 3), (4, 3), (4, 4), (5, 4)]
    k = 0
    for n, d in sizes:
        for downs in itertools.permutations(range(n), d):
            for ups in itertools.permutations(downs):
                for between in ((1,), (0, 2)) if tier != 'thorough' else ((1,), (0, 2), (2, 0), (0, 0)):
                    k += 1
                    if k % shards != shard:
                        continue
                    ops = []
                    for ep in range(n):
                        ops += [['join', ep], ['chan', ep, 2]]
                    for v in downs:
                        ops.append(['chan', v, 4])
                        ops += [['get']] * (n + 1)
                    for i, v in enumerate(ups):
                        ops.append(['chan', v, 2])
                        ops += [['get']] * between[i % len(between)]
                    ops += [['get']] * 2
                    yield {'kind': 'heap', 'ops': ops, 'seed': k}


def shrink(script):
    for s in heaprun.shrink(script):
        s['kind'] = 'heap'
        yield s


def _parse(txt):
    """the observation text `(res (views) (down) (off))` as nested lists of atoms"""
    out, stack, tok = None, [], ''
    for ch in txt + ' ':
        if ch in '() \t':
            if tok:
                stack[-1].append(tok)
                tok = ''
            if ch == '(':
                stack.append([])
            elif ch == ')':
                done = stack.pop()
                if stack:
                    stack[-1].append(done)
                else:
                    out = done
        else:
            tok += ch
    return out


def run_script(script):
    case = heaprun.run_script(script, COMPONENT)
    tags = set(case.get('tags', []))
    chan = {}
    prev_down = []
    for op, obs in case['steps']:
        w = op.split()
        o = _parse(obs)
        if not isinstance(o, list) or len(o) != 4 or not isinstance(o[2], list):
            continue
        down = o[2]
        if w[0] == 'chan':
            if w[2] == '2' and w[1] in prev_down:
                tags.add('reconnected-while-listed')
            chan[w[1]] = w[2]
        if w[0] == 'get':
            if len(down) >= 2:
                tags.add('two-down')
            if len(down) >= 3:
                tags.add('three-down')
            gone = [x for x in prev_down if x not in down]
            marked_up = [x for x in gone if chan.get(x) == '2']
            if marked_up:
                tags.add('marked-up')
                # a member other than the head of the list came back while the head stays listed
                if prev_down and prev_down[0] in down and any(x != prev_down[0] for x in marked_up):
                    tags.add('non-lifo-recovery')
                if len(marked_up) >= 2:
                    tags.add('several-marked-up-at-once')
            if [x for x in down if x not in prev_down]:
                tags.add('marked-down')
        prev_down = down
    case['tags'] = sorted(tags)
    return case


def nontrivial(case):
    t = set(case.get('tags', []))
    return 'marked-down' in t and bool(t & {'marked-up', 'two-down', 'removed'})
