"""merge_ws.py <slice> — bring a builder's finished slice from /work/<slice>/verif into /verif.

New files are copied; the shared registries (ScalesModel.lean, Driver/Main.lean, MANIFEST.json,
known_findings.json) are merged line/entry-wise; every other modified file is only reported."""
import json
import os
import re
import shutil
import subprocess
import sys

ws = '/work/%s/verif' % sys.argv[1]
props = [p.upper() for p in sys.argv[2:]]
dst = '/verif'
subprocess.run(['git', 'add', '-A'], cwd=ws, check=True)
out = subprocess.run(['git', 'diff', '--cached', '--name-status', 'HEAD'], cwd=ws, stdout=subprocess.PIPE, text=True).stdout
added, modified = [], []
for line in out.splitlines():
    st, path = line.split('\t', 1)
    if path.startswith(('evidence/', 'replays/', '.work/')) or path.endswith('.pyc'):
        continue
    (added if st.startswith('A') else modified).append(path)
for p in added:
    os.makedirs(os.path.dirname(os.path.join(dst, p)) or dst, exist_ok=True)
    if os.path.exists(os.path.join(dst, p)):
        print('EXISTS (not overwritten):', p)
        continue
    shutil.copy2(os.path.join(ws, p), os.path.join(dst, p))
    print('added', p)


def added_lines(path):
    d = subprocess.run(['git', 'diff', '--cached', 'HEAD', '--', path], cwd=ws, stdout=subprocess.PIPE, text=True).stdout
    return [l[1:] for l in d.splitlines() if l.startswith('+') and not l.startswith('+++')]


for p in modified:
    if p == 'lean/ScalesModel.lean':
        cur = open(os.path.join(dst, p)).read()
        for l in added_lines(p):
            if l.startswith('import') and l not in cur:
                cur += l + '\n'
                print('root import:', l)
        open(os.path.join(dst, p), 'w').write(cur)
    elif p == 'lean/Driver/Main.lean':
        cur = open(os.path.join(dst, p)).read()
        for l in added_lines(p):
            if l.startswith('import') and l not in cur:
                cur = cur.replace('open Scales\n', l + '\nopen Scales\n', 1) if False else re.sub(
                    r'(import ScalesModel\.Adapter\.\w+\n)(?!import)', r'\1' + l + '\n', cur, count=1)
                print('driver import:', l)
            m = re.match(r'\s*⟨"(\w+)",\s*(.*?)⟩,?\s*$', l)
            if m and ('"%s"' % m.group(1)) in cur and l.strip().rstrip(',') not in cur:
                print('CHANGED DRIVER ENTRY (apply by hand):', l.strip())
            if m and ('"%s"' % m.group(1)) not in cur:
                cur = re.sub(r'\n\]', ',\n  ⟨"%s", %s⟩\n]' % (m.group(1), m.group(2)), cur, count=1)
                print('driver component:', m.group(1))
        open(os.path.join(dst, p), 'w').write(cur)
    elif p == 'MANIFEST.json':
        theirs = json.load(open(os.path.join(ws, p)))
        mine = json.load(open(os.path.join(dst, p)))
        have = {c['property_id'] for c in mine['checks']}
        for c in theirs['checks']:
            if c['property_id'] not in have and (not props or c['property_id'] in props):
                mine['checks'].append(c)
                mine['not_applicable'] = [n for n in mine.get('not_applicable', []) if n['property_id'] != c['property_id']]
                sp = set(mine['engines'][0]['serves_properties']) | {c['property_id']}
                mine['engines'][0]['serves_properties'] = sorted(sp)
                print('manifest check:', c['property_id'])
        mine['checks'].sort(key=lambda c: c['property_id'])
        json.dump(mine, open(os.path.join(dst, p), 'w'), indent=1)
    elif p == 'known_findings.json':
        theirs = json.load(open(os.path.join(ws, p)))
        mine = json.load(open(os.path.join(dst, p)))
        ids = {f['id'] for f in mine['findings']}
        for f in theirs['findings']:
            if f['id'] not in ids:
                mine['findings'].append(f)
                print('finding:', f['id'], f['status'])
        json.dump(mine, open(os.path.join(dst, p), 'w'), indent=1)
    elif p == 'lean/theorems.lock':
        pass
    else:
        print('MODIFIED (review by hand):', p)
