"""Runtime for workers: virtual-time gevent loop, virtual wall clock, canonical helpers.
Imported before anything from scales."""
import os
import sys

HERE = os.path.dirname(os.path.abspath(__file__))
REPO = os.environ.get('SCALES_REPO', '/repo')
if HERE not in sys.path:
    sys.path.insert(0, HERE)
sys.path.insert(0, REPO)
os.environ['GEVENT_LOOP'] = 'vloop.VLoop'
import vloop  # noqa
import gevent  # noqa
from gevent import get_hub  # noqa
import time  # noqa

loop = get_hub().loop
assert type(loop).__name__ == 'VLoop', type(loop)
T0 = loop.now()
time.time = loop.now

import logging  # noqa
logging.basicConfig(level=os.environ.get('LOGLEVEL', 'CRITICAL'))
logging.disable(logging.CRITICAL if not os.environ.get('LOGLEVEL') else logging.NOTSET)

import scales  # noqa
assert os.path.realpath(scales.__path__[0]).startswith(os.path.realpath(REPO)), scales.__path__

# errors raised inside hub callbacks / greenlets are collected, not printed
HUB_ERRORS = []


class _ErrHandler(object):
    def handle_error(self, context, type_, value, tb):
        HUB_ERRORS.append((type_.__name__, str(value)))


_hub = get_hub()
_orig_handle_error = _hub.handle_error


def _handle_error(context, type_, value, tb):
    if issubclass(type_, (gevent.GreenletExit, SystemExit, KeyboardInterrupt)):
        return _orig_handle_error(context, type_, value, tb)
    HUB_ERRORS.append((type_.__name__, str(value)[:200]))


_hub.handle_error = _handle_error
loop.error_handler = None


def take_errors():
    errs = list(HUB_ERRORS)
    del HUB_ERRORS[:]
    return errs


def now_us():
    """virtual time since start, in integer microseconds"""
    return int(round((loop.now() - T0) * 1e6))


def drain(limit=100000):
    """run every runnable callback (and those they enqueue) without advancing the clock"""
    n = 0
    while loop._callbacks:
        gevent.sleep(0)
        n += 1
        if n > limit:
            raise RuntimeError('drain: callbacks never settle')


def advance(seconds):
    """let virtual time pass (timers due in the interval fire in order)"""
    gevent.sleep(seconds)
    drain()


def advance_to_us(us):
    target = T0 + us / 1e6
    d = target - loop.now()
    if d > 0:
        gevent.sleep(d)
    drain()


def kill_stragglers():
    """End every greenlet a finished script left behind (retry loops, ping loops, receive loops),
    except the process-wide timer-queue workers, so that scripts run in one worker process do not
    disturb each other."""
    import gc
    import scales.timer_queue as tq
    keep = {id(tq.GLOBAL_TIMER_QUEUE._worker), id(tq.LOW_RESOLUTION_TIMER_QUEUE._worker), id(gevent.getcurrent())}
    n = 0
    for o in gc.get_objects():
        try:
            if isinstance(o, gevent.Greenlet) and not o.dead and id(o) not in keep:
                o.kill(block=False)
                n += 1
        except ReferenceError:
            pass
    drain()
    take_errors()
    return n


def fire_deadline(evt):
    """Raise a call's deadline event exactly as the code under test does: by running the real
    scales.sink.ClientTimeoutSink._TimeoutHelper (on a bare object standing for the sink and a sink stack that
    swallows the TimeoutError message — the harnesses that use this observe the hops *below* the timeout sink)."""
    from scales.sink import ClientTimeoutSink

    class _Varz(object):
        @staticmethod
        def timeouts():
            pass

    class _Sink(object):
        _varz = _Varz

    class _Stack(object):
        def AsyncProcessResponseMessage(self, msg):
            pass
    ClientTimeoutSink._TimeoutHelper(_Sink(), evt, _Stack())
