"""C09, component `respool`: the real ResurrectorSink over the real WatermarkPoolSink over the real
serial Thrift SocketTransportSink, on fake sockets (harness/fakenet.py).  This is the path of the
fault signal transport -> pool -> resurrector (finding F5).

Every operation is followed by a full drain of the callback list, observations are taken at
quiescence.  The peer's behaviour for a request (`reply`: answers, `eof`: closes the connection
instead of answering) and the endpoint's reachability for connects (`up`/`down`: refused) are
scripted.

The pool's configuration is part of the script: `lo` = min_watermark (with 0 the pool keeps no idle
connection: the probe connection of Open() / of a reconnection is closed again after a successful
connect and every request opens its own), `hi` = max_watermark (`inf`: the shipped default Int.MaxValue).
The real WatermarkPoolSink.Builder is given exactly these values.

Script: {'kind': 'pool', 'cfg': [init_s, max_s, exponent], 'wm': [lo, hi], 'ops': [[name, args…], …]}
        ('wm' missing: the shipped defaults [1, 'inf'])
ops: open | req reply|eof | reach up|down | tick ms | wake | close
"""
import struct
from io import BytesIO

import gevent

import rt
from lib import vfmt
import fakenet
from scales.constants import ChannelState, Int, SinkProperties
from scales.core import ScalesUriParser
from scales.message import FailedFastError, MethodCallMessage
from scales.sink import ClientMessageSink, ClientMessageSinkStack, SinkProviderBase
from scales.pool.watermark import WatermarkPoolSink
from scales.thrift.sink import SocketTransportSink
import scales.resurrector as resmod
import c09res

COMPONENT = 'respool'
WMS = [[lo, hi] for lo in (0, 1, 2) for hi in (1, 2, 'inf')]
STATE = c09res.STATE
_PORT = [9000]


class Rec(ClientMessageSink):
    def __init__(self):
        super(Rec, self).__init__()
        self.got = []

    def AsyncProcessRequest(self, sink_stack, msg, stream, headers):
        pass

    def AsyncProcessResponse(self, sink_stack, context, stream, msg):
        self.got.append((stream, msg))


class LogProvider(SinkProviderBase):
    """between the resurrector and the pool provider: numbers the pools in creation order"""

    def __init__(self, inner, made):
        super(LogProvider, self).__init__()
        self.inner, self.made = inner, made

    def CreateSink(self, properties):
        s = self.inner.CreateSink(properties)
        self.made.append(s)
        return s

    @property
    def sink_class(self):
        return self.inner.sink_class


def gen_script(rng, tier):
    import props.c09 as top
    cfg = rng.choice(top.CFGS)
    ops = []
    style = rng.choice(['down-at-first', 'down-at-first', 'mid-traffic', 'mixed', 'mixed', 'reconnect-refused'])
    n = rng.choice([5, 9, 14, 20])
    if style in ('down-at-first', 'reconnect-refused') or rng.random() < 0.2:
        ops.append(['reach', 'down'])
    ops.append(['open'])
    if style == 'reconnect-refused':
        ops += [['wake'], ['wake'], ['req', 'reply']]
    w = {'down-at-first': dict(req=5, eof=1, reach=2, tick=3, wake=4, close=0.2),
         'mid-traffic': dict(req=6, eof=3, reach=2, tick=2, wake=3, close=0.2),
         'mixed': dict(req=5, eof=2, reach=3, tick=3, wake=3, close=0.4),
         'reconnect-refused': dict(req=4, eof=1, reach=1.5, tick=2, wake=5, close=0.2)}[style]
    names = list(w)
    weights = [w[k] for k in names]
    for _ in range(n):
        k = rng.choices(names, weights)[0]
        if k == 'req':
            ops.append(['req', 'reply'])
        elif k == 'eof':
            ops.append(['req', 'eof'])
        elif k == 'reach':
            ops.append(['reach', rng.choice(['up', 'down'])])
        elif k == 'tick':
            ops.append(['tick', rng.choice([10, 500, 3700, 5000, 20000, 61000])])
        else:
            ops.append([k])
    if rng.random() < 0.5:
        ops += [['reach', 'up'], ['tick', int(cfg[1] * 1000)], ['req', 'reply'], ['req', 'reply']]
    if rng.random() < 0.25:
        ops += [['close'], ['tick', 200000], ['req', 'reply']]
    # the pool configuration: half of the scripts keep no idle connection (min_watermark = 0)
    wm = [0, rng.choice([1, 2, 'inf'])] if rng.random() < 0.5 else rng.choice(WMS)
    return {'kind': 'pool', 'cfg': cfg, 'wm': wm, 'ops': ops}


def wm_values(script):
    lo, hi = script.get('wm') or [1, 'inf']
    return int(lo), (Int.MaxValue if hi == 'inf' else int(hi))


def run_script(script):
    fakenet.install()
    cfg = script['cfg']
    table = c09res.backoff_table(cfg)
    lo, hi = wm_values(script)
    _PORT[0] += 1
    port = _PORT[0]
    srv = fakenet.NET.server('h', port)
    mode = {'req': 'reply'}

    def on_connect(conn):
        def on_write(c, data):
            if mode['req'] == 'reply':
                c.feed(struct.pack('!i', 2) + b'ok')
            else:
                c.server_close()
        conn.on_write = on_write
    srv.on_connect = on_connect

    proxy = c09res.GProxy()
    old = resmod.gevent
    resmod.gevent = proxy
    steps, tags = [], set()
    ups, pools = [], []
    st = {'now': 0, 'wake': None, 'sl_obj': None, 'closed': False, 'opened': False, 'nconn': 0}
    try:
        props = {SinkProperties.Endpoint: ScalesUriParser.Endpoint('h', port), SinkProperties.Label: 'svc'}
        rb = resmod.ResurrectorSink.Builder(initial_wait_interval=cfg[0], max_wait_interval=cfg[1],
                                            backoff_exponent=cfg[2])
        pb = WatermarkPoolSink.Builder(min_watermark=lo, max_watermark=hi)
        tb = SocketTransportSink.Builder()
        pb.next_provider = tb
        rb.next_provider = LogProvider(pb, pools)
        r = rb.CreateSink(props)
        r.on_faulted.Subscribe(lambda v: ups.append(v))

        def res_status():
            if not proxy.greenlets or proxy.greenlets[-1].dead:
                return 'none'
            if proxy.greenlets[-1].gr_frame is None:
                return 'start'
            if proxy.sleeping is not None:
                return ['sleep', c09res.us(proxy.sleeping[0])]
            return 'opening'

        def track_wake():
            if proxy.sleeping is not None:
                if proxy.sleeping is not st['sl_obj']:
                    st['sl_obj'] = proxy.sleeping
                    st['wake'] = st['now'] + c09res.us(proxy.sleeping[0])
            else:
                st['sl_obj'], st['wake'] = None, None

        def observe(resp):
            track_wake()
            n0 = st['nconn']
            st['nconn'] = len(srv.connect_attempts)
            nconn = st['nconn'] - n0
            live = sum(1 for c in srv.conns if not c.closed_by_client)
            nxt = pools.index(r.next_sink) if r.next_sink is not None else None
            pst = [STATE[p.state] for p in pools[-1:]]
            errs = rt.take_errors()
            if errs:
                tags.add('hub-error')
                resp = ['raised', errs[0][0]]
            return vfmt([nxt, bool(r._down_on), STATE[r.state], res_status(), nconn, live, resp, len(ups),
                         len(pools), pst])

        def emit(op, resp=None):
            steps.append([op, observe(resp)])

        def tick(d_us):
            was = proxy.sleeping
            gevent.sleep(d_us / 1e6)
            if st['wake'] is not None and st['now'] + d_us == st['wake']:
                guard = 0
                while proxy.sleeping is was and was is not None and guard < 5:
                    guard += 1
                    gevent.sleep(max(was[1] + was[0] - rt.loop.now(), 0) + 1e-7)
            st['now'] += d_us
            rt.drain()
            emit('tick %d' % d_us)

        for item in script['ops']:
            name = item[0]
            if name == 'open':
                if st['opened'] or st['closed']:
                    continue
                st['opened'] = True
                tags.add('open-' + ('up' if srv.reachable else 'down'))
                tags.add('min-watermark-%d' % min(lo, 2))
                if not srv.reachable:
                    tags.add('connect-refused')
                r.Open()
                rt.drain()
                emit('open')
            elif name == 'req':
                if not st['opened'] or st['closed']:
                    continue
                mode['req'] = item[1]
                stack = ClientMessageSinkStack()
                rec = Rec()
                stack.Push(rec)
                msg = MethodCallMessage(None, 'm', (), {})
                n_before = len(srv.connect_attempts)
                was_down = bool(r._down_on)
                g = gevent.spawn(r.AsyncProcessRequest, stack, msg, BytesIO(b'ping'), {})
                rt.drain()
                if rec.got:
                    stream, m = rec.got[0]
                    if m is None:
                        resp = 'ok'
                        tags.add('replied')
                    elif isinstance(m.error, FailedFastError):
                        resp = 'ff'
                        tags.add('failfast')
                    else:
                        resp = 'err'
                        tags.add('request-error')
                        if item[1] == 'eof' and not was_down:
                            tags.add('fault-mid-traffic')
                else:
                    resp = 'pending'
                if len(srv.connect_attempts) > n_before:
                    tags.add('request-opens-connection')
                    if not srv.reachable:
                        tags.add('connect-refused')
                        tags.add('request-connect-refused')
                if ups and resp == 'ok':
                    tags.add('served-after-recovery')
                emit('req %s' % item[1], resp)
            elif name == 'reach':
                srv.reachable = (item[1] == 'up')
                emit('reach %s' % item[1])
            elif name == 'tick':
                d = int(item[1]) * 1000
                while d > 0:
                    track_wake()
                    w = st['wake']
                    if w is not None and st['now'] + d > w - 1000:
                        step = w - st['now']
                        tags.add('retry')
                        if not srv.reachable:
                            tags.add('connect-refused')
                    else:
                        step = d
                    if step <= 0:
                        break
                    tick(step)
                    d -= step
            elif name == 'wake':
                track_wake()
                if st['wake'] is None or st['wake'] <= st['now'] or st['wake'] - st['now'] > 10 ** 12:
                    continue
                tags.add('retry')
                if not srv.reachable:
                    tags.add('connect-refused')
                tick(st['wake'] - st['now'])
            elif name == 'close':
                if st['closed'] or not st['opened']:
                    continue
                st['closed'] = True
                tags.add('close-while-' + ('down' if r._down_on else 'up'))
                r.Close()
                rt.drain()
                emit('close')
        if len(proxy.sleeps) >= 3:
            tags.add('backoff3')
        if ups:
            tags.add('went-down')
        if ups and r.next_sink is not None and not st['closed']:
            tags.add('recovered')
    finally:
        resmod.gevent = old
        try:
            r.Close()
            rt.drain()
        except Exception:
            pass
        rt.take_errors()
    cfgtxt = vfmt([c09res.us(cfg[0]), c09res.us(cfg[1]), table, lo, hi])[1:-1]
    return {'comp': COMPONENT, 'cfg': cfgtxt, 'steps': steps, 'tags': sorted(tags)}
