"""In-process stand-in for a ZooKeeper ensemble + kazoo connection, for the server-set check (C19).

`FakeZk` subclasses KazooClient, so kazoo's real DataWatch / ChildrenWatch recipes (and the
ServerSet's isinstance check) run on top of it unchanged.  What it represents (trusted base):

* one watched path `base` with flat children; a node is identified by its creation zxid
  (czxid = mzxid, no setData); deleting the path requires it to have no children (ZooKeeper);
* one-shot watches: `get`/`exists` on the path leave a data watch, `get_children` a child watch;
  creating/deleting the path fires its data watches (and, on deletion, its child watches, after
  them); creating/deleting a child fires the path's child watches;
* fired watch events are queued in ZooKeeper order in `pending` and are delivered one at a time,
  oldest first, only when the harness calls `t_deliver()` (kazoo's handler runs watch callbacks
  sequentially from one queue);
* reads issued by the watch recipes (`get`/`exists`/`get_children` on the path) are answered
  at once — so is the `get_children` of a listing by the consumer (`ServerSet.__iter__`); a read
  of a *member* node (`get(base/child)`, issued by the ServerSet's notification worker or by a
  listing) is a request in flight: it is *served* (snapshot of the tree taken) when the harness
  calls `t_serve(owner)` and *returned* to the caller when the harness calls `t_return(owner)`.
  Every caller (`owner`: 'w' = any greenlet the harness has not named, i.e. the notification
  worker; otherwise the key `owner_of(greenlet)` gives — a listing) has at most one read in
  flight; reads of different owners coexist and are stepped independently.
"""
import json

import gevent
from gevent.event import Event
from kazoo.client import KazooClient
from kazoo.exceptions import NoNodeError
from kazoo.handlers.gevent import SequentialGeventHandler
from kazoo.protocol.states import WatchedEvent, EventType, KeeperState, ZnodeStat


class FakeZk(KazooClient):
    def __init__(self, base='/svc'):
        KazooClient.__init__(self, hosts='x:1', handler=SequentialGeventHandler())
        self.base = base
        self.parent = None       # creation zxid of the path, None when it does not exist
        self.kids = {}           # child name -> (data, czxid)
        self.zxid = 0
        self.data_watch = []     # one-shot watchers left by get/exists on the path
        self.child_watch = []    # one-shot watchers left by get_children on the path
        self.pending = []        # fired watch events, oldest first: (kind, watcher, event)
        self.reads = {}          # owner -> the member read it has in flight
        self.requested = []      # names of member reads, in request order
        self.requested_by = []   # … and who issued them
        self.owner_of = None     # greenlet -> owner key of a listing (None: the worker)
        self._fake_connected = False

    # ------------------------------------------------------------------ lifecycle
    def start(self, timeout=15):
        self._fake_connected = True

    def stop(self):
        self._fake_connected = False

    @property
    def connected(self):
        return self._fake_connected

    def add_listener(self, l):
        pass

    def remove_listener(self, l):
        pass

    def retry(self, func, *a, **k):
        return func(*a, **k)

    # ------------------------------------------------------------------ reads
    def _stat(self):
        z = self.parent
        return ZnodeStat(z, z, 0, 0, 0, 0, 0, 0, 0, len(self.kids), z)

    def exists(self, path, watch=None):
        assert path == self.base, path
        if watch:
            self.data_watch.append(watch)
        return self._stat() if self.parent is not None else None

    def get(self, path, watch=None):
        if path == self.base:
            if self.parent is None:
                raise NoNodeError()
            if watch:
                self.data_watch.append(watch)
            return b'', self._stat()
        assert path.startswith(self.base + '/') and watch is None, path
        owner = self.owner_of(gevent.getcurrent()) if self.owner_of else None
        if owner is None:
            owner = 'w'
        assert owner not in self.reads, 'two member reads in flight for %r' % (owner,)
        name = path[len(self.base) + 1:]
        r = self.reads[owner] = {'name': name, 'phase': 'requested', 'gate': Event(), 'data': None,
                                 'owner': owner}
        self.requested.append(name)
        self.requested_by.append(owner)
        r['gate'].wait()
        del self.reads[owner]
        if r['data'] is None:
            raise NoNodeError()
        z = r['czxid']
        return r['data'], ZnodeStat(z, z, 0, 0, 0, 0, 0, 0, len(r['data']), 0, z)

    @property
    def read(self):
        """the notification worker's read in flight"""
        return self.reads.get('w')

    def get_children(self, path, watch=None, include_data=False):
        assert path == self.base, path
        if self.parent is None:
            raise NoNodeError()
        if watch:
            self.child_watch.append(watch)
        return sorted(self.kids)

    # ------------------------------------------------------------------ harness side: the tree
    def _fire(self, kind, etype):
        table = self.data_watch if kind == 'data' else self.child_watch
        ws = list(table)
        del table[:]
        ev = WatchedEvent(etype, KeeperState.CONNECTED, self.base)
        for w in ws:
            self.pending.append((kind, w, ev))

    def t_create_parent(self):
        assert self.parent is None
        self.zxid += 1
        self.parent = self.zxid
        self._fire('data', EventType.CREATED)

    def t_delete_parent(self):
        assert self.parent is not None and not self.kids
        self.zxid += 1
        self.parent = None
        self._fire('data', EventType.DELETED)
        self._fire('child', EventType.DELETED)

    def t_create_child(self, name, data):
        assert self.parent is not None and name not in self.kids
        self.zxid += 1
        self.kids[name] = (data, self.zxid)
        self._fire('child', EventType.CHILD)

    def t_delete_child(self, name):
        assert name in self.kids
        self.zxid += 1
        del self.kids[name]
        self._fire('child', EventType.CHILD)

    # ------------------------------------------------------------------ harness side: the schedule
    def t_deliver(self):
        """hand the oldest fired watch event to its watcher; returns (kind, greenlet)"""
        kind, w, ev = self.pending.pop(0)
        g = gevent.spawn(w, ev)
        return kind, g

    def t_serve(self, owner='w'):
        r = self.reads.get(owner)
        assert r is not None and r['phase'] == 'requested'
        r['phase'] = 'served'
        if r['name'] in self.kids:
            r['data'], r['czxid'] = self.kids[r['name']]

    def t_return(self, owner='w'):
        r = self.reads.get(owner)
        assert r is not None and r['phase'] == 'served'
        r['phase'] = 'returned'
        r['gate'].set()


def member_data(host, port):
    return json.dumps({'serviceEndpoint': {'host': host, 'port': port}, 'additionalEndpoints': {},
                       'status': 'ALIVE'}).encode()
