import json, gevent
from kazoo.client import KazooClient
from kazoo.exceptions import NoNodeError
from kazoo.handlers.gevent import SequentialGeventHandler
from kazoo.protocol.states import WatchedEvent, EventType, KeeperState, ZnodeStat

class FakeZk(KazooClient):
    def __init__(self):
        KazooClient.__init__(self, hosts='x:1', handler=SequentialGeventHandler())
        self.tree = {}          # path -> (data, version)
        self.data_watches = {}  # path -> [fn]
        self.child_watches = {}
        self._fake_connected = False
        self.zxid = 0
    # lifecycle
    def start(self, timeout=15): self._fake_connected = True
    def stop(self): self._fake_connected = False
    @property
    def connected(self): return self._fake_connected
    def add_listener(self, l): pass
    def remove_listener(self, l): pass
    def retry(self, func, *a, **k): return func(*a, **k)
    def _stat(self, path):
        data, ver = self.tree[path]
        nch = len(self._children(path))
        return ZnodeStat(0, self.zxid, 0, 0, ver, 0, 0, 0, len(data), nch, 0)
    def _children(self, path):
        pre = path.rstrip('/') + '/'
        return [p[len(pre):] for p in self.tree if p.startswith(pre) and '/' not in p[len(pre):]]
    # reads
    def exists(self, path, watch=None):
        if watch: self.data_watches.setdefault(path, []).append(watch)
        return self._stat(path) if path in self.tree else None
    def get(self, path, watch=None):
        if path not in self.tree: raise NoNodeError()
        if watch: self.data_watches.setdefault(path, []).append(watch)
        return self.tree[path][0], self._stat(path)
    def get_children(self, path, watch=None, include_data=False):
        if path not in self.tree: raise NoNodeError()
        if watch: self.child_watches.setdefault(path, []).append(watch)
        return sorted(self._children(path))
    # mutations (by the test)
    def _fire(self, table, path, etype):
        ws = table.pop(path, [])
        ev = WatchedEvent(etype, KeeperState.CONNECTED, path)
        for w in ws: gevent.spawn(w, ev)
    def t_create(self, path, data=b''):
        assert path not in self.tree
        self.zxid += 1
        self.tree[path] = (data, 0)
        self._fire(self.data_watches, path, EventType.CREATED)
        parent = path.rsplit('/', 1)[0] or '/'
        self._fire(self.child_watches, parent, EventType.CHILD)
    def t_delete(self, path):
        self.zxid += 1
        for p in [p for p in self.tree if p == path or p.startswith(path + '/')]:
            del self.tree[p]
            self._fire(self.data_watches, p, EventType.DELETED)
            self._fire(self.child_watches, p, EventType.DELETED)
        parent = path.rsplit('/', 1)[0] or '/'
        self._fire(self.child_watches, parent, EventType.CHILD)

def member_data(host, port):
    return json.dumps({'serviceEndpoint': {'host': host, 'port': port}, 'additionalEndpoints': {}, 'status': 'ALIVE'}).encode()
