"""seedtable.py — markdown table of the kept seeded changes from seeded/*/meta.json and seeded/REGRESSION.json"""
import json
import os

root = '/verif/seeded'
reg = json.load(open(os.path.join(root, 'REGRESSION.json')))
rows = []
for n in sorted(d for d in os.listdir(root) if os.path.isdir(os.path.join(root, d))):
    m = json.load(open(os.path.join(root, n, 'meta.json')))
    r = reg.get(n, {})
    now = []
    for p, v in r.items():
        if not isinstance(v, dict):
            continue
        now.append('%s %s' % (p, 'VIOLATION (concrete replay)' if v['concrete'] else
                              ('broken correspondence only' if v['exit'] == 1 else '**missed**')))
    hist = m.get('history', '')
    rows.append('| %s | %s | %s | %s |' % (n, m.get('needs', '').replace('|', '/'), '; '.join(now), hist.replace('|', '/')))
print('| `seeded/<name>` | needs | quick checks on the current machinery | first outcome → what was added |')
print('|---|---|---|---|')
print('\n'.join(rows))
