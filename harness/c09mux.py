"""C09, component `resmux`: the chain the ThriftMux builder assembles below the balancer —

    ResurrectorSink  ->  scales.thriftmux.sink.SocketTransportSink        (no pool in between)

taken from `ThriftMux.NewBuilder(...)._stack` (every provider from the resurrector's down, linked the
way `ClientBuilder.Build` links them), over the step-controlled socket harness/stepnet.py (patched in for
`scales.sink.ScalesSocket`) on the virtual-time loop.

Every operation is one stimulus from outside followed by a full drain of the callback list; the
observation is taken at quiescence.  Stimuli: the balancer's `Open()` / `Close()`, a request, the
outcome of the send loop's pending `write`, the outcome of the receive loop's pending read (one read, or
a burst of reads that return without a yield), the clock (never past a timer of the implementation:
retry sleep, 5 s ping helper, ping loop), the endpoint's reachability for the next connect.

Script: {'kind': 'mux', 'cfg': [init_s, max_s, exponent, ping_period_s], 'ops': [[name, args…], …]}
ops: reach up|down | open | req | wr ok|raise | rd <o> <frame> | burst [[o, frame], …] | race <frame> <o>
     | tick ms | near | wake | close
frame: 'rping' | 'junk' | ['reply', k]   (k selects among the requests in flight, oldest first; k >= their
       number: a reply nobody is waiting for)
Operations that cannot apply in the state the real objects are in are dropped, so every sub-sequence of a
script is a script.
"""
from struct import pack, unpack

from lib import vfmt

COMPONENT = 'resmux'
FRAME_LEN = 8
STALE = 900000          # id used in the op text for a reply nobody is waiting for
PING_TIMEOUT_US = 5000000


rt = gevent = stepnet = c09res = None


def _runtime():
    """the virtual-time runtime is only imported where scripts are run (the worker processes): importing it
    replaces `time.time`"""
    global rt, gevent, stepnet, c09res
    if rt is None:
        import rt as _rt
        import gevent as _gevent
        import stepnet as _stepnet
        import c09res as _c09res
        rt, gevent, stepnet, c09res = _rt, _gevent, _stepnet, _c09res


class Env(object):
    def __init__(self):
        self.reach = True
        self.socks = []


class _FixedRandom(object):
    def __init__(self, period):
        self.period = period

    def randint(self, a, b):
        assert a <= self.period <= b, (a, self.period, b)
        return self.period


def _frame_bytes(typ, tag):
    return pack('!bBBB', typ, tag >> 16 & 255, tag >> 8 & 255, tag & 255) + b'\0\0\0\0'


def _resp_kind(stream, msg):
    from scales.message import ClientError, FailedFastError
    if msg is None:
        return 'stream' if stream is not None else 'other'
    err = getattr(msg, 'error', None)
    if isinstance(err, FailedFastError):
        return 'ff'
    if isinstance(err, ClientError):
        return 'cerr'
    return 'other'


class Driver(object):
    def __init__(self, cfg):
        _runtime()
        import scales.sink as sinkmod
        import scales.resurrector as resmod
        import scales.thriftmux.sink as tms
        from scales.constants import SinkProperties
        from scales.core import ScalesUriParser
        from scales.sink import ClientMessageSinkStack, SinkProviderBase
        from scales.thriftmux import ThriftMux
        import mocks
        self.cfg = cfg
        self.env = env = Env()
        self.resmod, self.sinkmod, self.tms = resmod, sinkmod, tms
        import scales.scales_socket as ssmod
        self.ssmod = ssmod
        self.saved = (sinkmod.ScalesSocket, resmod.gevent, tms.random, ssmod.gsocket)

        if hasattr(stepnet, 'real_socket'):
            # the REAL scales.scales_socket.ScalesSocket over step-controlled OS sockets
            def ChainSocket(host, port):
                sock = stepnet.real_socket(host, port)
                real_open = sock.open

                def open_():
                    sock.next_connect = 'ok' if env.reach else 'refuse'
                    real_open()
                sock.open = open_
                env.socks.append(sock)
                return sock
        else:
            class ChainSocket(stepnet.StepSocket):
                def __init__(self, host, port):
                    stepnet.StepSocket.__init__(self, host, port)
                    env.socks.append(self)

                def open(self):
                    self.next_connect = 'ok' if env.reach else 'refuse'
                    stepnet.StepSocket.open(self)

        sinkmod.ScalesSocket = ChainSocket
        self.proxy = c09res.GProxy()
        resmod.gevent = self.proxy
        tms.random = _FixedRandom(int(cfg[3]))

        drv = self

        class LogStack(ClientMessageSinkStack):
            def __init__(self, rid):
                ClientMessageSinkStack.__init__(self)
                self.rid = rid
                self.Push(mocks.Recorder())

            def AsyncProcessResponse(self, stream, msg):
                drv.dels.append((self.rid, _resp_kind(stream, msg)))
                ClientMessageSinkStack.AsyncProcessResponse(self, stream, msg)

        self.LogStack = LogStack

        class LogProvider(SinkProviderBase):
            """between the resurrector and whatever the builder put below it: numbers the sinks made"""

            def __init__(self, inner):
                SinkProviderBase.__init__(self)
                self.inner = inner

            def CreateSink(self, properties):
                s = self.inner.CreateSink(properties)
                drv.made.append(s)
                return s

            @property
            def sink_class(self):
                return self.inner.sink_class

        class Iface(object):
            def hi(self):
                pass

        # the chain as the builder assembles it: every provider from the resurrector's on
        stack = ThriftMux.NewBuilder(Iface)._stack
        idx = [i for i, p in enumerate(stack) if p.sink_class is resmod.ResurrectorSink][0]
        chain = list(stack[idx:])
        chain[0] = chain[0].Clone(initial_wait_interval=cfg[0], max_wait_interval=cfg[1], backoff_exponent=cfg[2])
        for n, p in enumerate(chain[:-1]):
            p.next_provider = chain[n + 1]
        self.chain_classes = [p.sink_class.__name__ for p in chain]
        chain[0].next_provider = LogProvider(chain[1])
        props = {SinkProperties.Endpoint: ScalesUriParser.Endpoint('h', 7001), SinkProperties.Label: 'svc'}
        self.made = []
        self.dels = []
        self.ups = []
        self.keep = []
        self.stack_ids = {}
        self.next_id = 1
        self.now = 0
        self.timers = []          # (timer object, deadline in harness µs)
        self.opened = self.closed = False
        self.mark = (0, 0, 0)
        self.tags = set()
        self.steps = []
        self.r = chain[0].CreateSink(props)
        self.r.on_faulted.Subscribe(lambda v: self.ups.append(v))

    def restore(self):
        self.sinkmod.ScalesSocket, self.resmod.gevent, self.tms.random, self.ssmod.gsocket = self.saved

    # ------------------------------------------------------------ observation
    def tr(self):
        return self.made[-1] if self.made else None

    def conn(self):
        """the connection of the newest transport, if it is open"""
        if not self.env.socks:
            return None
        h = self.env.socks[-1].handle
        return h if h is not None and not h.closed else None

    def written(self):
        out = []
        for s in self.env.socks:
            for c in s.conns:
                out += c.written
        return out

    def snap(self):
        self.mark = (len(self.dels), sum(s.connects for s in self.env.socks), len(self.written()))

    def track_timers(self):
        import scales.timer_queue as tq
        loop = rt.loop
        background = (tq.GLOBAL_TIMER_QUEUE._worker, tq.LOW_RESOLUTION_TIMER_QUEUE._worker)
        live = {}
        for at, seq, t in loop._timers:
            if t._active and t.seq == seq:
                # the process-wide timer queues (the low-resolution clock re-arms itself every second) are not
                # part of the chain
                if t.args and any(a is g for a in t.args for g in background):
                    continue
                live[id(t)] = t
        known = {id(t) for t, _ in self.timers}
        self.timers = [(t, d) for t, d in self.timers if id(t) in live]
        for k, t in live.items():
            if k not in known:
                self.timers.append((t, self.now + c09res.us(t.after)))

    def next_deadline(self):
        self.track_timers()
        return min([d for _, d in self.timers]) if self.timers else None

    def res_status(self):
        p = self.proxy
        if not p.greenlets or p.greenlets[-1].dead:
            return 'none'
        if p.greenlets[-1].gr_frame is None:
            return 'start'
        if p.sleeping is not None:
            return ['sleep', c09res.us(p.sleeping[0])]
        return 'opening'

    def observe(self):
        from scales.constants import ChannelState
        STATE = {ChannelState.Idle: 'idle', ChannelState.Open: 'open', ChannelState.Busy: 'busy',
                 ChannelState.Closed: 'closed'}
        r = self.r
        d0, c0, w0 = self.mark
        dels = sorted([list(x) for x in self.dels[d0:]], key=lambda x: x[0])
        conns = sum(s.connects for s in self.env.socks) - c0
        sent = []
        for fr in self.written()[w0:]:
            if len(fr) < 8 or unpack('!i', fr[:4])[0] != len(fr) - 4:
                sent.append('garbage')
                continue
            typ = unpack('!b', fr[4:5])[0]
            tag = int.from_bytes(fr[5:8], 'big')
            if typ == 65 and tag == 1 and len(fr) == 8:
                sent.append('ping')
            elif typ == 2 and fr[8:11] == b'req':
                sent.append(int(fr[11:]))
            else:
                sent.append('garbage')
        live = sum(1 for s in self.env.socks if s.handle is not None and not s.handle.closed)
        nxt = self.made.index(r.next_sink) if r.next_sink is not None and r.next_sink in self.made else \
            (None if r.next_sink is None else 'foreign')
        t = self.tr()
        tstate = STATE[t.state] if t is not None else 'idle'
        infl = []
        if t is not None:
            infl = sorted(self.stack_ids.get(id(v[0]), 999999) for v in getattr(t, '_tag_map', {}).values())
        nd = self.next_deadline()
        errs = rt.take_errors()
        if errs:
            self.tags.add('hub-error')
            self.tags.add('hub-error-' + errs[0][0])
            dels = dels + [[999999, 'raised-' + errs[0][0]]]
        return vfmt([nxt, bool(r._down_on), STATE[r.state], self.res_status(), conns, live, dels, sent,
                     len(self.ups), len(self.made), tstate, infl, None if nd is None else nd - self.now])

    def emit(self, text):
        self.steps.append([text, self.observe()])

    # ------------------------------------------------------------ operations
    def frame_for(self, f):
        """-> (op text of the frame, bytes)"""
        if f == 'rping':
            return 'rping', _frame_bytes(-65, 1)
        if f == 'junk':
            return 'junk', _frame_bytes(-2, 0)
        t = self.tr()
        tm = getattr(t, '_tag_map', {}) if t is not None else {}
        infl = sorted((self.stack_ids.get(id(v[0]), 999999), tag) for tag, v in tm.items())
        k = f[1]
        if k < len(infl):
            rid, tag = infl[k]
            return ['reply', rid], _frame_bytes(-2, tag)
        return ['reply', STALE], _frame_bytes(-2, 0xFFFF00)

    def reads_for(self, c, items):
        """items: [[outcome, frame], …] -> (applied items as op values, stepnet reads); cut at the first fault"""
        at_hdr = c.pend['read'].arg == 4
        applied, reads = [], []
        for o, f in items:
            ftxt, fbytes = self.frame_for(f)
            applied.append([o, tuple(ftxt) if isinstance(ftxt, list) else ftxt])
            if o != 'ok':
                reads.append((o, None))
                break
            reads.append(('ok', pack('!i', FRAME_LEN) if at_hdr else fbytes))
            at_hdr = not at_hdr
        return applied, reads

    def phase(self):
        """where the newest transport is: for the generator's distribution tags"""
        from scales.constants import ChannelState
        t = self.tr()
        if t is None:
            return 'none'
        if t.state == ChannelState.Idle and t._open_result:
            return 'handshake-retry' if self.r.next_sink is not t else 'handshake-first'
        return {ChannelState.Idle: 'idle', ChannelState.Open: 'open', ChannelState.Closed: 'closed'}.get(t.state, 'x')

    def fault_tag(self, what):
        t = self.tr()
        nfl = min(3, len(getattr(t, '_tag_map', {}))) if t is not None else 0
        self.tags.add('%s-in-%s' % (what, self.phase()))
        self.tags.add('fault-with-%d-in-flight' % nfl)
        nd = self.next_deadline()
        if nd is not None and self.phase() == 'open':
            self.tags.add('fault-while-ping-timer-armed')

    def advance(self, step):
        """advance the clock by `step` µs; if that reaches timers of the implementation, they fire"""
        self.snap()
        self.track_timers()
        target = self.now + step
        hit = [t for t, d in self.timers if d == target]
        assert not [1 for _, d in self.timers if d < target], 'tick over a timer'
        if hit:
            guard = 0
            while any(t._active for t in hit) and guard < 20:
                guard += 1
                at = max(a for a, seq, t in rt.loop._timers if t in hit and t._active and t.seq == seq)
                gevent.sleep(max(at - rt.loop.now(), 0) + (1e-7 if guard > 1 else 0))
        else:
            gevent.sleep(step / 1e6)
        self.now = target
        rt.drain()
        self.emit('tick %d' % step)

    def tick(self, d):
        while d > 0:
            nd = self.next_deadline()
            if nd is not None and self.now + d > nd - 1000:
                step = nd - self.now
                self.tick_tags()
            else:
                step = d
            if step <= 0:
                break
            self.advance(step)
            d -= step

    def tick_tags(self):
        p = self.phase()
        st = self.res_status()
        if isinstance(st, list):
            self.tags.add('retry')
            self.tags.add('retry-' + ('accepted' if self.env.reach else 'refused'))
        elif p.startswith('handshake'):
            self.tags.add('ping-silence-in-' + p)
        elif p == 'open':
            t = self.tr()
            self.tags.add('ping-silence-in-open' if t._ping_ar is not None else 'ping-loop')

    def apply(self, op):
        from scales.compat import BytesIO
        from scales.constants import TransportHeaders
        from scales.message import MethodCallMessage
        kind = op[0]
        r = self.r
        if kind == 'reach':
            self.env.reach = (op[1] == 'up')
            self.emit('reach %s' % op[1])
        elif kind == 'open':
            if self.opened or self.closed:
                return
            self.opened = True
            self.tags.add('open-' + ('up' if self.env.reach else 'down'))
            if not self.env.reach:
                self.tags.add('went-down')
                self.tags.add('first-connect-refused')
            self.open_ar = r.Open()
            rt.drain()
            self.emit('open')
        elif kind == 'req':
            rid = self.next_id
            self.next_id += 1
            m = MethodCallMessage(None, 'hi', (), {})
            b = BytesIO(b'req%d' % rid)
            b.seek(0, 2)
            st = self.LogStack(rid)
            self.stack_ids[id(st)] = rid
            self.keep.append(st)
            self.tags.add('req-in-' + self.phase() + ('-down' if r._down_on else ''))
            n0 = len(self.dels)
            g = gevent.spawn(r.AsyncProcessRequest, st, m, b, {TransportHeaders.MessageType: 2})
            self.keep.append(g)
            rt.drain()
            got = [k for i, k in self.dels[n0:] if i == rid]
            if got:
                self.tags.add('req-' + got[0])
            elif not g.dead:
                self.tags.add('req-blocked-on-open')
            self.emit('req %d' % rid)
        elif kind == 'wr':
            c = self.conn()
            if c is None or c.pend['write'] is None:
                return
            if op[1] != 'ok':
                self.fault_tag('write-raise')
            c.release('write', op[1])
            rt.drain()
            self.emit('wr %s' % op[1])
        elif kind in ('rd', 'burst'):
            c = self.conn()
            items = [[op[1], op[2]]] if kind == 'rd' else op[1]
            if c is None or c.pend['read'] is None or not items:
                return
            applied, reads = self.reads_for(c, items)
            if reads[-1][0] != 'ok':
                self.fault_tag('read-%s' % reads[-1][0])
                if len(reads) > 1:
                    self.tags.add('burst-fault-behind-%d-reads' % min(3, len(reads) - 1))
            for o, f in applied:
                if o == 'ok' and f == 'rping' and self.phase().startswith('handshake'):
                    self.tags.add('rping-in-' + self.phase())
            c.release_burst(reads)
            rt.drain()
            if kind == 'rd':
                self.emit('rd %s %s' % (applied[0][0], vfmt(applied[0][1])))
            else:
                self.emit('burst %s' % vfmt(applied))
        elif kind == 'race':
            # ['race', frame, outcome]: the pending *body* read returns with the frame; the receive loop takes
            # it, spawns `_ProcessReply` and blocks in the next read — and that read's outcome is there before
            # `_ProcessReply` (and whatever it wakes) has been scheduled.
            c = self.conn()
            if c is None or c.pend['read'] is None or c.pend['read'].arg == 4 or op[2] == 'ok':
                return
            p0 = c.pend['read']
            ftxt, fbytes = self.frame_for(op[1])
            was_hs = self.phase().startswith('handshake')
            self.fault_tag('race-%s' % op[2])
            if ftxt == 'rping' and was_hs:
                self.tags.add('race-rping-in-' + self.phase())
            c.release('read', 'ok', fbytes)
            n = 0
            while (c.pend['read'] is None or c.pend['read'] is p0) and n < 10 and not c.closed:
                gevent.sleep(0)
                n += 1
            if c.pend['read'] is not None and c.pend['read'] is not p0:
                c.release('read', op[2])
            else:
                self.tags.add('harness-race-not-applicable')
            rt.drain()
            self.emit('race %s %s' % (vfmt(tuple(ftxt) if isinstance(ftxt, list) else ftxt), op[2]))
        elif kind == 'tick':
            if int(op[1]) > 0:
                self.tick(int(op[1]) * 1000)
        elif kind == 'wake':
            nd = self.next_deadline()
            if nd is None or nd - self.now > 10 ** 12:
                return
            self.tick_tags()
            self.advance(nd - self.now)
        elif kind == 'near':
            nd = self.next_deadline()
            if nd is None or nd - self.now <= 1000 or nd - self.now > 10 ** 12:
                return
            self.advance(nd - self.now - 1000)
        elif kind == 'close':
            if self.closed or not self.opened:
                return
            self.closed = True
            self.tags.add('close-while-' + ('down-' + (self.res_status() if isinstance(self.res_status(), str)
                                                        else 'sleeping') if r._down_on else 'up-' + self.phase()))
            r.Close()
            rt.drain()
            self.emit('close')
        else:
            raise ValueError(op)


def run_script(script):
    _runtime()
    cfg = list(script['cfg'])
    table = c09res.backoff_table(cfg[:3])
    drv = Driver(cfg)
    try:
        for op in script['ops']:
            drv.snap()
            drv.apply(op)
        if len(drv.proxy.sleeps) >= 3:
            drv.tags.add('backoff3')
        if len(drv.proxy.sleeps) >= len([w for w in table if w < table[-1]]) + 1:
            drv.tags.add('capped')
        if drv.ups:
            drv.tags.add('went-down')
        if drv.ups and drv.r.next_sink is not None and not drv.closed:
            drv.tags.add('recovered')
    finally:
        drv.restore()
        try:
            drv.r.Close()
            rt.drain()
        except Exception:
            pass
        rt.kill_stragglers()
        rt.take_errors()
    drv.tags.add('chain-' + '-'.join(drv.chain_classes))
    cfgtxt = vfmt([c09res.us(cfg[0]), c09res.us(cfg[1]), table, c09res.us(cfg[3])])[1:-1]
    return {'comp': COMPONENT, 'cfg': cfgtxt, 'steps': drv.steps, 'tags': sorted(drv.tags)}


# ------------------------------------------------------------------ generation
CFGS = [[5, 60, 1.2, 30], [5, 60, 1.2, 30], [5, 60, 1.2, 40], [2, 30, 1.5, 33], [3, 10, 2, 30], [1.5, 20, 1.3, 36],
        [10, 10, 1.2, 30], [4, 45, 1.1, 31]]
HS = [['wr', 'ok'], ['rd', 'ok', 'junk'], ['rd', 'ok', 'rping']]


def _frame(rng):
    x = rng.random()
    return 'rping' if x < 0.3 else 'junk' if x < 0.4 else ['reply', rng.choice([0, 0, 0, 1, 2, 7])]


def _fault(rng):
    x = rng.random()
    if x < 0.15:
        return [['wr', 'raise']]
    if x < 0.35:
        return [['rd', rng.choice(['raise', 'eof']), 'junk']]
    if x < 0.5:
        return [['rd', 'ok', 'junk'], ['rd', rng.choice(['raise', 'eof']), 'junk']]
    if x < 0.65:
        n = rng.choice([1, 2, 2, 3, 4])
        return [['burst', [['ok', _frame(rng)] for _ in range(n)] + [[rng.choice(['raise', 'eof']), 'junk']]]]
    if x < 0.85:
        return [['race', rng.choice(['rping', 'rping', _frame(rng)]), rng.choice(['raise', 'eof'])]]
    return [['wake']]           # whatever is due next: ping silence, the ping loop, the retry timer


def gen_script(rng, tier):
    cfg = rng.choice(CFGS)
    style = rng.choice(['traffic', 'traffic', 'down-at-first', 'handshake-faults', 'handshake-faults', 'ping',
                        'flap', 'close-races', 'mixed', 'mixed'])
    n = rng.choice([8, 14, 22, 32] if tier == 'quick' else [8, 14, 22, 32, 50, 80])
    ops = []
    if style == 'down-at-first' or rng.random() < 0.15:
        ops.append(['reach', 'down'])
    if rng.random() < 0.1:
        ops.append(['req'])
    ops.append(['open'])
    if style in ('traffic', 'ping') or (style == 'mixed' and rng.random() < 0.5):
        ops += HS
    if style == 'handshake-faults':
        # a fault at a chosen step of a handshake: the first one, or the one of a reconnection
        k = rng.randrange(0, 4)
        if rng.random() < 0.5:
            ops += HS[:k] + _fault(rng)
        else:
            ops += HS + [['req'], ['rd', rng.choice(['raise', 'eof']), 'junk'], ['req'], ['wake']] + HS[:k] + _fault(rng)
    w = {'traffic': dict(req=6, wr=6, rd=6, fault=1.2, tick=1, wake=2, near=0.5, reach=1, close=0.2, hs=1.5),
         'down-at-first': dict(req=3, wr=3, rd=3, fault=1, tick=2, wake=5, near=1, reach=3, close=0.2, hs=3),
         'handshake-faults': dict(req=3, wr=4, rd=4, fault=2, tick=1, wake=4, near=1, reach=2, close=0.3, hs=3),
         'ping': dict(req=3, wr=5, rd=5, fault=0.7, tick=2, wake=6, near=1, reach=0.5, close=0.1, hs=1),
         'flap': dict(req=3, wr=3, rd=3, fault=2.5, tick=1, wake=6, near=1, reach=5, close=0.1, hs=4),
         'close-races': dict(req=3, wr=3, rd=3, fault=2, tick=1, wake=4, near=1, reach=2, close=1.5, hs=2),
         'mixed': dict(req=4, wr=4, rd=4, fault=1.5, tick=2, wake=3, near=1, reach=2, close=0.3, hs=2)}[style]
    names = list(w)
    weights = [w[k] for k in names]
    for _ in range(n):
        k = rng.choices(names, weights)[0]
        if k == 'req':
            ops.append(['req'])
        elif k == 'wr':
            ops.append(['wr', 'ok'])
        elif k == 'rd':
            ops.append(['rd', 'ok', _frame(rng)])
        elif k == 'fault':
            ops += _fault(rng)
        elif k == 'tick':
            ops.append(['tick', rng.choice([1, 10, 500, 1000, 3700, 4999, 5000, 20000, 61000])])
        elif k == 'reach':
            ops.append(['reach', rng.choice(['up', 'down'])])
        elif k == 'hs':
            ops += HS[:rng.choice([1, 2, 3, 3, 3])]
        else:
            ops.append([k])
    if style == 'close-races' or rng.random() < 0.1:
        # Close() while a reconnection's handshake is in progress
        ops += [['rd', 'eof', 'junk'], ['reach', 'up'], ['wake']] + HS[:rng.randrange(0, 3)] + [['close']] + HS + \
               [['req'], ['wake'], ['wake']]
    if rng.random() < 0.5:
        # the endpoint is back for good: traffic must resume within one maximum interval
        ops += [['reach', 'up'], ['tick', int(cfg[1] * 1000)]] + HS + [['req'], ['wr', 'ok'], ['rd', 'ok', 'junk'],
                                                                      ['rd', 'ok', ['reply', 0]], ['req']]
    if rng.random() < 0.25:
        ops += [['close'], ['tick', 200000], ['req']]
    return {'kind': 'mux', 'cfg': cfg, 'ops': ops}


def _cases():
    """a fault of every kind at every point of the first handshake, of a reconnection's handshake, of an open
    connection (idle, request queued, written, several in flight, in the middle of a reply frame, ping outstanding)
    and of the retry sleep; followed by fail-fast probes, a refused and an accepted reconnection, traffic, Close()"""
    first = [[['open']] + HS[:i] for i in range(0, 3)]
    up = [['open']] + HS
    opened = [up, up + [['req']], up + [['req'], ['wr', 'ok']], up + [['req'], ['wr', 'ok'], ['req'], ['req']],
              up + [['req'], ['wr', 'ok'], ['rd', 'ok', 'junk']],
              up + [['req'], ['wake']], up + [['req'], ['wake'], ['wr', 'ok'], ['wr', 'ok']]]
    retry = []
    for pre in ([['reach', 'down'], ['open'], ['req'], ['reach', 'up'], ['wake']],
                up + [['req'], ['wr', 'ok'], ['rd', 'eof', 'junk'], ['req'], ['wake']],
                [['reach', 'down'], ['open'], ['wake'], ['reach', 'up'], ['wake']]):
        for i in range(0, 3):
            retry.append(pre + HS[:i] + ([['req']] if i == 1 else []))
    faults = [[['wr', 'raise']], [['rd', 'raise', 'junk']], [['rd', 'eof', 'junk']],
              [['rd', 'ok', 'junk'], ['rd', 'eof', 'junk']],
              [['burst', [['ok', 'junk'], ['ok', 'rping'], ['eof', 'junk']]]],
              [['burst', [['ok', 'rping'], ['raise', 'junk']]]],
              [['burst', [['ok', 'junk'], ['ok', ['reply', 0]], ['eof', 'junk']]]],
              [['race', 'rping', 'eof']], [['race', ['reply', 0], 'raise']],
              [['rd', 'ok', 'junk'], ['race', 'rping', 'raise']],
              [['wake']], [['near'], ['req'], ['wake']], [['close']], [['req'], ['close']]]
    tails = [
        [['req'], ['wake'], ['req']] + HS + [['req'], ['wr', 'ok'], ['rd', 'ok', 'junk'], ['rd', 'ok', ['reply', 0]],
                                             ['close'], ['tick', 100000], ['req']],
        [['reach', 'down'], ['req'], ['wake'], ['req'], ['wake'], ['reach', 'up'], ['near'], ['req'], ['wake']] + HS +
        [['req'], ['wr', 'ok'], ['wake'], ['wr', 'ok'], ['rd', 'ok', 'junk'], ['rd', 'ok', 'rping']],
    ]
    for pre in first + opened + retry:
        for f in faults:
            for t in tails:
                yield pre + f + t
    # the retry timer: reachability flipping 1 ms before each attempt, for up to four attempts
    import itertools
    for outs in itertools.product(['refused', 'accepted-silent', 'accepted-reset', 'ok'], repeat=3):
        ops = up + [['req'], ['wr', 'ok'], ['rd', 'raise', 'junk'], ['req']]
        for o in outs:
            ops += [['reach', 'up' if o == 'refused' else 'down'], ['near'], ['req'],
                    ['reach', 'down' if o == 'refused' else 'up'], ['wake'], ['req']]
            if o == 'accepted-silent':
                ops += [['wr', 'ok'], ['wake'], ['req']]
            elif o == 'accepted-reset':
                ops += [['wr', 'ok'], ['rd', 'ok', 'junk'], ['tick', 1200], ['rd', 'raise', 'junk'], ['req']]
            elif o == 'ok':
                ops += HS + [['req'], ['wr', 'ok'], ['rd', 'ok', 'junk'], ['rd', 'ok', ['reply', 0]],
                             ['rd', 'eof', 'junk'], ['req']]
        yield ops + [['close'], ['tick', 200000], ['req']]


def exhaustive(tier, shard, shards):
    k = 0
    for ops in _cases():
        k += 1
        if k % shards == shard:
            yield {'kind': 'mux', 'cfg': [5, 60, 1.2, 30], 'ops': ops}


def shrink(script):
    ops = script['ops']
    for i in range(len(ops) - 1, -1, -1):
        s = dict(script)
        s['ops'] = ops[:i] + ops[i + 1:]
        yield s
    for i in range(len(ops) - 1, -1, -1):
        if ops[i][0] == 'burst' and len(ops[i][1]) > 1:
            reads = ops[i][1]
            for j in range(len(reads) - 1, -1, -1):
                s = dict(script)
                s['ops'] = ops[:i] + [['burst', reads[:j] + reads[j + 1:]]] + ops[i + 1:]
                yield s
        if ops[i][0] == 'tick' and ops[i][1] > 1:
            s = dict(script)
            s['ops'] = ops[:i] + [['tick', ops[i][1] // 2]] + ops[i + 1:]
            yield s


def nontrivial(case):
    t = set(case.get('tags', []))
    return 'went-down' in t and bool(t & {'retry', 'recovered', 'backoff3', 'capped'} or
                                     any(x.startswith(('close-while-down', 'race-', 'burst-fault', 'ping-silence'))
                                         for x in t))
