"""Step-controlled fake socket for the transport checks (C08).

Every blocking call on the connection (`sendall`, `recv_into`) blocks its greenlet until the
harness lets it return with an outcome it chooses: 'ok', 'raise' (socket.error) or 'eof'.
`open()` meets the outcome programmed in `next_connect`.  `release_burst` lets a blocked read return
and programs the outcomes of the reads that follow it, which then return *without blocking* — bytes
(and an end of stream / error behind them) that arrived in one burst and are already buffered, so the
reading greenlet does not yield between them.  Nothing here imports scales: the
object stands for `scales.scales_socket.ScalesSocket` underneath the real `VarzSocketWrapper`."""
import socket as _socket

from gevent.event import Event


class Pending(object):
    __slots__ = ('kind', 'arg', 'ev', 'outcome', 'data')

    def __init__(self, kind, arg):
        self.kind, self.arg = kind, arg
        self.ev = Event()
        self.outcome = None
        self.data = None


class StepConn(object):
    """what `ScalesSocket.handle` is: the client end of one connection"""

    def __init__(self):
        self.closed = False
        self.pend = {'write': None, 'read': None}
        self.written = []          # byte strings that reached the peer, one per successful sendall
        self.buffered = []         # (outcome, data) of the next reads: they return without blocking

    def _block(self, kind, arg):
        if self.closed:
            raise _socket.error(9, 'Bad file descriptor')
        assert self.pend[kind] is None, 'two greenlets in %s on one connection' % kind
        p = Pending(kind, arg)
        if kind == 'read' and self.buffered:
            p.outcome, p.data = self.buffered.pop(0)
            return p
        self.pend[kind] = p
        try:
            p.ev.wait()            # gevent.Timeout / GreenletExit are thrown in here
        finally:
            self.pend[kind] = None
        return p

    # --- client API (what VarzSocketWrapper uses)
    def sendall(self, data):
        p = self._block('write', bytes(data))
        if p.outcome == 'ok':
            self.written.append(bytes(data))
            return
        raise _socket.error(32, 'Broken pipe')

    def recv_into(self, view, sz):
        p = self._block('read', sz)
        if p.outcome == 'ok':
            data = p.data
            assert 0 < len(data) <= sz
            view[:len(data)] = data
            return len(data)
        if p.outcome == 'eof':
            return 0
        raise _socket.error(104, 'Connection reset by peer')

    def recv(self, sz):
        b = bytearray(sz)
        n = self.recv_into(memoryview(b), sz)
        return bytes(b[:n])

    def send(self, data):
        self.sendall(data)
        return len(data)

    def setsockopt(self, *a):
        pass

    def close(self):
        self.closed = True

    # --- harness API
    def release(self, kind, outcome, data=None):
        p = self.pend[kind]
        p.outcome, p.data = outcome, data
        p.ev.set()

    def release_burst(self, reads):
        """`reads`: [(outcome, data), ...]; the first goes to the blocked read, the others are buffered"""
        self.buffered = list(reads[1:])
        self.release('read', reads[0][0], reads[0][1])


class StepSocket(object):
    """stands for ScalesSocket(host, port)"""

    def __init__(self, host='h', port=1):
        self.host, self.port = host, port
        self.handle = None
        self.next_connect = 'ok'
        self.connects = 0
        self.conns = []

    def isOpen(self):
        return self.handle is not None

    def open(self):
        self.connects += 1
        if self.next_connect != 'ok':
            raise _socket.error(111, 'Connection refused')
        self.handle = StepConn()
        self.conns.append(self.handle)

    def close(self):
        if self.handle:
            self.handle.close()
            self.handle = None

    def read(self, sz):
        return self.handle.recv(sz)

    def readAll(self, sz):
        buff = b''
        while len(buff) < sz:
            chunk = self.read(sz - len(buff))
            if not chunk:
                raise EOFError()
            buff += chunk
        return buff

    def write(self, buff):
        self.handle.sendall(buff)
