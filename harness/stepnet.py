"""Step-controlled fake socket for the transport checks (C08).

Every blocking call on the connection (`sendall`, `recv_into`) blocks its greenlet until the
harness lets it return with an outcome it chooses: 'ok', 'raise' (socket.error) or 'eof'.
`open()` meets the outcome programmed in `next_connect` — or, with `next_connect = 'block'`, blocks in the
connect like a real non-blocking connect does until the harness calls `release_connect(outcome)`.  `release_burst` lets a blocked read return
and programs the outcomes of the reads that follow it, which then return *without blocking* — bytes
(and an end of stream / error behind them) that arrived in one burst and are already buffered, so the
reading greenlet does not yield between them.  Nothing here imports scales: the
object stands for `scales.scales_socket.ScalesSocket` underneath the real `VarzSocketWrapper`."""
import socket as _socket

from gevent.event import Event


class Pending(object):
    __slots__ = ('kind', 'arg', 'ev', 'outcome', 'data')

    def __init__(self, kind, arg):
        self.kind, self.arg = kind, arg
        self.ev = Event()
        self.outcome = None
        self.data = None


class StepConn(object):
    """what `ScalesSocket.handle` is: the client end of one connection"""

    def __init__(self, eof_mid=False):
        self.closed = False
        self.eof_mid = eof_mid     # an end of stream arrives after part of the block being read
        self.pend = {'write': None, 'read': None}
        self.written = []          # byte strings that reached the peer, one per successful sendall
        self.buffered = []         # (outcome, data) of the next reads: they return without blocking

    def _block(self, kind, arg):
        if self.closed:
            raise _socket.error(9, 'Bad file descriptor')
        assert self.pend[kind] is None, 'two greenlets in %s on one connection' % kind
        p = Pending(kind, arg)
        if kind == 'read' and self.buffered:
            p.outcome, p.data = self.buffered.pop(0)
            return p
        self.pend[kind] = p
        try:
            p.ev.wait()            # gevent.Timeout / GreenletExit are thrown in here
        finally:
            self.pend[kind] = None
        return p

    # --- client API (what VarzSocketWrapper uses)
    def sendall(self, data):
        p = self._block('write', bytes(data))
        if p.outcome == 'ok':
            self.written.append(bytes(data))
            return
        raise _socket.error(32, 'Broken pipe')

    def recv_into(self, view, sz):
        p = self._block('read', sz)
        if p.outcome == 'ok':
            data = p.data
            assert 0 < len(data) <= sz
            view[:len(data)] = data
            return len(data)
        if p.outcome == 'eof':
            return 0
        raise _socket.error(104, 'Connection reset by peer')

    def recv(self, sz):
        b = bytearray(sz)
        n = self.recv_into(memoryview(b), sz)
        return bytes(b[:n])

    def send(self, data):
        self.sendall(data)
        return len(data)

    def setsockopt(self, *a):
        pass

    def close(self):
        self.closed = True

    def connect(self, addr):
        """what the real ScalesSocket.open() calls on the OS socket it has just created"""
        o = self.owner
        outcome = o.next_connect
        if outcome == 'block':
            # the connect is in progress: the calling greenlet yields until the harness decides how it ends
            ev = Event()
            o.pend_connect = (self, ev)
            try:
                ev.wait()
            finally:
                o.pend_connect = None
            outcome = o.connect_outcome
        o.connects += 1            # counted when the attempt concludes
        if outcome != 'ok':
            raise _socket.error(111, 'Connection refused')
        o.conns.append(self)

    # --- harness API
    def release(self, kind, outcome, data=None):
        p = self.pend[kind]
        if kind == 'read' and outcome == 'eof' and self.eof_mid and p.arg >= 2:
            # the peer goes away in the middle of the block: some of its bytes arrive, then end of stream
            self.buffered = [('eof', None)] + list(self.buffered)
            outcome, data = 'ok', b'\x00' * (p.arg // 2)
        p.outcome, p.data = outcome, data
        p.ev.set()

    def release_burst(self, reads):
        """`reads`: [(outcome, data), ...]; the first goes to the blocked read, the others are buffered"""
        self.buffered = list(reads[1:])
        self.release('read', reads[0][0], reads[0][1])


def real_socket(host='h', port=1):
    """The REAL scales.scales_socket.ScalesSocket over step-controlled connections: only the OS socket class
    (`gsocket`) and name resolution are replaced, so open()/close()/isOpen() are the code under test (what is
    left behind by a refused connect included)."""
    import scales.scales_socket as ss
    s = ss.ScalesSocket(host, port)
    s.next_connect, s.connects, s.conns, s.eof_mid = 'ok', 0, [], False
    s.next_buffered = []          # (outcome, data) of the first reads on the next connection: already there
    s.pend_connect = None         # (connection, event) of a connect that is in progress (`next_connect = 'block'`)
    s.connect_outcome = 'ok'

    def release_connect(outcome, buffered=()):
        """the connect in progress concludes ('ok' / 'refuse'); `buffered`: the first reads are already there"""
        conn, ev = s.pend_connect
        s.connect_outcome = outcome
        conn.buffered = list(buffered)
        ev.set()
    s.release_connect = release_connect
    s._resolveAddr = lambda: [(2, 1, 6, '', (host, port))]

    def factory(family, type_):
        if (family, type_) != (2, 1):       # socket(2) refuses anything but what the fake resolver returned
            import socket as _socket
            raise _socket.error(94, 'Socket type not supported')
        c = StepConn(s.eof_mid)
        c.owner = s
        c.buffered, s.next_buffered = list(s.next_buffered), []
        return c
    ss.gsocket = factory          # one driver at a time per worker process
    return s


class StepSocket(object):
    """stands for ScalesSocket(host, port) (kept for experiments; the checks use `real_socket`)"""

    def __init__(self, host='h', port=1):
        self.host, self.port = host, port
        self.handle = None
        self.next_connect = 'ok'
        self.connects = 0
        self.conns = []
        self.eof_mid = False

    def isOpen(self):
        return self.handle is not None

    def open(self):
        self.connects += 1
        if self.next_connect != 'ok':
            raise _socket.error(111, 'Connection refused')
        self.handle = StepConn(self.eof_mid)
        self.conns.append(self.handle)

    def close(self):
        if self.handle:
            self.handle.close()
            self.handle = None

    def read(self, sz):
        return self.handle.recv(sz)

    def readAll(self, sz):
        buff = b''
        while len(buff) < sz:
            chunk = self.read(sz - len(buff))
            if not chunk:
                raise EOFError()
            buff += chunk
        return buff

    def write(self, buff):
        self.handle.sendall(buff)
