"""A small Python -> Lean translator for decision logic and arithmetic at anchored sites of /repo.

It is the translator-style tie of the framework (DESIGN §9.1): on every run the named pieces of
the *current* source are translated to Lean definitions, and a hand-written, kernel-checked
obligation states that each generated definition equals the corresponding piece of the
hand-written model for all arguments.  If somebody changes the expression in the source (drops a
term, flips a comparison, changes a constant) the generated definition changes and the
obligation no longer checks.

Supported Python: integer/boolean expressions (+ - * // %, comparisons incl. chains, and/or/not,
conditional expressions, names, dotted attributes, int/bool constants) and, for whole functions,
bodies made of `if/elif/else`, `return <expr>`, local assignments and augmented assignments,
executed symbolically.  Anything else raises `Untranslatable` (reported as a broken obligation,
never guessed)."""
import ast


class Untranslatable(Exception):
    pass


POISON = object()


def dotted(node):
    if isinstance(node, ast.Name):
        return node.id
    if isinstance(node, ast.Attribute):
        return dotted(node.value) + '.' + node.attr
    raise Untranslatable(ast.dump(node)[:80])


CMP = {ast.Lt: '<', ast.LtE: '≤', ast.Gt: '>', ast.GtE: '≥', ast.Eq: '=', ast.NotEq: '≠'}
BIN = {ast.Add: '+', ast.Sub: '-', ast.Mult: '*', ast.FloorDiv: '/', ast.Mod: '%'}


class Tr(object):
    """varmap: dotted python name -> lean variable name; env: current symbolic values of locals"""

    def __init__(self, varmap):
        self.varmap = dict(varmap)

    def atom(self, name, env):
        if name in env:
            if env[name] is POISON:
                raise Untranslatable('%s holds a value that was not translated' % name)
            return env[name]
        if name in self.varmap:
            return self.varmap[name]
        raise Untranslatable('free name %s' % name)

    def named(self, n):
        """a sub-expression the site declaration abstracts by name (its unparsed text is a varmap key)"""
        if isinstance(n, (ast.Call, ast.Compare, ast.Subscript, ast.BoolOp)):
            return self.varmap.get(ast.unparse(n))
        return None

    def ex(self, n, env):
        """integer-valued expression"""
        if self.named(n) is not None:
            return self.named(n)
        if isinstance(n, ast.Constant) and isinstance(n.value, bool):
            raise Untranslatable('bool constant in integer position')
        if isinstance(n, ast.Constant) and isinstance(n.value, int):
            return '(%d : Int)' % n.value
        if isinstance(n, (ast.Name, ast.Attribute)):
            return self.atom(dotted(n), env)
        if isinstance(n, ast.BinOp) and type(n.op) in BIN:
            return '(%s %s %s)' % (self.ex(n.left, env), BIN[type(n.op)], self.ex(n.right, env))
        if isinstance(n, ast.UnaryOp) and isinstance(n.op, ast.USub):
            return '(-%s)' % self.ex(n.operand, env)
        if isinstance(n, ast.IfExp):
            return '(if %s then %s else %s)' % (self.cond(n.test, env), self.ex(n.body, env), self.ex(n.orelse, env))
        raise Untranslatable(ast.dump(n)[:120])

    def cond(self, n, env):
        """proposition (decidable) for use under `if` / `decide`"""
        if self.named(n) is not None:
            return '(%s = true)' % self.named(n)
        if isinstance(n, ast.Constant) and isinstance(n.value, bool):
            return 'True' if n.value else 'False'
        if isinstance(n, ast.Compare):
            parts, left = [], n.left
            for op, right in zip(n.ops, n.comparators):
                if type(op) not in CMP:
                    raise Untranslatable(ast.dump(op))
                parts.append('(%s %s %s)' % (self.ex(left, env), CMP[type(op)], self.ex(right, env)))
                left = right
            return parts[0] if len(parts) == 1 else '(' + ' ∧ '.join(parts) + ')'
        if isinstance(n, ast.BoolOp):
            j = ' ∧ ' if isinstance(n.op, ast.And) else ' ∨ '
            return '(' + j.join(self.cond(v, env) for v in n.values) + ')'
        if isinstance(n, ast.UnaryOp) and isinstance(n.op, ast.Not):
            return '(¬ %s)' % self.cond(n.operand, env)
        if isinstance(n, (ast.Name, ast.Attribute)):
            # a boolean-valued variable: mapped names carry their own Lean proposition
            return '(%s = true)' % self.atom(dotted(n), env)
        raise Untranslatable(ast.dump(n)[:120])

    # ---- whole function bodies, symbolically
    def body(self, stmts, env, ret_bool):
        """returns a Lean term for the value returned by executing stmts (must end in return on
        every path)"""
        if not stmts:
            raise Untranslatable('path without return')
        s, rest = stmts[0], stmts[1:]
        if isinstance(s, ast.Expr) and isinstance(s.value, ast.Constant):     # docstring
            return self.body(rest, env, ret_bool)
        if isinstance(s, ast.Return):
            if ret_bool:
                return 'decide %s' % self.cond(s.value, env)
            return self.ex(s.value, env)
        if isinstance(s, ast.Assign) and len(s.targets) == 1:
            env2 = dict(env)
            env2[dotted(s.targets[0])] = self.ex(s.value, env)
            return self.body(rest, env2, ret_bool)
        if isinstance(s, ast.AugAssign) and type(s.op) in BIN:
            name = dotted(s.target)
            env2 = dict(env)
            env2[name] = '(%s %s %s)' % (self.atom(name, env), BIN[type(s.op)], self.ex(s.value, env))
            return self.body(rest, env2, ret_bool)
        if isinstance(s, ast.If):
            c = self.cond(s.test, env)
            t = self.body(s.body + rest, env, ret_bool)
            e = self.body((s.orelse or []) + rest, env, ret_bool)
            return '(if %s then %s else %s)' % (c, t, e)
        raise Untranslatable(ast.dump(s)[:120])

    def branch(self, node):
        """index of the branch taken in an if/elif/.../else chain"""
        k, out, closes = 0, '', 0
        while True:
            out += '(if %s then (%d : Int) else ' % (self.cond(node.test, {}), k)
            closes += 1
            k += 1
            if len(node.orelse) == 1 and isinstance(node.orelse[0], ast.If):
                node = node.orelse[0]
            else:
                return out + '(%d : Int)' % k + ')' * closes

    def final(self, stmts, env, var):
        """symbolic value of `var` when the function is left (by `return` or by falling off the end);
        `with` blocks are transparent"""
        if not stmts:
            return self.atom(var, env)
        s, rest = stmts[0], stmts[1:]
        # ghost counters: a statement that makes a call named in the site's `ghost` table bumps that counter
        if isinstance(s, (ast.Expr, ast.Assign)):
            for text, gvar in getattr(self, 'ghost', {}).items():
                if text in ast.unparse(s):
                    env = dict(env)
                    env[gvar] = '(%s + (1 : Int))' % self.atom(gvar, env)
        if isinstance(s, ast.Expr):
            return self.final(rest, env, var)
        if isinstance(s, ast.Return):
            return self.atom(var, env)
        if isinstance(s, ast.With):
            return self.final(list(s.body) + rest, env, var)
        if isinstance(s, ast.Assign) and len(s.targets) == 1:
            env2 = dict(env)
            try:
                env2[dotted(s.targets[0])] = self.ex(s.value, env)
            except Untranslatable:
                env2[dotted(s.targets[0])] = POISON
            return self.final(rest, env2, var)
        if isinstance(s, ast.AugAssign) and type(s.op) in BIN:
            name = dotted(s.target)
            env2 = dict(env)
            env2[name] = '(%s %s %s)' % (self.atom(name, env), BIN[type(s.op)], self.ex(s.value, env))
            return self.final(rest, env2, var)
        if isinstance(s, ast.If):
            return '(if %s then %s else %s)' % (self.cond(s.test, env), self.final(list(s.body) + rest, env, var),
                                                self.final(list(s.orelse or []) + rest, env, var))
        raise Untranslatable(ast.dump(s)[:120])

    def after(self, stmts, env, var):
        """symbolic value of `var` after executing stmts (no returns; if/else merged)"""
        for s in stmts:
            if isinstance(s, ast.Assign) and len(s.targets) == 1:
                env = dict(env)
                try:
                    env[dotted(s.targets[0])] = self.ex(s.value, env)
                except Untranslatable:
                    # a local that is not an integer (flag, object): poisoned — using it later fails
                    env[dotted(s.targets[0])] = POISON
            elif isinstance(s, ast.AugAssign) and type(s.op) in BIN:
                name = dotted(s.target)
                env = dict(env)
                env[name] = '(%s %s %s)' % (self.atom(name, env), BIN[type(s.op)], self.ex(s.value, env))
            elif isinstance(s, ast.If):
                c = self.cond(s.test, env)
                e1 = self.after(s.body, env, None)
                e2 = self.after(s.orelse or [], env, None)
                keys = set(e1) | set(e2)
                env = dict(env)
                for k in keys:
                    a = e1.get(k, env.get(k, self.varmap.get(k)))
                    b = e2.get(k, env.get(k, self.varmap.get(k)))
                    if a is POISON or b is POISON:
                        env[k] = POISON
                        continue
                    if a is None or b is None:
                        raise Untranslatable('variable %s undefined on a path' % k)
                    env[k] = a if a == b else '(if %s then %s else %s)' % (c, a, b)
            elif isinstance(s, ast.Expr):
                continue            # calls for effect (logging etc.) do not change integers we track
            else:
                raise Untranslatable(ast.dump(s)[:120])
        if var is None:
            return env
        if var in env:
            return env[var]
        raise Untranslatable('%s not assigned' % var)


def find_func(tree, qualname):
    parts = qualname.split('.')
    node = tree
    for p in parts:
        nxt = None
        for ch in ast.walk(node) if node is tree else ast.iter_child_nodes(node):
            if isinstance(ch, (ast.ClassDef, ast.FunctionDef)) and ch.name == p:
                nxt = ch
                break
        if nxt is None:
            raise Untranslatable('no %s in %s' % (p, qualname))
        node = nxt
    return node


def stmts_matching(func, marker):
    """the statements of `func` starting at the first statement whose source contains `marker`
    and ending before the first whose source contains the end marker (if given as (a, b))"""
    start, end = marker if isinstance(marker, tuple) else (marker, None)
    out, on = [], False
    for s in func.body:
        txt = ast.unparse(s)
        if not on and start in txt:
            on = True
        elif on and end is not None and end in txt:
            break
        if on:
            out.append(s)
    if not out:
        raise Untranslatable('marker %r not found' % (start,))
    return out


def find_expr(func, marker):
    """the first expression node in func whose unparsed text contains marker, innermost-first for
    `if`/`elif` tests; returns the test of the first If (at any depth) whose test text contains it,
    else the value of the first Assign whose text contains it"""
    for n in ast.walk(func):
        if isinstance(n, ast.If) and marker in ast.unparse(n.test):
            return n.test
    for n in ast.walk(func):
        if isinstance(n, ast.Assign) and marker in ast.unparse(n):
            return n.value
    raise Untranslatable('marker %r not found' % marker)


def translate(site, repo):
    """site: dict(name, file, func, kind, varmap, params, [marker], [var]) -> Lean `def` text"""
    src = open(repo + '/' + site['file']).read()
    tree = ast.parse(src)
    func = find_func(tree, site['func'])
    tr = Tr(site['varmap'])
    tr.ghost = site.get('ghost', {})
    kind = site['kind']
    if kind == 'return-bool':
        body, ty = tr.body(func.body, {}, True), 'Bool'
    elif kind == 'return-int':
        body, ty = tr.body(func.body, {}, False), 'Int'
    elif kind == 'cond':
        body, ty = 'decide %s' % tr.cond(find_expr(func, site['marker']), {}), 'Bool'
    elif kind == 'expr':
        body, ty = tr.ex(find_expr(func, site['marker']), {}), 'Int'
    elif kind == 'branch':
        node = None
        for n in ast.walk(func):
            if isinstance(n, ast.If) and site['marker'] in ast.unparse(n.test):
                node = n
                break
        if node is None:
            raise Untranslatable('marker %r not found' % site['marker'])
        body, ty = tr.branch(node), 'Int'
    elif kind == 'final':
        body, ty = tr.final(list(func.body), {}, site['var']), 'Int'
    elif kind == 'after':
        body, ty = tr.after(stmts_matching(func, site['marker']), {}, site['var']), 'Int'
    else:
        raise Untranslatable('kind %s' % kind)
    params = ' '.join('(%s : Int)' % p if ':' not in p else '(%s)' % p for p in site['params'])
    return 'def %s %s : %s :=\n  %s\n' % (site['name'], params, ty, body)
