"""mkseed_auto.py <key> <PROP> — like mkseed.py, with the constraint built from the seeds already kept for the property"""
import json, os, re, subprocess, sys
key, pid = sys.argv[1], sys.argv[2]
items = []
for n in sorted(os.listdir('/verif/seeded')):
    d = '/verif/seeded/' + n
    if not os.path.isdir(d) or not n.startswith(pid):
        continue
    patch = open(d + '/patch.diff', errors='replace').read()
    files = sorted(set(re.findall(r'^\+\+\+ b/(\S+)', patch, re.M)))
    funcs = sorted(set(m.strip() for m in re.findall(r'^@@.*@@ (.*)$', patch, re.M)))[:2]
    items.append('%s in %s (%s)' % (n[4:].replace('-', ' '), ', '.join(files), '; '.join(funcs)))
extra = ('earlier volunteers already made these changes — choose a different site and a different mechanism: '
         + ' | '.join('(%s) %s' % (chr(97 + i), it) for i, it in enumerate(items)) + '.')
subprocess.run([sys.executable, '/verif/harness/mkseed.py', key, pid, extra], check=True)
