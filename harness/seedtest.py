"""seedtest.py <seed-dir> <PROP> [<PROP> …] — apply a seeded change to /repo, run the quick checks, undo.

The seeded change (seed-dir/patch.diff) is never committed; /repo is restored with `git checkout -- .`
whatever happens."""
import json
import os
import subprocess
import sys

REPO = os.environ.get('SEED_REPO', '/repo')      # a private copy of /repo may be used while /repo is busy
seed = os.path.abspath(sys.argv[1])
props = sys.argv[2:]
patch = os.path.join(seed, 'patch.diff')
assert subprocess.run(['git', '-C', REPO, 'status', '--porcelain', '--untracked-files=no'],
                      stdout=subprocess.PIPE, text=True).stdout.strip() == '', REPO + ' is not clean'
res = {}
try:
    subprocess.run(['git', '-C', REPO, 'apply', patch], check=True)
    for p in props:
        env = dict(os.environ, VERIF_SEED=os.environ.get('VERIF_SEED', '1'), SCALES_REPO=REPO)
        q = subprocess.run(['./check', p, '--tier', os.environ.get('TIER', 'quick')], cwd='/verif', env=env,
                           stdout=subprocess.PIPE, stderr=subprocess.STDOUT, text=True)
        lines = [l for l in q.stdout.splitlines() if l.startswith(('VIOLATION', 'KNOWN-FINDING')) or ' tier=' in l]
        res[p] = {'exit': q.returncode, 'lines': lines}
        print(p, 'exit', q.returncode)
        for l in lines:
            print('   ', l[:200])
finally:
    subprocess.run(['git', '-C', REPO, 'checkout', '--', '.'], check=True)
json.dump(res, open(os.path.join(seed, 'check_result.json'), 'w'), indent=1)
