"""muttable.py — markdown summary of the mechanical-mutant analysis (mutation/*.jsonl, mutation/TRIAGE.json) for DESIGN §9.7"""
import glob
import json
import os
from collections import Counter, defaultdict

OUT = '/verif/mutation'
ms = {m['id']: m for m in json.load(open(os.path.join(OUT, 'mutants.json')))}
triage = json.load(open(os.path.join(OUT, 'TRIAGE.json')))
triage.pop('_doc', None)


def load(prefix):
    out = {}
    for fn in sorted(glob.glob(os.path.join(OUT, prefix + '*.jsonl'))):
        for l in open(fn):
            r = json.loads(l)
            out[r['id']] = r
    return out


r1, r2, r3 = load('results.lane'), load('results2.lane'), load('results3.lane')


def final(i):
    a = r1.get(i)
    if a is None:
        return 'not-run'
    o = a['outcome']
    if o == 'harness-error':
        return 'unit-hang'
    if o != 'survived':
        return o
    b = r2.get(i, {}).get('outcome')
    if b == 'concrete':
        return 'concrete-elsewhere'
    c = r3.get(i, {}).get('outcome')
    t = triage.get(i)
    if t and len(t) > 3 and t[3].startswith('concrete'):
        return 'concrete-after-strengthening'
    if c == 'concrete':
        return 'concrete-after-strengthening'
    if b == 'broken-only' or c == 'broken-only' or (t and len(t) > 3 and t[3].startswith('broken')):
        return 'broken-only'
    return 'survived'


for batch in (1, 2):
    ids = [i for i, m in ms.items() if m.get('batch', 1) == batch and i in r1]
    c = Counter(final(i) for i in ids)
    kinds = Counter(ms[i]['kind'] for i in ids)
    print('batch %d: %d mutants (%s)' % (batch, len(ids), ', '.join('%s %d' % kv for kv in sorted(kinds.items()))))
    for k in ('unit-killed', 'unit-hang', 'concrete', 'concrete-elsewhere', 'concrete-after-strengthening', 'broken-only',
              'survived'):
        print('   %-30s %d' % (k, c.get(k, 0)))
    surv = [i for i in ids if final(i) == 'survived']
    tc = Counter((triage.get(i) or ['untriaged'])[0] for i in surv)
    print('   survivors by triage class:', dict(tc))
print()
print('| mutant | violates | what it does | now |')
print('|---|---|---|---|')
for i, t in sorted(triage.items()):
    if t[0].startswith('V'):
        m = ms.get(i, {})
        print('| `%s` (`%s` → `%s`) | %s%s | %s | %s |' % (i, m.get('before', '').replace('|', '/')[:50], m.get('after', '').replace('|', '/')[:30],
                                                      t[1], ' (borderline)' if t[0] == 'V?' else '', t[2], t[3] if len(t) > 3 else ''))
