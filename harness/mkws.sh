#!/bin/sh
# mkws.sh <name>: private copy of /verif and /repo for a builder (outside /repo and /verif)
set -e
n="$1"
rm -rf "/work/$n"
mkdir -p "/work/$n"
cp -r /verif "/work/$n/verif"
cp -r /repo "/work/$n/repo"
rm -rf "/work/$n/verif/.work" "/work/$n/verif/replays"/*.json
echo "/work/$n"
