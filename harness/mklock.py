"""Regenerate lean/theorems.lock from Props/*.lean (run by hand when theorems are added)."""
import os, re, sys
sys.path.insert(0, os.path.dirname(os.path.abspath(__file__)))
import lib
out = []
d = os.path.join(lib.LEAN, 'ScalesModel', 'Props')
for fn in sorted(os.listdir(d)):
    if fn.endswith('.lean'):
        thms, _ = lib.prop_theorems(fn[:-5])
        out += ['%s %s' % t for t in thms]
open(os.path.join(lib.LEAN, 'theorems.lock'), 'w').write('\n'.join(out) + '\n')
print(len(out), 'theorems locked')
