"""Shared machinery of the checks: Lean build + audit, line-protocol driver, workers that run
the real code, classification, shrinking, evidence, known findings.

Runs under /venv/bin/python (the interpreter the repository's tests use)."""
import fcntl
import hashlib
import importlib
import json
import os
import re
import shutil
import subprocess
import sys
import time

VERIF = os.path.dirname(os.path.dirname(os.path.abspath(__file__)))
LEAN = os.path.join(VERIF, 'lean')
HARNESS = os.path.join(VERIF, 'harness')
REPO = os.environ.get('SCALES_REPO', '/repo')
PY = '/venv/bin/python'
DRIVER = os.path.join(LEAN, '.lake', 'build', 'bin', 'driver')
ALLOWED_AXIOMS = {'propext', 'Classical.choice', 'Quot.sound'}
FORBIDDEN = re.compile(r'\b(sorry|admit|native_decide|bv_decide|implemented_by)\b|^\s*axiom\s|^\s*unsafe\s|maxHeartbeats\s+0')
NCPU = min(16, os.cpu_count() or 1)


# --------------------------------------------------------------------------- V text format
def vfmt(x):
    """Python value -> line-protocol text (must agree with Scales.V.toStr)."""
    if x is None:
        return 'none'
    if x is True:
        return 'T'
    if x is False:
        return 'F'
    if isinstance(x, int):
        return str(x)
    if isinstance(x, (bytes, bytearray)):
        return 'x' + bytes(x).hex()
    if isinstance(x, str):
        assert x and not re.search(r'[\s()]', x), repr(x)
        return x
    if isinstance(x, (list, tuple)):
        return '(' + ' '.join(vfmt(e) for e in x) + ')'
    raise TypeError(type(x))


def vline(items):
    """top-level items of a line (no enclosing parentheses)."""
    return ' '.join(vfmt(e) for e in items)


# --------------------------------------------------------------------------- work dir
class Work(object):
    def __init__(self, tag):
        self.dir = os.path.join(VERIF, '.work', '%s-%d' % (tag, os.getpid()))
        os.makedirs(self.dir, exist_ok=True)

    def path(self, name):
        return os.path.join(self.dir, name)

    def cleanup(self):
        shutil.rmtree(self.dir, ignore_errors=True)


# --------------------------------------------------------------------------- Lean side
def lean_build():
    """Build library + driver under a file lock.  Returns (ok, log)."""
    os.makedirs(os.path.join(VERIF, '.work'), exist_ok=True)
    with open(os.path.join(VERIF, '.work', 'lake.lock'), 'w') as lk:
        fcntl.flock(lk, fcntl.LOCK_EX)
        try:
            p = subprocess.run(['lake', 'build'], cwd=LEAN, stdout=subprocess.PIPE,
                               stderr=subprocess.STDOUT, text=True, timeout=3000)
            return p.returncode == 0, p.stdout
        finally:
            fcntl.flock(lk, fcntl.LOCK_UN)


# Props files that hold theorems of several properties (each named <PROP>_…, in the namespace of Props/<PROP>.lean):
# E2EMonitor = the declarative readings of the end-to-end monitors' verdicts (C01, C02, C09, C12)
SHARED_PROPS = ['E2EMonitor']


def shared_modules(prop):
    """shared Props files that contain theorems of this property"""
    out = []
    for extra in SHARED_PROPS:
        path = os.path.join(LEAN, 'ScalesModel', 'Props', extra + '.lean')
        if extra != prop and os.path.exists(path) and re.search(r'^theorem\s+%s_\w+' % prop, open(path).read(), re.M):
            out.append(extra)
    return out


def prop_theorems(prop):
    """(name, statement-hash) of every property theorem in Props/<prop>.lean (and in the shared Props files)."""
    path = os.path.join(LEAN, 'ScalesModel', 'Props', prop + '.lean')
    src = open(path).read()
    out = []
    for text in [src] + [open(os.path.join(LEAN, 'ScalesModel', 'Props', x + '.lean')).read()
                         for x in shared_modules(prop)]:
        names = re.findall(r'^theorem\s+(%s_\w+)' % prop, text, re.M)
        for n in names:
            m = re.search(r'^theorem\s+%s\b(.*?):=' % re.escape(n), text, re.M | re.S)
            stmt = re.sub(r'\s+', ' ', m.group(1)).strip() if m else ''
            out.append((n, hashlib.sha256(stmt.encode()).hexdigest()[:16]))
    return out, src


def lean_sources_for(prop):
    """All Lean files Props/<prop>.lean transitively imports inside this project."""
    seen, todo = [], ['ScalesModel.Props.' + prop] + ['ScalesModel.Props.' + x for x in shared_modules(prop)]
    while todo:
        mod = todo.pop()
        path = os.path.join(LEAN, *mod.split('.')) + '.lean'
        if mod in seen or not os.path.exists(path):
            continue
        seen.append(mod)
        for m in re.findall(r'^import\s+(ScalesModel\.[\w.]+)', open(path).read(), re.M):
            todo.append(m)
    return seen


def audit(prop, work):
    """Check the proof obligations of a property.  Returns dict with obligations, discharged,
    problems (list of strings), theorems (list), namespace-qualified axioms per theorem."""
    res = {'obligations': 0, 'discharged': 0, 'problems': [], 'theorems': []}
    thms, src = prop_theorems(prop)
    res['obligations'] = len(thms)
    if not thms:
        res['problems'].append('no theorems found in Props/%s.lean' % prop)
        return res
    # lock file: names and statement hashes
    lock_path = os.path.join(LEAN, 'theorems.lock')
    lock = {}
    if os.path.exists(lock_path):
        for line in open(lock_path):
            parts = line.split()
            if len(parts) == 2:
                lock[parts[0]] = parts[1]
    want = {k: v for k, v in lock.items() if k.startswith(prop + '_')}
    have = dict(thms)
    for k, v in want.items():
        if k not in have:
            res['problems'].append('theorem %s listed in theorems.lock is missing' % k)
        elif have[k] != v:
            res['problems'].append('statement of %s differs from theorems.lock' % k)
    for k in have:
        if k not in want:
            res['problems'].append('theorem %s is not in theorems.lock' % k)
    # forbidden tokens in every project file the property depends on
    for mod in lean_sources_for(prop):
        path = os.path.join(LEAN, *mod.split('.')) + '.lean'
        text = open(path).read()
        text = re.sub(r'/-.*?-/', '', text, flags=re.S)
        for i, line in enumerate(text.split('\n')):
            line = line.split('--')[0]
            if FORBIDDEN.search(line):
                res['problems'].append('forbidden token in %s: %s' % (mod, line.strip()[:80]))
    # namespace of the theorems
    ns = re.search(r'^namespace\s+([\w.]+)', src, re.M)
    ns = ns.group(1) + '.' if ns else ''
    audit_file = work.path('Audit_%s.lean' % prop)
    with open(audit_file, 'w') as f:
        f.write('import ScalesModel.Props.%s\n' % prop)
        for x in shared_modules(prop):
            f.write('import ScalesModel.Props.%s\n' % x)
        for n, _ in thms:
            f.write('#print axioms %s%s\n' % (ns, n))
    p = subprocess.run(['lake', 'env', 'lean', audit_file], cwd=LEAN, stdout=subprocess.PIPE,
                       stderr=subprocess.STDOUT, text=True, timeout=1200)
    out = p.stdout
    for n, h in thms:
        full = ns + n
        m = re.search(r"'%s' depends on axioms: \[(.*?)\]" % re.escape(full), out, re.S)
        if m:
            axs = {a.strip() for a in m.group(1).replace('\n', ' ').split(',') if a.strip()}
        elif re.search(r"'%s' does not depend on any axioms" % re.escape(full), out):
            axs = set()
        else:
            res['problems'].append('no axiom report for %s: %s' % (n, out.strip()[:200]))
            continue
        bad = axs - ALLOWED_AXIOMS
        if bad:
            res['problems'].append('%s depends on disallowed axioms %s' % (n, sorted(bad)))
        else:
            res['theorems'].append({'name': n, 'axioms': sorted(axs), 'stmt': h})
    bad_names = {p_.split()[0] for p_ in res['problems']}
    res['discharged'] = len([t for t in res['theorems'] if t['name'] not in bad_names])
    if res['problems']:
        res['discharged'] = min(res['discharged'], res['obligations'] - 1) if res['obligations'] else 0
    return res


def run_driver(cases, work, name='cases'):
    """Pipe cases through the Lean driver.  Each case: dict(comp, cfg(str), steps=[[op, real|None]]).
    Adds to each case: 'model' (list of obs str or None), 'mverdict', 'rverdict', 'driver_err'."""
    inp = work.path(name + '.in')
    with open(inp, 'w') as f:
        for c in cases:
            f.write('case %s %s\n' % (c['comp'], c['cfg']))
            for op, real in c['steps']:
                f.write('op %s\n' % op)
                if real is not None:
                    f.write('real %s\n' % real)
            f.write('end\n')
    with open(inp) as fin:
        p = subprocess.run([DRIVER], stdin=fin, stdout=subprocess.PIPE, stderr=subprocess.PIPE,
                           text=True, timeout=3000)
    lines = p.stdout.split('\n')
    i = 0
    for c in cases:
        obs, c['mverdict'], c['rverdict'], c['driver_err'] = [], None, None, None
        while i < len(lines) and lines[i] != 'done':
            ln = lines[i]
            if ln.startswith('obs '):
                obs.append(ln[4:])
            elif ln.startswith('verdict '):
                rest = ln[8:]
                mv, rest2 = split_two(rest)
                rv, wf = split_two(rest2)
                c['mverdict'], c['rverdict'], c['wf'] = mv, rv, (wf.strip() != 'F')
            elif ln:
                c['driver_err'] = ln
            i += 1
        i += 1
        c['model'] = obs
    if p.returncode != 0 or p.stderr.strip():
        for c in cases:
            if c.get('mverdict') is None and not c.get('driver_err'):
                c['driver_err'] = 'driver exit %s: %s' % (p.returncode, p.stderr.strip()[:200])
    return cases


def split_two(s):
    """split 'v1 v2' where each is an atom or a parenthesised value."""
    s = s.strip()
    if s.startswith('('):
        depth = 0
        for j, ch in enumerate(s):
            if ch == '(':
                depth += 1
            elif ch == ')':
                depth -= 1
                if depth == 0:
                    return s[:j + 1], s[j + 1:].strip()
    a, _, b = s.partition(' ')
    return a, b.strip()


# --------------------------------------------------------------------------- workers (real code)
def worker_env():
    env = dict(os.environ)
    env['GEVENT_LOOP'] = 'vloop.VLoop'
    env['PYTHONPATH'] = HARNESS + os.pathsep + REPO + os.pathsep + env.get('PYTHONPATH', '')
    env['PYTHONHASHSEED'] = '0'
    env.setdefault('SCALES_VERIF', '1')
    return env


def run_workers(prop, jobs, work, timeout):
    """jobs: list of dict(mode='gen', seed, n, tier) or dict(mode='scripts', scripts=[...]).
    Returns (cases, problems).  Each job is one subprocess; all run in parallel."""
    procs = []
    for k, job in enumerate(jobs):
        jf = work.path('job%d.json' % k)
        of = work.path('job%d.out' % k)
        with open(jf, 'w') as f:
            json.dump(job, f)
        p = subprocess.Popen([PY, os.path.join(HARNESS, 'worker.py'), prop, jf, of],
                             cwd=work.dir, env=worker_env(),
                             stdout=subprocess.DEVNULL, stderr=open(work.path('job%d.err' % k), 'w'))
        procs.append((p, of, k))
    cases, problems = [], []
    deadline = time.time() + timeout
    for p, of, k in procs:
        try:
            p.wait(max(1, deadline - time.time()))
        except subprocess.TimeoutExpired:
            p.kill()
            p.wait()
            problems.append(('hang', k))
        last_script = None
        if os.path.exists(of):
            for line in open(of):
                try:
                    rec = json.loads(line)
                except ValueError:
                    continue
                if 'begin' in rec:
                    last_script = rec['begin']
                else:
                    cases.append(rec)
                    last_script = None
        if p.returncode not in (0, None) or last_script is not None:
            err = open(work.path('job%d.err' % k)).read()[-2000:]
            problems.append(('worker-died', k, p.returncode, last_script, err))
    return cases, problems


# --------------------------------------------------------------------------- findings
def load_findings():
    path = os.path.join(VERIF, 'known_findings.json')
    if not os.path.exists(path):
        return []
    return json.load(open(path)).get('findings', [])


def match_finding(prop, verdict, findings, case=None):
    """verdict: '(fail clause p1 p2 …)'.  A finding matches on property, status open, clause and
    an optional regex over the whole verdict text / the case's cfg."""
    m = re.match(r'\(fail (\S+)', verdict or '')
    clause = m.group(1).rstrip(')') if m else None
    for f in findings:
        if f.get('property') != prop or f.get('status') != 'open':
            continue
        if f.get('clause') and f['clause'] != clause:
            continue
        if f.get('verdict_regex') and not re.search(f['verdict_regex'], verdict or ''):
            continue
        if f.get('cfg_regex') and case is not None and not re.search(f['cfg_regex'], case.get('cfg', '')):
            continue
        if f.get('tag') and case is not None and f['tag'] not in case.get('tags', []):
            continue
        return f
    return None


# --------------------------------------------------------------------------- classify
def classify(case):
    """-> ('ok'|'violation'|'diverge'|'driver', detail)"""
    if case.get('driver_err'):
        return 'driver', case['driver_err']
    rv = case.get('rverdict')
    if rv and rv.startswith('(fail'):
        return 'violation', rv
    model = case.get('model') or []
    steps = case['steps']
    if len(model) != len(steps):
        return 'diverge', 'model produced %d observations for %d ops' % (len(model), len(steps))
    for i, ((op, real), mo) in enumerate(zip(steps, model)):
        if real is not None and real != mo:
            return 'diverge', 'op %d `%s`: implementation %s, model %s' % (i, op, real, mo)
    if case.get('wf') is False:
        return 'diverge', 'operation list outside the hypotheses of the property theorems'
    mv = case.get('mverdict')
    if mv and mv.startswith('(fail'):
        # the model itself violates its spec on this input: a theorem hypothesis was not met
        return 'diverge', 'model verdict %s (input outside the theorem\'s hypotheses)' % mv
    return 'ok', ''


def source_obligations(prop, mod, work):
    """Constants the model shares with the source are re-read from /repo on every run and
    turned into Lean obligations (`example : <model constant> = <value read from the code>`),
    checked by the Lean kernel.  `mod.SOURCE_CONSTANTS` maps a Lean term to a Python expression
    evaluated in a worker (the real modules imported from the working tree)."""
    consts = getattr(mod, 'SOURCE_CONSTANTS', None) or {}
    sites = getattr(mod, 'SOURCE_SITES', None) or []
    if not consts and not sites:
        return None
    script = work.path('consts.py')
    with open(script, 'w') as f:
        f.write('import json, sys\nsys.path.insert(0, %r)\nimport rt\n' % HARNESS)
        f.write('out = {}\n')
        for lean_term, (imports, expr) in consts.items():
            f.write('try:\n    %s\n    out[%r] = int(%s)\nexcept Exception as ex:\n    out[%r] = "error: %%s" %% ex\n'
                    % (imports, lean_term, expr, lean_term))
        f.write('print("CONSTS " + json.dumps(out))\n')
    p = subprocess.run([PY, script], cwd=work.dir, env=worker_env(), stdout=subprocess.PIPE,
                       stderr=subprocess.PIPE, text=True, timeout=300)
    vals = {}
    for line in p.stdout.splitlines():
        if line.startswith('CONSTS '):
            vals = json.loads(line[7:])
    info, problems = {}, []
    if consts and not vals:
        problems.append('could not read constants from the source: %s' % p.stderr[-400:])
    lean_file = work.path('Generated_%s.lean' % prop)
    with open(lean_file, 'w') as f:
        for imp in getattr(mod, 'SOURCE_IMPORTS', []):
            f.write('import %s\n' % imp)
        f.write('set_option linter.unusedVariables false\n')
        for term, v in vals.items():
            info[term] = v
            if isinstance(v, int):
                f.write('example : (%s) = (%d) := by decide\n' % (term, v))
            else:
                problems.append('%s: %s' % (term, v))
        # definitions translated from the current source, and their hand-written obligations
        if sites:
            import pytrans
            f.write('namespace Generated\n')
            for site in sites:
                try:
                    d = pytrans.translate(site, REPO)
                    info['translated:' + site['name']] = d.split(':=', 1)[1].strip()[:300]
                    f.write(d)
                    f.write(site['obligation'] + '\n')
                except pytrans.Untranslatable as ex:
                    problems.append('source site %s (%s %s) is no longer translatable: %s'
                                    % (site['name'], site['file'], site['func'], ex))
                except Exception as ex:
                    problems.append('source site %s: %s' % (site['name'], ex))
            f.write('end Generated\n')
    q = subprocess.run(['lake', 'env', 'lean', lean_file], cwd=LEAN, stdout=subprocess.PIPE,
                       stderr=subprocess.STDOUT, text=True, timeout=600)
    if q.returncode != 0:
        out = q.stdout.strip()
        i = out.find('error')
        problems.append('model differs from the source (generated obligation failed): %s'
                        % out[max(0, out.rfind('\n', 0, i) + 1) if i >= 0 else 0:][:900])
    return {'info': info, 'problems': problems}


def load_prop(prop):
    sys.path.insert(0, HARNESS)
    return importlib.import_module('props.' + prop.lower())


ISOLATION_RUNNER = r"""
import importlib, json, logging, sys, types
sys.path.insert(0, %(harness)r)
import rt  # noqa
mod = importlib.import_module('props.' + %(prop)r)
import collections, io
CONTAINERS = (dict, list, set, collections.deque, bytearray, io.BytesIO)


def stateful(v):
    # containers, and objects of classes the library itself defines (an Ema, a clock, a pool, a sink ...); stateless
    # helpers of other libraries (a Thrift protocol factory, a struct.Struct) may be shared
    return isinstance(v, CONTAINERS) or (type(v).__module__ or '').startswith('scales.')
out = []
for name, make in mod.ISOLATION:
    a, b = make(), make()
    for n in sorted(set(dir(a)) | set(dir(b))):
        if n.startswith('__') or n == '_abc_impl':
            continue
        try:
            va, vb = getattr(a, n), getattr(b, n)
        except Exception:
            continue
        if va is vb and stateful(va) and not isinstance(va, type) and n not in getattr(mod, 'ISOLATION_SHARED_OK', ()):
            out.append('%%s: two instances share the %%s object held in attribute %%s' %% (name, type(va).__name__, n))
print('ISOLATION ' + json.dumps(out))
"""


def isolation_obligations(prop, mod, work):
    """`mod.ISOLATION` = [(name, factory)]: two objects made by the factory must not hold one and the same mutable object in
    any attribute (state kept on the class or the module instead of the instance couples every client in the
    process; no single-instance script can see it).  Returns a list of problems."""
    if not getattr(mod, 'ISOLATION', None):
        return []
    script = os.path.join(work.dir, 'isolation.py')
    open(script, 'w').write(ISOLATION_RUNNER % {'harness': HARNESS, 'prop': prop.lower()})
    p = subprocess.run([PY, script], cwd=work.dir, env=worker_env(), stdout=subprocess.PIPE, stderr=subprocess.PIPE,
                       text=True, timeout=120)
    for line in p.stdout.splitlines():
        if line.startswith('ISOLATION '):
            return json.loads(line[len('ISOLATION '):])
    return ['isolation probe failed: ' + (p.stderr or p.stdout)[-600:]]
