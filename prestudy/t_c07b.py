from common import *
from scales.pool.watermark import WatermarkPoolSink
from scales.sink import ClientMessageSinkStack
from scales.constants import SinkProperties, ChannelState
from scales.loadbalancer.zookeeper import Endpoint
from scales.message import Message, MethodReturnMessage
from test.scales.util.mocks import MockSinkProvider, MockSink
prov = MockSinkProvider()
pp = WatermarkPoolSink.Builder(max_watermark=1, min_watermark=1); pp.next_provider = prov
pool = pp.CreateSink({SinkProperties.Label: 'm', SinkProperties.Endpoint: Endpoint('h', 1)})
pool.Open().wait()
inflight = []
prov.ProcessRequest = lambda ss, m, s, h: inflight.append(ss)
for s in prov.sinks_created: s.ProcessRequest = prov.ProcessRequest
def req():
    st = ClientMessageSinkStack(); st.Push(MockSink({SinkProperties.Endpoint: None}))
    pool.AsyncProcessRequest(st, Message(), None, None); return st
print('size', pool._current_size, 'cache', len(pool._cache), 'created', len(prov.sinks_created))
prov.sinks_created[0].state = ChannelState.Closed        # the cached idle connection dies quietly
req(); gevent.sleep(1)
print('after request: size', pool._current_size, 'cache', len(pool._cache), 'created', len(prov.sinks_created), 'waiters', len(pool._waiters), 'reached a sink', len(inflight))
