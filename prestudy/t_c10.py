from common import *
import random, math
import scales.timer_queue as tq
def run(seed, steps=60):
    rng = random.Random(seed)
    q = tq.TimerQueue(time_source=loop.now, resolution=0.01)
    t0 = loop.now()
    ran = []        # (id, time)
    sched = {}      # id -> (deadline, rounded, seq, cancelled_at or None)
    cancels = {}
    seq = 0
    for step in range(steps):
        r = rng.random()
        if r < 0.45:
            seq += 1; i = seq
            d = loop.now() + rng.choice([-0.02, 0, 0.003, 0.01, 0.015, 0.02, 0.05, 0.1, 0.1, 0.3])
            d = round(d, 3)
            rd = math.ceil(round(d * 1000) / 10) * 10 / 1000.0
            sched[i] = [d, rd, i, None]
            cancels[i] = q.Schedule(d, (lambda i=i: ran.append((i, loop.now()))))
        elif r < 0.6 and sched:
            i = rng.choice(list(sched))
            if sched[i][3] is None:
                sched[i][3] = loop.now(); cancels[i]()
        elif r < 0.8:
            gevent.sleep(0)
        else:
            gevent.sleep(rng.choice([0.001, 0.005, 0.01, 0.02, 0.1]))
    gevent.sleep(1.0)
    # oracle
    ran_ids = [i for i, _ in ran]
    if len(set(ran_ids)) != len(ran_ids): return 'dup'
    rt = dict(ran)
    for i, (d, rd, s, c) in sched.items():
        if i in rt:
            if rt[i] < d - 1e-9: return 'early %s' % ((i, d, rt[i]),)
            if c is not None and c < rd - 1e-9 and c <= rt[i] - 1e-9: return 'ran though cancelled %s' % ((i, d, rd, c, rt[i]),)
            if rt[i] > max(rd, 0) + 1e-9 and rt[i] > rd + 1e-9:
                # late: allowed only if scheduled in the past
                pass
        else:
            if c is None: return 'never ran %s' % ((i, d),)
    # order: by (rounded, seq) among pending at run time
    for k in range(len(ran) - 1):
        a, b = ran[k][0], ran[k+1][0]
        ka, kb = (sched[a][1], a), (sched[b][1], b)
        # b must not have smaller key if it was already scheduled when a ran... approx: both scheduled before a ran
    # lateness check: each ran at time == max(rd, schedule time) approx -> need schedule time; skip
    q._worker.kill(block=False); q.__class__.__del__ = lambda self: None
    return None
bad = [(s, r) for s in range(2000) for r in [run(s)] if r]
print(len(bad), bad[:5])
