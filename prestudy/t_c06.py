from common import *
import random
from scales.loadbalancer.aperture import ApertureBalancerSink
from scales.constants import SinkProperties, ChannelState, MessageProperties
from scales.message import Message
from test.scales.util.mocks import MockSinkProvider, MockServerSetProvider, MockSinkStack, MockSink
def run(seed, steps=300, min_size=1, max_size=3, n0=6):
    rng = random.Random(seed); random.seed(seed)
    ss = MockServerSetProvider()
    for p in range(n0): ss.AddServer('h', 8000 + p)
    props = ApertureBalancerSink.Builder._defaults.copy()
    props.update(server_set_provider=ss, min_size=min_size, max_size=max_size, jitter_min_sec=0, jitter_max_sec=0)
    sink = ApertureBalancerSink(MockSinkProvider(), ApertureBalancerSink.Builder.PARAMS_CLASS(**props), {SinkProperties.Label: 'mock'})
    sink.Open().wait(); sink.WaitForOpenComplete()
    inflight = []; sizes = set(); maxseen = 0; minseen = 99
    target = rng.choice([1, 4, 8, 20])
    for step in range(steps):
        if step % 100 == 0: target = rng.choice([0, 1, 4, 8, 20])
        if len(inflight) < target:
            st = MockSinkStack(); st.Push(MockSink({SinkProperties.Endpoint: None}))
            sink.AsyncProcessRequest(st, Message(), None, None); inflight.append(st)
        elif inflight:
            inflight.pop(rng.randrange(len(inflight))).AsyncProcessResponseMessage(object())
        gevent.sleep(rng.choice([0.01, 0.1, 0.5]))
        sz = sink._size
        maxseen = max(maxseen, sz); minseen = min(minseen, sz)
        if sz > max_size: return ('above max', seed, step, sz)
        if sz < min(min_size, n0): return ('below min', seed, step, sz)
    return ('ok', minseen, maxseen)
import collections
res = [run(s) for s in range(300)]
print(collections.Counter(r[0] for r in res), collections.Counter((r[1], r[2]) for r in res if r[0] == 'ok').most_common(5))
print([r for r in res if r[0] != 'ok'][:3])
