from common import *
from scales.asynchronous import AsyncResult
a = AsyncResult(); b = AsyncResult()
a.set_exception(Exception('a failed'))   # already failed at call time
r = AsyncResult.WhenAny([a, b])
b.set('vb'); gevent.sleep(0)
print('WhenAny([failed, pending->ok]):', r.ready(), r.exception, r.value)
a = AsyncResult(); b = AsyncResult()
r = AsyncResult.WhenAny([a, b])
a.set('va'); gevent.sleep(0); print('after a ok:', r.ready(), r.value, r.exception)
b.set_exception(Exception('b failed')); gevent.sleep(0); print('after b fails last:', r.ready(), r.value, r.exception)
r = AsyncResult.WhenAll([]); gevent.sleep(0); print('WhenAll([]) ready:', r.ready())
# float rounding in Schedule
import math, random
bad = 0; worst = 0
for i in range(200000):
    d = 1.7e9 + random.randrange(0, 10**7) / 1000.0
    r_ = int(math.ceil(float(d) / 0.01)) * 0.01
    if r_ < d: bad += 1; worst = max(worst, d - r_)
print('rounded < deadline cases:', bad, 'worst', worst)
