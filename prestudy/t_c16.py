from common import *
from scales.pool.singleton import SingletonPoolSink
from scales.sink import RefCountedSink, SharedSinkProvider, ClientMessageSinkStack
from scales.constants import SinkProperties, ChannelState
from scales.loadbalancer.zookeeper import Endpoint
from scales.message import Message
from test.scales.util.mocks import MockSinkProvider, MockSink
props = {SinkProperties.Label: 'm', SinkProperties.Endpoint: Endpoint('h', 1), 'open_delay': 2.0}
prov = MockSinkProvider()
sp = SingletonPoolSink(prov, None, props)
got = []
prov.ProcessRequest = lambda ss, m, s, h: got.append(m)
def req():
    st = ClientMessageSinkStack(); st.Push(MockSink({SinkProperties.Endpoint: None}))
    sp.AsyncProcessRequest(st, Message(), None, None)
# two concurrent first requests while the single sink is opening
g1 = gevent.spawn(req); g2 = gevent.spawn(req)
gevent.sleep(5)
print('C16 singleton: sinks created', len(prov.sinks_created), 'requests forwarded', len(got))
prov.sinks_created[0].Fault(); gevent.sleep(0.1)
gevent.spawn(req); gevent.sleep(5)
print('after fault: sinks created', len(prov.sinks_created), 'forwarded', len(got))
# refcounted
class Under(MockSink):
    opens = 0; closes = 0
    def Open(self): Under.opens += 1; return super(Under, self).Open()
    def Close(self): Under.closes += 1; super(Under, self).Close()
u = Under({SinkProperties.Endpoint: None}); r = RefCountedSink(u)
r.Open(); r.Open(); r.Open(); r.Close(); r.Close(); print('rc', Under.opens, Under.closes)
r.Close(); r.Close(); r.Close(); print('rc after surplus closes', Under.opens, Under.closes)
r.Open(); print('rc reopen', Under.opens, Under.closes)
# C18 fraction percentile
from fractions import Fraction as F
from scales.varz import VarzAggregator
vals = sorted(F(x) for x in [5, 1, 9, 3, 3, 7])
print('C18', [VarzAggregator.CalculatePercentile(vals, F(p, 10000)) for p in (5000, 9000, 9900, 9990, 9999)])
