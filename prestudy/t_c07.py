from common import *
from scales.pool.watermark import WatermarkPoolSink
from scales.sink import ClientMessageSinkStack, ClientTimeoutSink, TimeoutSinkProvider
from scales.constants import SinkProperties
from scales.loadbalancer.zookeeper import Endpoint
from scales.message import Message, MethodReturnMessage, Deadline
from test.scales.util.mocks import MockSinkProvider, MockSink
from scales.dispatch import MessageDispatcher

# Stack: TimeoutSink -> WatermarkPool(max=1) -> MockSink
prov = MockSinkProvider()
pool_provider = WatermarkPoolSink.Builder(max_watermark=1, min_watermark=1)
pool_provider.next_provider = prov
tsp = TimeoutSinkProvider(); tsp.next_provider = pool_provider
props = {SinkProperties.Label: 'mock', SinkProperties.Endpoint: Endpoint('h', 1)}
top = tsp.CreateSink(props)
pool = top.next_sink
pool.Open().wait()
inflight = []
prov_sinks = prov.sinks_created
def process_request(sink_stack, msg, stream, headers):
    inflight.append(sink_stack)
for s in prov_sinks: s.ProcessRequest = process_request
prov.ProcessRequest = process_request
t0 = loop.now()
def call(timeout):
    m = Message()
    ar = MessageDispatcher.StaticDispatchMessage(top, None, t0, (loop.now() + timeout) if timeout else None, m)
    return ar
a = call(None)      # takes the only connection
b = call(1.0)       # queued, times out at +1s
c = call(None)      # queued behind b
gevent.sleep(2.0)
print('after 2s: a', a.ready(), 'b', b.ready(), b.exception, 'c', c.ready(), 'waiters', len(pool._waiters), 'size', pool._current_size)
# now a completes
inflight[0].AsyncProcessResponseMessage(MethodReturnMessage('ra'))
gevent.sleep(1.0)
print('after a done: a', a.ready(), 'c ready', c.ready(), 'inflight', len(inflight), 'waiters', len(pool._waiters), 'size', pool._current_size, 'cache', len(pool._cache))
d = call(None)
gevent.sleep(1.0)
print('new call d reached a connection?', len(inflight), 'waiters', len(pool._waiters))
