from muxsrv import *
from scales.thriftmux import ThriftMux
s1 = NET.server('h1', 9001)
reqlog = []; t0 = loop.now()
s1.on_connect = mux_server_on_connect(reqlog, t0)
client = ThriftMux.NewBuilder(Hello.Iface).SetUri('tcp://h1:9001').SetTimeout(5).Build()
print(client.hi('a'))
conn = s1.conns[0]
# peer sends an Rdispatch-typed frame on reserved tag 1 and on tag 0 and unknown tag 77
for tag in (1, 77):
    conn.feed(pack('!ibBBB', 4 + 3, -2, 0, 0, tag) + pack('!bh', 0, 0))
gevent.sleep(0.1)
for i in range(3):
    try: client.hi('b%d' % i)
    except Exception as e: print('err', type(e).__name__)
print('dispatch tags used:', [r[3] for r in reqlog if r[2] == 2])
# C20 collision
from scales.core import ClientProxyBuilder
class I(object):
    def foo(self, a): pass
    def foo_async(self, a): pass
P = ClientProxyBuilder.CreateServiceClient(I)
calls = []
class D(object):
    def DispatchMethodCall(self, m, a, k):
        calls.append((m, a, k)); 
        from scales.asynchronous import AsyncResult
        return AsyncResult.FromValue(1)
    def Close(self): pass
p = P(D()); p.foo_async(1)
print('C20 calling foo_async(1) dispatched:', calls)
