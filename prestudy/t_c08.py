from common import *
from scales.thrift.sink import SocketTransportSink
from scales.varz import VarzSocketWrapper
from scales.sink import ClientMessageSinkStack
from scales.message import Message, Deadline
from scales.compat import BytesIO
from scales.constants import ChannelState
from test.scales.util.mocks import MockSink
from scales.constants import SinkProperties

srv = NET.server('h', 1)
sock = VarzSocketWrapper(fakenet.FakeScalesSocket('h', 1), 'svc')
sink = SocketTransportSink(sock, 'svc')
sink.Open().get()
faults = []
sink.on_faulted.Subscribe(lambda v: faults.append(v))
got = []
def mkstack():
    st = ClientMessageSinkStack()
    term = MockSink({SinkProperties.Endpoint: None})
    term.ProcessResponse = lambda ss, ctx, stream, msg: got.append(msg)
    st.Push(term); return st
m = Message(); m.properties[Deadline.KEY] = loop.now() + 1.0
sink.AsyncProcessRequest(mkstack(), m, BytesIO(b'req1'), {})
gevent.sleep(0.5)
srv.reachable = False      # server goes away while request outstanding; reconnect after timeout will be refused
gevent.sleep(1.0)
print('responses:', [(type(g.error).__name__ if g is not None and getattr(g,'error',None) else g) for g in got])
print('state:', sink.state, '(Open=2, Closed=4)', 'faults:', faults, 'processing:', sink._processing)
srv.reachable = True
m2 = Message()
sink.AsyncProcessRequest(mkstack(), m2, BytesIO(b'req2'), {})
gevent.sleep(1.0)
print('responses:', [(type(g.error).__name__ if g is not None and getattr(g,'error',None) else g) for g in got])
print('written to server:', [c.written for c in srv.conns])
