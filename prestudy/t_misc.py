from common import *
from scales.compat import BytesIO
# C13: non-ascii context
from scales.thriftmux.serializer import MessageSerializer
from scales.thriftmux.sink import ThriftMuxMessageSerializerSink, SocketTransportSink as MuxT
from scales.message import MethodCallMessage
m = MethodCallMessage(Hello.Iface, 'hi', ('x',), {})
m.properties['kéy'] = 'väl€'
buf = BytesIO(); h = {}
try:
    MessageSerializer(Hello.Iface).Marshal(m, buf, h)
    print('C13 ctx bytes:', buf.getvalue()[:30])
except Exception as e: print('C13 marshal raised', repr(e))
# header inversion for 127
t = MuxT.__new__(MuxT)
for typ in (-2, -65, -128, 127, 2, 66, 65, -62):
    hdr = MuxT._BuildHeader(t, 0x123456, typ, 0)
    print('C13 hdr', typ, '->', ThriftMuxMessageSerializerSink.ReadHeader(BytesIO(hdr[4:])))
# C15
from scales.kafka.sink import KafkaTransportSink
k = KafkaTransportSink.__new__(KafkaTransportSink)
try: print('C15', KafkaTransportSink._BuildHeader(k, 5, 0, 10))
except Exception as e: print('C15 _BuildHeader raised', repr(e))
# C18
from scales.varz import Source
print('C18 equal sources equal?', Source('m','s','e') == Source('m','s','e'), len({Source('m','s','e'):1, Source('m','s','e'):2}))
# C14 void
from thrift.Thrift import TType, TMessageType
import types, sys as _s
mod = types.ModuleType('voidsvc')
class Iface(object):
    def ping(self): pass
class ping_args(object):
    thrift_spec = ()
    def write(self, oprot): oprot.writeStructBegin('ping_args'); oprot.writeFieldStop(); oprot.writeStructEnd()
class ping_result(object):
    thrift_spec = ()
    def read(self, iprot):
        iprot.readStructBegin()
        while True:
            (fname, ftype, fid) = iprot.readFieldBegin()
            if ftype == TType.STOP: break
            iprot.skip(ftype); iprot.readFieldEnd()
        iprot.readStructEnd()
Iface.__module__ = 'voidsvc'
mod.Iface, mod.ping_args, mod.ping_result = Iface, ping_args, ping_result
_s.modules['voidsvc'] = mod
from scales.thrift.serializer import MessageSerializer as TS
from thrift.protocol.TBinaryProtocol import TBinaryProtocol
tb = TMemoryBuffer(); p = TBinaryProtocol(tb)
p.writeMessageBegin('ping', TMessageType.REPLY, 0); p.writeStructBegin('ping_result'); p.writeFieldStop(); p.writeStructEnd(); p.writeMessageEnd()
r = TS(Iface).DeserializeThriftCall(BytesIO(tb.getvalue()))
print('C14 void: return_value=', repr(r.return_value), 'error=', r.error)
