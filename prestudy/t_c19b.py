from common import *
from fakezk import *
from scales.loadbalancer.zookeeper import ServerSet
class SlowZk(FakeZk):
    def get(self, path, watch=None):
        if path not in self.tree: raise NoNodeError()
        r = FakeZk.get(self, path, watch)      # the read is served ...
        gevent.sleep(0.5)                      # ... and the answer takes a while to arrive
        return r
zk = SlowZk(); zk.start()
zk.t_create('/svc')
view = set(); log = []
def on_join(m): log.append(('join', m.name)); view.add(m.name)
def on_leave(m): log.append(('leave', m.name)); view.discard(m.name)
ss = ServerSet(zk, '/svc', on_join, on_leave)
gevent.sleep(2)
zk.t_create('/svc/member_0', member_data('h', 9000))
gevent.sleep(0.2)            # worker is now reading member_0's data
zk.t_delete('/svc')          # parent (and the member) vanish while the read is in flight
gevent.sleep(5)
print('view', sorted(view), 'actual', sorted(zk._children('/svc')) if '/svc' in zk.tree else [], 'log', log)
