from common import *
import sys
from scales.thrift import Thrift
from scales.thriftmux import ThriftMux
which = sys.argv[1]
s1 = NET.server('h1', 9001); s2 = NET.server('h2', 9002)
reqlog = []
def on_connect_thrift(conn):
    def on_write(c, data):
        reqlog.append((loop.now() - t0, c.server.host))
        c.feed(thrift_reply_for(data[4:]))
    conn.on_write = on_write
s1.on_connect = on_connect_thrift; s2.on_connect = on_connect_thrift
s1.reachable = False     # unreachable at first connect
t0 = loop.now()
if which == 'thrift':
    b = Thrift.NewBuilder(Hello.Iface)
    client = b.SetUri('tcp://h1:9001').SetTimeout(5).Build()
else:
    raise SystemExit
errs = []
def traffic(dur, n=2):
    end = loop.now() + dur
    while loop.now() < end:
        for i in range(n):
            try: client.hi('x')
            except Exception as e: errs.append((round(loop.now() - t0, 2), type(e).__name__))
        gevent.sleep(0.5)
traffic(20)
print('phase1 (h1 down): reqs by host', {h: sum(1 for _, x in reqlog if x == h) for h in ('h1', 'h2')}, 'errs', errs[:6], len(errs))
print('h1 connect attempts at', [round(t - t0, 2) for t in s1.connect_attempts])
s1.reachable = True
t1 = loop.now() - t0
n_before = len(reqlog)
traffic(200)
print('h1 reachable from t=%.1f; reqs after: ' % t1, {h: sum(1 for _, x in reqlog[n_before:] if x == h) for h in ('h1', 'h2')})
print('h1 connect attempts at', [round(t - t0, 2) for t in s1.connect_attempts])
print('errs', len(errs), errs[-3:])
