from common import *
from scales.loadbalancer.aperture import ApertureBalancerSink
from scales.loadbalancer.heap import HeapBalancerSink
from scales.loadbalancer.serverset import ServerSetProvider
from scales.core import ScalesUriParser
from scales.constants import SinkProperties
from test.scales.util.mocks import MockSinkProvider
def S(p): return ScalesUriParser.Server(ScalesUriParser.Endpoint('h', p))
class SlowSS(ServerSetProvider):
    def __init__(self): self.servers = [S(1), S(2), S(3)]
    def Initialize(self, on_join, on_leave): self.on_join, self.on_leave = on_join, on_leave
    def Close(self): pass
    def GetServers(self):
        snap = list(self.servers)
        gevent.sleep(2.0)      # loading takes 2s; notifications arrive meanwhile
        return snap
for cls in (HeapBalancerSink, ApertureBalancerSink):
    ss = SlowSS()
    props = cls.Builder._defaults.copy(); props['server_set_provider'] = ss
    if cls is ApertureBalancerSink: props.update(jitter_min_sec=0, jitter_max_sec=0, min_size=2)
    sink = cls(MockSinkProvider(), cls.Builder.PARAMS_CLASS(**props), {SinkProperties.Label: 'm'})
    sink.Open()
    gevent.sleep(0.5)
    # during load: 2 leaves, 4 joins, then 4 leaves again  (serial delivery, as a server set does)
    def deliver():
        ss.servers = [S(1), S(3), S(4)]
        ss.on_leave(S(2)); ss.on_join(S(4)); ss.on_join(S(4)); ss.on_leave(S(4)); ss.on_leave(S(9))
        ss.servers = [S(1), S(3)]
    gevent.spawn(deliver)
    gevent.sleep(5)
    heap_eps = sorted(str(n.endpoint) for n in sink._heap[1:])
    idle = sorted(str(e) for e in getattr(sink, '_idle_endpoints', []))
    print(cls.__name__, 'heap', heap_eps, 'idle', idle, 'servers', sorted(str(e) for e in sink._servers))
