# Is least-loaded violated after remove / idle put? Drive HeapBalancerSink directly with mock sinks.
import sys, os
sys.path.insert(0, os.path.dirname(os.path.abspath(__file__))); sys.path.insert(0, os.environ.get('REPO','/repo'))
os.environ['GEVENT_LOOP'] = 'vloop.VLoop'
import vloop, gevent, random, time
from gevent import get_hub
loop = get_hub().loop
time.time = loop.now
from scales.loadbalancer.heap import HeapBalancerSink
from scales.constants import SinkProperties, ChannelState, MessageProperties
from scales.message import Message
from test.scales.util.mocks import MockSinkProvider, MockServerSetProvider, MockSinkStack, MockSink

def run(seed, n=7, steps=60, with_remove=True):
    rng = random.Random(seed)
    random.seed(seed)
    ss = MockServerSetProvider()
    for p in range(n): ss.AddServer('h', 8000 + p)
    props = HeapBalancerSink.Builder._defaults.copy(); props['server_set_provider'] = ss
    sp = HeapBalancerSink.Builder.PARAMS_CLASS(**props)
    prov = MockSinkProvider()
    sink = HeapBalancerSink(prov, sp, {SinkProperties.Label: 'mock'})
    sink.Open().wait(); sink.WaitForOpenComplete()
    outstanding = {}   # endpoint -> count
    members = set(str(m.service_endpoint) for m in ss.GetServers())
    inflight = []
    trace = []
    for step in range(steps):
        r = rng.random()
        if r < 0.5 or not inflight:
            stack = MockSinkStack()
            term = MockSink({SinkProperties.Endpoint: None}); stack.Push(term)
            msg = Message()
            sink.AsyncProcessRequest(stack, msg, None, None)
            ep = msg.properties.get(MessageProperties.Endpoint)
            trace.append(('get', str(ep)))
            if ep is None: continue
            ep = str(ep)
            cur = {e: outstanding.get(e, 0) for e in members}
            mn = min(cur.values())
            if cur.get(ep) != mn:
                return ('VIOL', seed, step, trace, cur, ep)
            outstanding[ep] = outstanding.get(ep, 0) + 1
            inflight.append((stack, ep))
        elif r < 0.9:
            i = rng.randrange(len(inflight))
            stack, ep = inflight.pop(i)
            stack.AsyncProcessResponseMessage(object())
            outstanding[ep] -= 1
            trace.append(('put', ep))
        elif with_remove and len(members) > 2:
            ep = rng.choice(sorted(members))
            h, p = ep.split(':')
            ss.RemoveServer(h, int(p)); members.discard(ep)
            trace.append(('remove', ep))
    return None

for wr in (False, True):
    bad = 0; first = None
    for seed in range(3000):
        r = run(seed, with_remove=wr)
        if r: 
            bad += 1
            if first is None or len(r[3]) < len(first[3]): first = r
    print('with_remove', wr, 'violations', bad)
    if first: print(first[1], first[2], first[4], first[5]); print(first[3])
