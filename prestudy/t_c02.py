from common import *
from scales.thrift import Thrift
s1 = NET.server('h1', 9001)
t0 = loop.now()
pending = []
def on_connect(conn):
    def on_write(c, data):
        pending.append((c, data))
    conn.on_write = on_write
s1.on_connect = on_connect
gevent.sleep(0.0037)
client = Thrift.NewBuilder(Hello.Iface).SetUri('tcp://h1:9001').SetTimeout(1).Build()
res = {}
def call(arg):
    try: res[arg] = client.hi(arg)
    except Exception as e: res[arg] = type(e).__name__
g1 = gevent.spawn(call, 'first')
gevent.sleep(2)           # first times out (server silent)
print('first:', res, 'conns', len(s1.conns), 'closed?', [c.closed_by_client for c in s1.conns])
# the server now answers the first request late, on the connection it came from
c, data = pending[0]
c.feed(thrift_reply_for(data[4:], lambda s: 'LATE-reply-to:' + s))
g2 = gevent.spawn(call, 'second')
gevent.sleep(0.2)
# answer the second properly on whichever connection it arrived
for c, data in pending[1:]:
    c.feed(thrift_reply_for(data[4:], lambda s: 'reply-to:' + s))
gevent.sleep(2)
print(res)
