from common import *
from fakezk import *
from scales.loadbalancer.zookeeper import ServerSet
zk = FakeZk(); zk.start()
zk.t_create('/svc')
for i in range(3): zk.t_create('/svc/member_%d' % i, member_data('h', 9000 + i))
view = set(); log = []
def on_join(m): log.append(('join', m.name)); view.add(m.name)
def on_leave(m): log.append(('leave', m.name)); view.discard(m.name)
ss = ServerSet(zk, '/svc', on_join, on_leave)
gevent.sleep(1)
print('initial view', sorted(view))
zk.t_delete('/svc/member_1'); gevent.sleep(1)
zk.t_create('/svc/member_7', member_data('h', 9007)); gevent.sleep(1)
print('view', sorted(view), 'actual', sorted(zk._children('/svc')))
zk.t_delete('/svc'); gevent.sleep(1)
print('after parent delete: view', sorted(view), 'actual', [], 'log tail', log[-4:])
zk.t_create('/svc'); 
zk.t_create('/svc/member_0', member_data('h', 9000)); zk.t_create('/svc/member_9', member_data('h', 9009)); gevent.sleep(1)
print('after re-create: view', sorted(view), 'actual', sorted(zk._children('/svc')))
