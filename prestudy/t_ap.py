from common import *
import random
from scales.loadbalancer.aperture import ApertureBalancerSink
from scales.loadbalancer.heap import HeapBalancerSink
from scales.constants import SinkProperties, ChannelState, MessageProperties
from scales.message import Message
from test.scales.util.mocks import MockSinkProvider, MockServerSetProvider, MockSinkStack, MockSink

def run(seed, steps=80, min_size=2, max_size=4, n0=5):
    rng = random.Random(seed); random.seed(seed)
    ss = MockServerSetProvider()
    for p in range(n0): ss.AddServer('h', 8000 + p)
    props = ApertureBalancerSink.Builder._defaults.copy()
    props.update(server_set_provider=ss, min_size=min_size, max_size=max_size, jitter_min_sec=0, jitter_max_sec=0)
    sp = ApertureBalancerSink.Builder.PARAMS_CLASS(**props)
    prov = MockSinkProvider()
    sink = ApertureBalancerSink(prov, sp, {SinkProperties.Label: 'mock'})
    sink.Open().wait(); sink.WaitForOpenComplete()
    members = set(str(m.service_endpoint) for m in ss.GetServers())
    inflight = []; trace = []; nextport = 8000 + n0
    outstanding = {}
    closed_log = []
    def check(tag):
        heap_eps = [str(n.endpoint) for n in sink._heap[1:]]
        idle = set(str(e) for e in sink._idle_endpoints)
        if len(set(heap_eps)) != len(heap_eps): return 'dup in heap %s' % heap_eps
        if set(heap_eps) & idle: return 'overlap %s %s' % (heap_eps, idle)
        if set(heap_eps) | idle != members: return 'partition != members: heap=%s idle=%s members=%s' % (heap_eps, sorted(idle), sorted(members))
        if len(heap_eps) < min(min_size, len(members)): return 'below min: %s' % heap_eps
        for n in sink._heap[1:]:
            ld = n.load - sink.Idle if n.load < 0 else n.load
            if ld != outstanding.get(id(n), 0): return 'load mismatch %s %s %s' % (n.endpoint, ld, outstanding.get(id(n), 0))
        return None
    for step in range(steps):
        r = rng.random()
        if r < 0.4 or not inflight:
            stack = MockSinkStack(); term = MockSink({SinkProperties.Endpoint: None}); stack.Push(term)
            msg = Message()
            # find which node got it: compare loads before/after
            before = {id(n): n.load for n in sink._heap[1:]}
            nodes_before = {id(n): n for n in sink._heap[1:]}
            sink.AsyncProcessRequest(stack, msg, None, None)
            ep = msg.properties.get(MessageProperties.Endpoint)
            trace.append(('get', str(ep)))
            if ep is not None:
                # node object: find by endpoint among before-nodes (may have been removed by contraction)
                cand = [n for n in nodes_before.values() if str(n.endpoint) == str(ep)] + [n for n in sink._heap[1:] if str(n.endpoint) == str(ep)]
                node = cand[0]
                if not stack.processed_response:
                    outstanding[id(node)] = outstanding.get(id(node), 0) + 1
                    inflight.append((stack, node))
        elif r < 0.7:
            i = rng.randrange(len(inflight)); stack, node = inflight.pop(i)
            stack.AsyncProcessResponseMessage(object()); outstanding[id(node)] -= 1
            trace.append(('put', str(node.endpoint)))
        elif r < 0.8 and len(members) > 1:
            ep = rng.choice(sorted(members)); h, p = ep.split(':')
            ss.RemoveServer(h, int(p)); members.discard(ep); trace.append(('leave', ep))
        elif r < 0.9:
            ss.AddServer('h', nextport); members.add('h:%d' % nextport); trace.append(('join', nextport)); nextport += 1
        elif r < 0.95:
            # fault a random active node's channel
            ns = sink._heap[1:]
            if ns:
                n = rng.choice(ns); n.channel.state = ChannelState.Closed; trace.append(('down', str(n.endpoint)))
        else:
            ns = [n for n in sink._heap[1:] if n.channel.state == ChannelState.Closed]
            if ns:
                n = rng.choice(ns); n.channel.state = ChannelState.Open; trace.append(('up', str(n.endpoint)))
        gevent.sleep(rng.choice([0, 0, 0.5, 3]))
        e = check(step)
        if e: return (seed, step, e, trace)
    return None
bad = []
for seed in range(1500):
    r = run(seed)
    if r: bad.append(r)
print('violations', len(bad))
import collections
print(collections.Counter(b[2].split(':')[0].split(' ')[0] for b in bad))
for b in sorted(bad, key=lambda b: len(b[3]))[:3]: print(b)
