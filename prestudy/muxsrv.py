from common import *
from struct import pack, unpack
def mux_server_on_connect(reqlog, t0, reply=True):
    def on_connect(conn):
        buf = bytearray()
        def on_write(c, data):
            buf.extend(data)
            while len(buf) >= 4:
                sz, = unpack('!i', bytes(buf[:4]))
                if len(buf) < 4 + sz: break
                frame = bytes(buf[4:4+sz]); del buf[:4+sz]
                typ, = unpack('!b', frame[:1]); tag = int.from_bytes(frame[1:4], 'big')
                body = frame[4:]
                reqlog.append((round(loop.now() - t0, 3), c.server.host, typ, tag))
                if typ == 65:   # Tping
                    c.feed(pack('!ibBBB', 4, -65, *[tag >> 16 & 255, tag >> 8 & 255, tag & 255]))
                elif typ == 2 and reply:
                    # parse contexts
                    off = 0
                    nctx, = unpack('!h', body[off:off+2]); off += 2
                    for _ in range(nctx):
                        kl, = unpack('!h', body[off:off+2]); off += 2 + kl
                        vl, = unpack('!h', body[off:off+2]); off += 2 + vl
                    dl, = unpack('!h', body[off:off+2]); off += 2 + dl
                    nd, = unpack('!h', body[off:off+2]); off += 2
                    payload = body[off:]
                    rep = thrift_reply_for(payload)[4:]
                    rbody = pack('!bh', 0, 0) + rep
                    c.feed(pack('!ibBBB', 4 + len(rbody), -2, tag >> 16 & 255, tag >> 8 & 255, tag & 255) + rbody)
        conn.on_write = on_write
    return on_connect
