import sys, os
REPO = os.environ.get('REPO', '/repo')
HERE = os.path.dirname(os.path.abspath(__file__)); sys.path.insert(0, HERE); sys.path.insert(0, REPO)
os.environ['GEVENT_LOOP'] = 'vloop.VLoop'
import vloop, gevent, time
from gevent import get_hub
loop = get_hub().loop
assert type(loop).__name__ == 'VLoop'
time.time = loop.now
import fakenet; fakenet.install()
from fakenet import NET
import scales
assert scales.__path__[0].startswith(REPO), scales.__path__
import logging
logging.basicConfig(level=os.environ.get('LOGLEVEL', 'CRITICAL'))
from struct import pack, unpack
from thrift.protocol.TBinaryProtocol import TBinaryProtocol
from thrift.transport.TTransport import TMemoryBuffer
from test.scales.thrift.gen_py.hello import Hello

def thrift_reply_for(frame_payload, fn=lambda s: 'echo:' + s):
    """decode a Hello.hi call and build reply bytes (framed)."""
    class H(object):
        def hi(self, x): return fn(x)
    proc = Hello.Processor(H())
    itr = TMemoryBuffer(frame_payload); otr = TMemoryBuffer()
    proc.process(TBinaryProtocol(itr), TBinaryProtocol(otr))
    out = otr.getvalue()
    return pack('!i', len(out)) + out
