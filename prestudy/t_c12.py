from muxsrv import *
from scales.thriftmux import ThriftMux
from scales.message import TimeoutError
s1 = NET.server('h1', 9001)
reqlog = []; t0 = loop.now() + 0.0037
gevent.sleep(0.0037)
s1.on_connect = mux_server_on_connect(reqlog, t0, reply=False)   # never replies to dispatches
client = ThriftMux.NewBuilder(Hello.Iface).SetUri('tcp://h1:9001').SetTimeout(1).Build()
done = []
def call(arg):
    t = loop.now()
    try: client.hi(arg); done.append((arg, 'ok', loop.now() - t))
    except Exception as e: done.append((arg, type(e).__name__, round(loop.now() - t, 4)))
gs = [gevent.spawn(call, 'a%d' % i) for i in range(3)]
gevent.sleep(3)
print(done)
print([(r[0], r[2], r[3]) for r in reqlog])
conn = s1.conns[0]
print('frames:', [(round(t - t0, 4), d[:12]) for t, d in conn.written][-4:])
