from muxsrv import *
import sys
from scales.thriftmux.sink import SocketTransportSink as MuxT
from scales.varz import VarzSocketWrapper
from scales.sink import ClientMessageSinkStack
from scales.message import MethodCallMessage, Deadline
from scales.constants import SinkProperties, TransportHeaders
from scales.compat import BytesIO
from test.scales.util.mocks import MockSink
import socket as _s
for fault in ('eof', 'read_error', 'write_error', 'ping_silence'):
    NET.servers.clear()
    srv = NET.server('h', 1); reqlog = []; t0 = loop.now()
    srv.on_connect = mux_server_on_connect(reqlog, t0, reply=False)
    sock = VarzSocketWrapper(fakenet.FakeScalesSocket('h', 1), 'svc')
    t = MuxT(sock, 'svc'); t.Open().get()
    faults = []; t.on_faulted.Subscribe(lambda v: faults.append(type(v).__name__))
    got = {}
    def mk(i):
        st = ClientMessageSinkStack(); term = MockSink({SinkProperties.Endpoint: None})
        term.ProcessResponse = lambda ss, ctx, stream, msg, i=i: got.setdefault(i, []).append(type(msg.error).__name__ if msg is not None and msg.error else 'stream')
        st.Push(term); return st
    for i in range(3):
        m = MethodCallMessage(None, 'hi', (), {})
        b = BytesIO(b'payload%d' % i); b.seek(0, 2)
        t.AsyncProcessRequest(mk(i), m, b, {TransportHeaders.MessageType: 2})
    gevent.sleep(0.1)
    conn = srv.conns[0]
    if fault == 'eof': conn.server_close()
    elif fault == 'read_error': conn.inject_read_error(_s.error('boom'))
    elif fault == 'write_error':
        conn.write_error = _s.error('wboom')
        m = MethodCallMessage(None, 'hi', (), {}); b = BytesIO(b'x'); b.seek(0, 2)
        t.AsyncProcessRequest(mk(3), m, b, {TransportHeaders.MessageType: 2})
    elif fault == 'ping_silence':
        conn.on_write = None       # peer stops answering anything
        gevent.sleep(50)
    gevent.sleep(1)
    print(fault, 'responses', got, 'state', t.state, 'faults', faults, 'tag_map', len(t._tag_map))
