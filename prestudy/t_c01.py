from common import *
from scales.thrift import Thrift
from scales.message import TimeoutError
# server: s1 connect takes 3 seconds (delayed), never replies
srv = NET.server('h1', 9001)
# make connect slow: emulate by on open sleeping
orig_open = fakenet.FakeScalesSocket.open
def slow_open(self):
    gevent.sleep(float(os.environ.get("OPEN_DELAY", "3")))
    return orig_open(self)
fakenet.FakeScalesSocket.open = slow_open
t0 = loop.now()
client = Thrift.NewBuilder(Hello.Iface).SetUri('tcp://h1:9001').SetTimeout(10).SetOpenTimeout(0).Build()
ar = client.hi_async('x')    # issued at t0, before open completes
res = []
def waiter():
    try: ar.get()
    except Exception as e: res.append((type(e).__name__, loop.now() - t0))
gevent.spawn(waiter)
gevent.sleep(30)
print('call issued at 0 with T=10; open took 3s; completion:', res)
