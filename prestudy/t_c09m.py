from muxsrv import *
from scales.thriftmux import ThriftMux
s1 = NET.server('h1', 9001)
reqlog = []
t0 = loop.now()
s1.on_connect = mux_server_on_connect(reqlog, t0)
s1.reachable = False
client = ThriftMux.NewBuilder(Hello.Iface).SetUri('tcp://h1:9001').SetTimeout(5).Build()
errs = []
def traffic(dur, n=2):
    end = loop.now() + dur
    while loop.now() < end:
        for i in range(n):
            try: client.hi('x')
            except Exception as e: errs.append((round(loop.now() - t0, 2), type(e).__name__, str(e)[:40]))
        gevent.sleep(0.5)
traffic(100)
import collections
print('phase1 errs', collections.Counter(e[1] + ':' + e[2] for e in errs))
print('h1 connect attempts at', [round(t - t0, 2) for t in s1.connect_attempts])
s1.reachable = True
t1 = loop.now() - t0; n0 = len(reqlog)
traffic(100)
d = [r for r in reqlog[n0:] if r[2] == 2]
print('reachable at', t1, 'first dispatch at', d[0] if d else None, 'count', len(d))
print('h1 connect attempts at', [round(t - t0, 2) for t in s1.connect_attempts])
client.DispatcherClose()
n = len(s1.connect_attempts)
s1.reachable = False
gevent.sleep(300)
print('connects after close:', len(s1.connect_attempts) - n)
