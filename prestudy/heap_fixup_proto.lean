namespace Proto

def swap (h : Array Int) (i j : Nat) : Array Int :=
  if hi : i < h.size then
    if hj : j < h.size then (h.set i h[j]).set j h[i] (by simp; exact hj) else h
  else h

@[simp] theorem swap_size (h : Array Int) (i j : Nat) : (swap h i j).size = h.size := by
  unfold swap; split
  · split <;> simp
  · rfl

theorem swap_get (h : Array Int) (i j k : Nat) (hi : i < h.size) (hj : j < h.size) :
    (swap h i j)[k]! = if k = j then h[i]! else if k = i then h[j]! else h[k]! := by
  unfold swap
  simp only [hi, hj, dite_true]
  by_cases hk : k < h.size
  · simp [getElem!_pos, hk, hi, hj, Array.getElem_set]
    grind
  · have : k ≠ i := by omega
    have : k ≠ j := by omega
    simp [getElem!_neg, hk, *]

def fixUp (h : Array Int) (i : Nat) : Array Int :=
  if hlt : 1 < i ∧ h[i]! < h[i / 2]! then
    fixUp (swap h i (i / 2)) (i / 2)
  else h
termination_by i
decreasing_by omega

@[simp] theorem fixUp_size (h : Array Int) (i : Nat) : (fixUp h i).size = h.size := by
  fun_induction fixUp h i <;> simp_all

/-- ordered on positions 1..n except that position `x` may be smaller than its parent -/
def OrdEx (h : Array Int) (n x : Nat) : Prop :=
  ∀ i, 2 ≤ i → i ≤ n → i ≠ x → h[i / 2]! ≤ h[i]!

def Ord (h : Array Int) (n : Nat) : Prop :=
  ∀ i, 2 ≤ i → i ≤ n → h[i / 2]! ≤ h[i]!

/-- children of x are ≥ parent of x (so x can move up) -/
def GP (h : Array Int) (n x : Nat) : Prop :=
  ∀ c, c ≤ n → c / 2 = x → 2 ≤ x → h[x / 2]! ≤ h[c]!

theorem fixUp_ord (h : Array Int) (n x : Nat) (hn : n < h.size) (hx : x ≤ n) (hx1 : 1 ≤ x)
    (hO : OrdEx h n x) (hG : GP h n x) : Ord (fixUp h x) n := by
  fun_induction fixUp h x with
  | case1 h i hlt ih =>
    apply ih
    · simp; exact hn
    · omega
    · omega
    · -- OrdEx after swap
      intro k hk2 hkn hkne
      have hi : i < h.size := by omega
      have hp : i / 2 < h.size := by omega
      rw [swap_get h i (i/2) _ hi hp, swap_get h i (i/2) _ hi hp]
      by_cases h1 : k = i
      · subst h1; simp; 
        have : ¬ (k / 2 = k) := by omega
        simp [this]; omega
      · by_cases h2 : k / 2 = i
        · -- k is a child of i : new parent value is old h[i/2], need ≤ h[k]
          have hg := hG k hkn h2 (by omega)
          have hk' : k ≠ i / 2 := by omega
          simp [h1, hk', h2]
          have hne : ¬ (i = i / 2) := by omega
          simp [hne]; exact hg
        · by_cases h3 : k / 2 = i / 2
          · -- sibling of i: parent becomes h[i] < h[i/2] ≤ h[k]
            have := hO k hk2 hkn h1
            have hk' : k ≠ i / 2 := by omega
            simp [h1, hk', h3]
            rw [h3] at this; omega
          · have := hO k hk2 hkn h1
            by_cases h4 : k = i / 2
            · omega
            · simp [h1, h2, h3, h4]; exact this
    · -- GP after swap at i/2
      intro c hcn hc hx2
      have hi : i < h.size := by omega
      have hp : i / 2 < h.size := by omega
      rw [swap_get h i (i/2) _ hi hp, swap_get h i (i/2) _ hi hp]
      have e1 : ¬ (i / 2 / 2 = i / 2) := by omega
      have e2 : ¬ (i / 2 / 2 = i) := by omega
      simp [e1, e2]
      by_cases h1 : c = i
      · subst h1; simp
        have : ¬ (c = c / 2) := by omega
        simp [this]
        have a := hO (c/2) (by omega) (by omega) (by omega)
        exact a
      · have hc2 : c ≠ i / 2 := by omega
        simp [h1, hc2]
        have a := hO c (by omega) hcn h1
        have b := hO (i/2) (by omega) (by omega) (by omega)
        rw [hc] at a; omega
  | case2 h i hlt =>
    intro k hk2 hkn
    by_cases hk : k = i
    · subst hk
      have : ¬ (h[k]! < h[k/2]!) := by
        intro hc; exact hlt ⟨by omega, hc⟩
      omega
    · exact hO k hk2 hkn hk

end Proto
