/-! Prototype: TimerQueue worker as a labelled transition system. -/
namespace TQ

structure Item where
  deadline : Nat
  seq : Nat
  cancelled : Bool
  deriving Repr, DecidableEq

inductive Pc where
  | top            -- about to evaluate `if not self._queue`
  | sleeping0      -- inside gevent.sleep(0) after event.clear()
  | waiting (dl pk wakeAt : Nat)   -- inside event.wait(to_wait)
  | blockedEmpty   -- inside event.wait() with empty queue
  | crashed        -- self._queue[0] on an empty queue
  deriving Repr, DecidableEq

structure St where
  queue : List Item
  ev : Bool
  seq : Nat
  res : Nat
  pc : Pc
  now : Nat
  ran : List (Nat × Nat)
  deriving Repr

def key (i : Item) : Nat × Nat := (i.deadline, i.seq)

def insertSorted (x : Item) : List Item → List Item
  | [] => [x]
  | y :: ys => if x.deadline < y.deadline ∨ (x.deadline = y.deadline ∧ x.seq < y.seq)
               then x :: y :: ys else y :: insertSorted x ys

def ceilTo (r d : Nat) : Nat := if r = 0 then d else ((d + r - 1) / r) * r

def schedule (s : St) (d : Nat) : St :=
  let d' := ceilTo s.res d
  let it : Item := { deadline := d', seq := s.seq + 1, cancelled := false }
  let q := insertSorted it s.queue
  let ev := match q with
    | h :: _ => if h.deadline = d' then true else s.ev
    | [] => s.ev
  { s with queue := q, seq := s.seq + 1, ev := ev }

def cancel (s : St) (sq : Nat) : St :=
  { s with queue := s.queue.map fun i => if i.seq = sq then { i with cancelled := true } else i }

/-- worker code running until it blocks. `atPeek = true`: start at the peek (L2);
    `false`: start at the loop top (L0). fuel = 2 * queue length + 2 suffices. -/
def run : Nat → Bool → St → St
  | 0, _, s => s
  | fuel + 1, true, s =>
    match s.queue with
    | [] => { s with pc := .crashed }
    | h :: rest =>
      if h.cancelled then
        run fuel false { s with queue := rest }
      else if s.now < h.deadline then
        if s.ev then run fuel false s
        else { s with pc := .waiting h.deadline h.seq h.deadline }
      else
        run fuel false { s with queue := rest, ran := (h.seq, s.now) :: s.ran }
  | fuel + 1, false, s =>
    match s.queue, s.ev with
    | [], false => { s with pc := .blockedEmpty }
    | _, true => { s with ev := false, pc := .sleeping0 }
    | _ :: _, false => run fuel true s

/-- environment / scheduler labels -/
inductive Label where
  | schedule (d : Nat)
  | cancel (sq : Nat)
  | tick (dt : Nat)
  | resumeSet        -- a blocked wait returns because the event is set
  | resumeTimeout    -- a timed wait returns because its time-out elapsed
  | resumeSleep      -- sleep(0) returns
  deriving Repr

def fuelOf (s : St) : Nat := 2 * s.queue.length + 4

def step (s : St) : Label → Option St
  | .schedule d => some (schedule s d)
  | .cancel sq => some (cancel s sq)
  | .tick dt => some { s with now := s.now + dt }
  | .resumeSleep =>
    match s.pc with
    | .sleeping0 => some (run (fuelOf s) true { s with pc := .top })
    | _ => none
  | .resumeSet =>
    match s.pc with
    | .blockedEmpty => if s.ev then some (run (fuelOf s) false { s with pc := .top }) else none
    | .waiting _ _ _ => if s.ev then some (run (fuelOf s) false { s with pc := .top }) else none
    | _ => none
  | .resumeTimeout =>
    match s.pc with
    | .waiting _ _ w =>
      if w ≤ s.now then
        match s.queue with
        | [] => some { s with pc := .crashed }          -- heappop on empty
        | h :: rest =>
          let s' := if h.cancelled then { s with queue := rest }
                    else { s with queue := rest, ran := (h.seq, s.now) :: s.ran }
          some (run (fuelOf s') false { s' with pc := .top })
      else none
    | _ => none

def init (res : Nat) (now : Nat) : St :=
  { queue := [], ev := false, seq := 0, res := res, pc := .blockedEmpty, now := now, ran := [] }

def runLabels (s : St) : List Label → Option St
  | [] => some s
  | l :: ls => match step s l with
    | some s' => runLabels s' ls
    | none => none

-- #eval (runLabels (init 10 1000) [.schedule 1015, .resumeSet, .resumeSleep, .schedule 1005, .resumeSet, .resumeSleep, .tick 10, .resumeTimeout, .tick 10, .resumeTimeout]).map (fun s => (s.ran, s.pc, s.queue.length, s.ev))

/-! ### the worker never evaluates `queue[0]` on an empty queue -/

def Good (s : St) : Prop :=
  match s.pc with
  | .crashed => False
  | .top => False
  | .blockedEmpty => (s.ev = true → s.queue ≠ []) ∧ (s.ev = false → s.queue = [])
  | .sleeping0 => s.queue ≠ [] ∧ (s.ev = true → 2 ≤ s.queue.length)
  | .waiting _ _ _ => s.queue ≠ [] ∧ (s.ev = true → 2 ≤ s.queue.length)

def mu (b : Bool) (s : St) : Nat :=
  2 * s.queue.length + (if b then 1 else 2) + (if b && s.ev then 2 else 0)

theorem run_good : ∀ (fuel : Nat) (b : Bool) (s : St),
    mu b s ≤ fuel →
    (b = true → s.queue ≠ [] ∧ (s.ev = true → 2 ≤ s.queue.length)) →
    (b = false → (s.ev = true → s.queue ≠ [])) →
    Good (run fuel b s) := by
  intro fuel b s
  fun_induction run fuel b s <;> intro hf hb1 hb2
  all_goals (try (simp only [mu] at hf))
  all_goals (try (simp_all [Good, mu]; done))
  all_goals (try (simp_all [Good, mu]; omega))
  · exfalso; rename_i b s; cases b <;> simp at hf
  case case3 fuel s y ys hq hc ih =>
    have hlen : s.queue.length = ys.length + 1 := by rw [hq]; rfl
    apply ih
    · simp only [mu] at hf ⊢
      simp at hf ⊢
      split at hf <;> omega
    · intro h; cases h
    · intro _ hev
      have h2 := (hb1 rfl).2 hev
      intro hnil
      have : ys = [] := hnil
      subst this
      simp at hlen; omega
  case case6 fuel s y ys hq hc hlt ih =>
    have hlen : s.queue.length = ys.length + 1 := by rw [hq]; rfl
    apply ih
    · simp only [mu] at hf ⊢
      simp at hf ⊢
      split at hf <;> omega
    · intro h; cases h
    · intro _ hev
      have h2 := (hb1 rfl).2 hev
      intro hnil
      have : ys = [] := hnil
      subst this
      simp at hlen; omega

@[simp] theorem insertSorted_length (x : Item) (l : List Item) :
    (insertSorted x l).length = l.length + 1 := by
  induction l with
  | nil => rfl
  | cons y ys ih => simp only [insertSorted]; split <;> simp [ih]

theorem schedule_queue_length (s : St) (d : Nat) :
    (schedule s d).queue.length = s.queue.length + 1 := by
  simp [schedule]

theorem schedule_ev_of_empty (s : St) (d : Nat) (h : s.queue = []) : (schedule s d).ev = true := by
  simp [schedule, h, insertSorted]

@[simp] theorem schedule_pc (s : St) (d : Nat) : (schedule s d).pc = s.pc := rfl
@[simp] theorem cancel_pc (s : St) (q : Nat) : (cancel s q).pc = s.pc := rfl
@[simp] theorem cancel_ev (s : St) (q : Nat) : (cancel s q).ev = s.ev := rfl
@[simp] theorem cancel_len (s : St) (q : Nat) : (cancel s q).queue.length = s.queue.length := by
  simp [cancel]

theorem ne_nil_of_length {α} (l : List α) (h : 1 ≤ l.length) : l ≠ [] := by
  intro hn; simp [hn] at h

theorem length_pos_of_ne {α} (l : List α) (h : l ≠ []) : 1 ≤ l.length := by
  cases l with
  | nil => exact absurd rfl h
  | cons _ _ => simp

theorem good_step (s s' : St) (l : Label) (hg : Good s) (hs : step s l = some s') : Good s' := by
  cases l with
  | schedule d =>
    simp only [step, Option.some.injEq] at hs; subst hs
    have hl := schedule_queue_length s d
    unfold Good at hg ⊢
    simp only [schedule_pc]
    split at hg
    · exact hg
    · exact hg
    · refine ⟨fun _ => ne_nil_of_length _ (by omega), fun hev => ?_⟩
      by_cases hq : s.queue = []
      · have := schedule_ev_of_empty s d hq; simp [this] at hev
      · -- ev stays false only if it was false; then queue was []
        have hold : s.ev = false := by
          cases h : s.ev with
          | false => rfl
          | true =>
            exfalso
            simp only [schedule] at hev
            split at hev
            · split at hev <;> simp_all
            · simp_all
        exact absurd (hg.2 hold) hq
    · exact ⟨ne_nil_of_length _ (by omega), fun _ => by have := length_pos_of_ne _ hg.1; omega⟩
    · exact ⟨ne_nil_of_length _ (by omega), fun _ => by have := length_pos_of_ne _ hg.1; omega⟩
  | cancel q =>
    simp only [step, Option.some.injEq] at hs; subst hs
    unfold Good at hg ⊢
    simp only [cancel_pc, cancel_ev]
    split at hg
    · exact hg
    · exact hg
    · refine ⟨fun h => ne_nil_of_length _ (by simp; exact length_pos_of_ne _ (hg.1 h)), fun h => ?_⟩
      have := hg.2 h; simp [cancel, this]
    · exact ⟨ne_nil_of_length _ (by simp; exact length_pos_of_ne _ hg.1), fun h => by simpa using hg.2 h⟩
    · exact ⟨ne_nil_of_length _ (by simp; exact length_pos_of_ne _ hg.1), fun h => by simpa using hg.2 h⟩
  | tick dt =>
    simp only [step, Option.some.injEq] at hs; subst hs
    exact hg
  | resumeSleep =>
    simp only [step] at hs
    split at hs
    · simp only [Option.some.injEq] at hs; subst hs
      rename_i hpc
      unfold Good at hg; simp only [hpc] at hg
      apply run_good
      · simp [mu, fuelOf]; split <;> omega
      · intro _; exact hg
      · intro h; cases h
    · cases hs
  | resumeSet =>
    simp only [step] at hs
    split at hs
    · rename_i hpc
      split at hs
      · simp only [Option.some.injEq] at hs; subst hs
        rename_i hev
        unfold Good at hg; simp only [hpc] at hg
        apply run_good
        · simp [mu, fuelOf]
        · intro h; cases h
        · intro _ _; exact hg.1 hev
      · cases hs
    · rename_i hpc
      split at hs
      · simp only [Option.some.injEq] at hs; subst hs
        unfold Good at hg; simp only [hpc] at hg
        apply run_good
        · simp [mu, fuelOf]
        · intro h; cases h
        · intro _ _; exact hg.1
      · cases hs
    · cases hs
  | resumeTimeout =>
    simp only [step] at hs
    split at hs
    · rename_i hpc
      unfold Good at hg; simp only [hpc] at hg
      split at hs
      · split at hs
        · rename_i hq; exact absurd hq hg.1
        · rename_i h rest hq
          simp only [Option.some.injEq] at hs; subst hs
          apply run_good
          · simp only [mu, fuelOf]; split <;> simp
          · intro h; cases h
          · intro _ hev
            have hev' : s.ev = true := by split at hev <;> exact hev
            have h2 := hg.2 hev'
            simp only [hq, List.length_cons] at h2
            split <;> (simp; intro hn; simp [hn] at h2)
      · cases hs
    · cases hs

theorem good_init (r n : Nat) : Good (init r n) := by simp [Good, init]

theorem reachable_good (r n : Nat) : ∀ (ls : List Label) (s : St),
    Good s → ∀ s', runLabels s ls = some s' → Good s' := by
  intro ls
  induction ls with
  | nil => intro s hg s' h; simp [runLabels] at h; subst h; exact hg
  | cons l ls ih =>
    intro s hg s' h
    simp only [runLabels] at h
    split at h
    · rename_i s1 hs1; exact ih s1 (good_step s s1 l hg hs1) s' h
    · cases h

/-- The worker never evaluates `self._queue[0]` (or `heappop`) on an empty queue. -/
theorem worker_never_crashes (r n : Nat) (ls : List Label) (s' : St)
    (h : runLabels (init r n) ls = some s') : s'.pc ≠ .crashed := by
  have hg := reachable_good r n ls (init r n) (good_init r n) s' h
  intro hc; simp [Good, hc] at hg

#print axioms worker_never_crashes

end TQ
