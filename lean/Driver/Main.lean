/-
  Driver/Main.lean — line-protocol driver.  Reads cases from stdin:

      case <component> <cfg values…>
      op <values…>
      real <value>          (optional: the implementation's observation for the previous op)
      end

  and prints, per case, one `obs <value>` line per op followed by
  `verdict <model verdict> <real verdict | none>`.
-/
import ScalesModel.Core.Run
import ScalesModel.Adapter.Async
import ScalesModel.Adapter.Heap
import ScalesModel.Adapter.FrontEnd
import ScalesModel.Adapter.E2E
import ScalesModel.Adapter.TagPool
import ScalesModel.Adapter.Shared
import ScalesModel.Adapter.KafkaCodec
import ScalesModel.Adapter.Varz
import ScalesModel.Adapter.Proxy
import ScalesModel.Adapter.Uri
import ScalesModel.Adapter.TimerQueue
import ScalesModel.Adapter.MuxCodec
import ScalesModel.Adapter.ThriftCodec
import ScalesModel.Adapter.Serial
import ScalesModel.Adapter.SerialC02
import ScalesModel.Adapter.SerialC12
import ScalesModel.Adapter.MuxT
import ScalesModel.Adapter.Watermark
import ScalesModel.Adapter.ServerSet
import ScalesModel.Adapter.LB
import ScalesModel.Adapter.Resurrector
import ScalesModel.Adapter.ResPool
import ScalesModel.Adapter.HeapC09
import ScalesModel.Adapter.ApertureHeap
import ScalesModel.Adapter.ResMux
import ScalesModel.Adapter.ThriftShared
open Scales

def components : List Comp := [
  ⟨"async", Scales.Async.comp.run⟩,
  ⟨"heap3", (Scales.Heap.comp 3).run⟩,
  ⟨"heap4", (Scales.Heap.comp 4).run⟩,
  ⟨"frontend", Scales.FrontEnd.comp.run⟩,
  ⟨"e2e1", (Scales.E2E.comp 1).run⟩,
  ⟨"e2e2", (Scales.E2E.comp 2).run⟩,
  ⟨"e2e12", (Scales.E2E.comp 12).run⟩,
  ⟨"e2e9", (Scales.E2E.comp 9).run⟩,
  ⟨"tagpool", Scales.TagPool.comp.run⟩,
  ⟨"singleton", Scales.Shared.singleton.run⟩,
  ⟨"refcount", Scales.Shared.refcount.run⟩,
  ⟨"sharedprov", Scales.Shared.sharedprov.run⟩,
  ⟨"kafkacodec", Scales.Kafka.comp.run⟩,
  ⟨"varz", Scales.Varz.comp.run⟩,
  ⟨"proxy", Scales.Proxy.comp.run⟩,
  ⟨"uri", Scales.Uri.comp.run⟩,
  ⟨"timerq", Scales.TimerQ.comp.run⟩,
  ⟨"muxcodec", Scales.MuxCodec.comp.run⟩,
  ⟨"thriftcodec", Scales.ThriftCodec.comp.run⟩,
  ⟨"serial", Scales.Serial.comp.run⟩,
  ⟨"serial2", Scales.SerialC02.comp.run⟩,
  ⟨"serial12", Scales.SerialC12.comp.run⟩,
  ⟨"muxt", Scales.MuxT.pcomp.run⟩,
  ⟨"watermark", Scales.Watermark.comp.run⟩,
  ⟨"serverset", Scales.ServerSet.comp.run⟩,
  ⟨"lbheap", Scales.LB.comp5.run⟩,
  ⟨"lbaperture", Scales.LB.comp5.run⟩,
  ⟨"aperture", Scales.LB.comp6.run⟩,
  ⟨"resurrector", Scales.Res.comp.run⟩,
  ⟨"respool", Scales.Pool.comp.run⟩,
  ⟨"lbgate", Scales.LB.compGate.run⟩,
  ⟨"heap9", Scales.Heap.comp9.run⟩,
  ⟨"aperture3", Scales.LB.comp3A.run⟩,
  ⟨"aperture4", Scales.LB.comp4A.run⟩,
  ⟨"resmux", Scales.ResMux.comp.run⟩,
  ⟨"thriftshared", Scales.ThriftShared.comp.run⟩
]

structure CaseAcc where
  comp : String := ""
  cfg : List V := []
  ops : List (List V) := []       -- reversed
  real : List (Option V) := []    -- reversed, aligned with ops
  active : Bool := false

def finish (acc : CaseAcc) : List String :=
  match components.find? (·.name == acc.comp) with
  | none => ["bad-component " ++ acc.comp]
  | some c => c.run acc.cfg acc.ops.reverse acc.real.reverse

partial def loop (h : IO.FS.Stream) (out : IO.FS.Stream) (acc : CaseAcc) : IO Unit := do
  let line ← h.getLine
  if line.isEmpty then
    out.flush
    return ()
  match V.parseLine line with
  | none => out.putStrLn "bad-line"; loop h out acc
  | some [] => loop h out acc
  | some (.a "case" :: .a name :: cfg) =>
    loop h out { comp := name, cfg := cfg, active := true }
  | some (.a "op" :: vs) =>
    loop h out { acc with ops := vs :: acc.ops, real := none :: acc.real }
  | some [.a "real", v] =>
    match acc.real with
    | _ :: rest => loop h out { acc with real := some v :: rest }
    | [] => out.putStrLn "bad-line"; loop h out acc
  | some [.a "end"] =>
    for l in finish acc do out.putStrLn l
    out.putStrLn "done"
    out.flush
    loop h out {}
  | some _ => out.putStrLn "bad-line"; loop h out acc

def main : IO Unit := do
  loop (← IO.getStdin) (← IO.getStdout) {}
