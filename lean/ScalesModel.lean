import ScalesModel.Core.Val
import ScalesModel.Core.Run
import ScalesModel.Model.Async
import ScalesModel.Adapter.Async
import ScalesModel.Model.Heap
import ScalesModel.Adapter.Heap
import ScalesModel.Proofs.AsyncLemmas
import ScalesModel.Props.C17
