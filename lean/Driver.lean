import Driver.Main
