/-
  Adapter/ResPool.lean — C09, component `respool`: the resurrector over the real watermark pool
  and serial Thrift transport (Model/ResChain.lean), observed at quiescence after every operation.

  cfg:  <init µs> <max µs> ( w0 w1 … )     as for `resurrector`
  ops:  open | req reply/eof | reach up/down | tick d | close
        (an optional trailing list of naturals is the schedule of the operation's tasks; the
         harness sends none: gevent's FIFO order.  The theorems hold for every schedule.)
  obs:  ( next down state res connects live resp ups pools poolstate )
-/
import ScalesModel.Core.Run
import ScalesModel.Model.ResChain
import ScalesModel.Adapter.Resurrector
namespace Scales.Pool
open Scales.Res (ChSt Ar Par Cfg nextWait)
open Scales.Chain

inductive Op where
  | opn (sched : List Nat)
  | req (eof : Bool) (sched : List Nat)
  | reach (up : Bool)
  | tick (d : Nat) (sched : List Nat)
  | close (sched : List Nat)
  deriving Repr, DecidableEq

/-- the quiescent states of the chain -/
inductive Mode where
  | idle      -- never opened
  | up        -- pool open, one cached transport with an open socket, both subscriptions in place
  | down      -- fail-fast mode, retry greenlet asleep
  | shutU     -- closed while up
  | shutD     -- closed while down
  deriving Repr, DecidableEq, Inhabited

def canon (m : Mode) (reach : Bool) : C :=
  match m with
  | .idle => { reach := reach }
  | .up => { reach := reach, rNext := true, rSub := true, pSt := .opened, pSize := 1, pCache := true,
             pAr := .ok, pG := .done, tSt := .opened, tSub := true, tAr := .ok }
  | .down => { reach := reach, rDown := true, rRes := .sleeping, pSt := .closed, tSt := .closed,
               pAr := .fail, pG := .done }
  | .shutU => { reach := reach, rNext := true, pSt := .closed, tSt := .closed, pSize := 1, pCache := true,
                pAr := .ok, pG := .done }
  | .shutD => { reach := reach, pSt := .closed, tSt := .closed, pAr := .fail, pG := .done }

/-- which quiescent state a finished run is in (`none`: not quiescent, or not one of them) -/
def classify (c : C) : Option Mode :=
  if c.tasks ≠ [] ∨ c.uncovered then none
  else if c.rRes = .sleeping ∧ c.rDown ∧ ¬c.rNext ∧ ¬c.rSub ∧ c.tSt ≠ .opened then some .down
  else if c.rRes ≠ .none ∨ c.rDown then none
  else if c.rNext then
    if c.rSub ∧ c.pSt = .opened ∧ c.pCache ∧ c.tSt = .opened ∧ c.tSub ∧ c.pSize = 1 then some .up
    else if ¬c.rSub ∧ c.pSt = .closed ∧ c.tSt ≠ .opened then some .shutU
    else none
  else if c.rSub then none
  else if c.pSt = .idle ∧ c.tSt = .idle then some .idle
  else if c.pSt = .closed ∧ c.tSt ≠ .opened then some .shutD
  else none

structure St where
  mode : Option Mode := some .idle     -- `none`: the model lost track (reported as not quiescent)
  last : C := {}                       -- the chain as the last operation left it
  reach : Bool := true
  now : Nat := 0
  wakeAt : Nat := 0
  wait : Nat := 0
  ups : Nat := 0
  pools : Nat := 0
  deriving Repr, DecidableEq

/-- run the operation's tasks: the given schedule first, then FIFO -/
def drain (c : C) (sched : List Nat) : C := runFIFO (run c sched) fuel

/-- take over the result of a run (`dp` pools were created, the clock advanced by `dt` before it);
    read the retry greenlet's new sleep, if it entered one -/
def settle (p : Par) (s : St) (c : C) (dp dt : Nat) : St :=
  let now := s.now + dt
  let s := { s with last := c, mode := classify c, ups := s.ups + c.ups, pools := s.pools + dp, now := now }
  match c.slp with
  | .fresh => { s with wait := p.init, wakeAt := now + p.init }
  | .backoff => { s with wait := nextWait p s.wait, wakeAt := now + nextWait p s.wait }
  | .none => s

def stepSt (p : Par) (s : St) : Op → St
  | .reach up => { s with reach := up, last := { begin s.last with reach := up } }
  | op =>
    match s.mode with
    | none => s
    | some m =>
      let c := canon m s.reach
      match op with
      | .opn sched => settle p s (drain (opOpen c) sched) (if c.rNext then 0 else 1) 0
      | .req eof sched => settle p s (drain (opReq c eof) sched) 0 0
      | .tick d sched =>
        if m = .down ∧ s.wakeAt ≤ s.now + d then settle p s (drain (opWake c) sched) 1 d
        else { s with now := s.now + d, last := begin s.last }
      | .close sched => settle p s (drain (opClose c) sched) 0 0
      | .reach _ => s

inductive ResView where
  | none | start | sleep (w : Nat) | opening
  deriving Repr, DecidableEq

structure Obs where
  next : Option Nat
  down : Bool
  state : ChSt
  res : ResView
  connects : Nat
  live : Nat
  resp : RespK
  ups : Nat
  pools : Nat
  pst : List ChSt
  quiet : Bool
  deriving Repr, DecidableEq

def obsOf (s : St) : Obs :=
  let c := s.last
  { next := if c.rNext then some (s.pools - 1) else none
    down := c.rDown
    state := if c.rDown then .closed else if c.rNext then c.pSt else .idle
    res := match c.rRes with
      | .none => .none | .start => .start | .sleeping => .sleep s.wait | .opening => .opening
    connects := c.connects
    live := if c.tSt = .opened then 1 else 0
    resp := c.resp
    ups := s.ups
    pools := s.pools
    pst := if s.pools = 0 then [] else [c.pSt]
    quiet := s.mode.isSome }

def step (cfg : Cfg) (s : St) (op : Op) : St × Obs :=
  let s' := stepSt cfg.par s op
  (s', obsOf s')

/-! ### codecs -/

def decSched : List V → Option (List Nat)
  | [] => some []
  | [v] => v.natList?
  | _ => none

def decOp : List V → Option Op
  | .a "open" :: r => do pure (.opn (← decSched r))
  | .a "req" :: .a "reply" :: r => do pure (.req false (← decSched r))
  | .a "req" :: .a "eof" :: r => do pure (.req true (← decSched r))
  | [.a "reach", .a "up"] => some (.reach true)
  | [.a "reach", .a "down"] => some (.reach false)
  | .a "tick" :: d :: r => do pure (.tick (← d.nat?) (← decSched r))
  | .a "close" :: r => do pure (.close (← decSched r))
  | _ => none

def encResp : RespK → V
  | .none => .a "none"
  | .ok => .a "ok"
  | .err => .a "err"
  | .ff => .a "ff"

def decResp : V → Option RespK
  | .a "none" => some .none
  | .a "ok" => some .ok
  | .a "err" => some .err
  | .a "ff" => some .ff
  | _ => none

def encRes : ResView → V
  | .none => .a "none"
  | .start => .a "start"
  | .sleep w => .l [.a "sleep", V.ofNat w]
  | .opening => .a "opening"

def decRes : V → Option ResView
  | .a "none" => some .none
  | .a "start" => some .start
  | .l [.a "sleep", w] => do pure (.sleep (← w.nat?))
  | .a "opening" => some .opening
  | _ => none

def encObs (o : Obs) : V :=
  if o.quiet then
    .l [Res.encOptNat o.next, V.ofBool o.down, Res.encChSt o.state, encRes o.res, V.ofNat o.connects,
        V.ofNat o.live, encResp o.resp, V.ofNat o.ups, V.ofNat o.pools, .l (o.pst.map Res.encChSt)]
  else .a "not-quiescent"

def decObs : V → Option Obs
  | .l [n, d, st, r, cn, lv, resp, ups, pools, .l pst] => do
    pure ⟨← Res.decOptNat n, ← d.bool?, ← Res.decChSt st, ← decRes r, ← cn.nat?, ← lv.nat?,
          ← decResp resp, ← ups.nat?, ← pools.nat?, ← pst.mapM Res.decChSt, true⟩
  | _ => none

/-! ### specification over a history

  Judged from the environment's inputs (reachability at each connect, the peer closing a
  connection instead of answering, clock, close) and from what the client did (connect attempts,
  the answer to each request) — nothing of the client's internal state:

  * `failfast`       once a connect was refused or the connection broke, and until a connect
                     succeeds, every request is answered FailedFast and causes no connect;
  * `backoff-…`      while down, the delay before each reconnection attempt is at most the maximum
                     and larger than the delay before the previous one (equal once at the maximum);
  * `not-recovered`  still failing fast although the endpoint has been reachable for a full
                     maximum interval since the last failed attempt;
  * `not-resumed`    with an established connection and an answering peer a request succeeds;
  * `connect-after-close`  no connect attempt once closed.
-/

structure PS where
  now : Nat := 0
  reach : Bool := true
  reachSince : Nat := 0
  closed : Bool := false
  connDown : Bool := false      -- last connect refused / connection broken, no connect succeeded since
  established : Bool := false   -- a connect succeeded and that connection has not broken
  lastEnd : Nat := 0
  lastDelay : Option Nat := none
  deriving Repr, DecidableEq

def specStep (c : Cfg) (a : PS) (idx : Nat) (op : Op) (o : Obs) : Verdict × PS :=
  if o.quiet = false then (.fail "not-quiescent" [V.ofNat idx], a) else
  if a.closed then
    if 0 < o.connects then (.fail "connect-after-close" [V.ofNat idx, V.ofNat o.connects], a)
    else match op with
      | .tick d _ => (.ok, { a with now := a.now + d })
      | _ => (.ok, a)
  else
  match op with
  | .opn _ =>
    if o.connects = 0 then (.ok, a)
    else if a.reach then (.ok, { a with established := true, connDown := false })
    else (.ok, { a with connDown := true, established := false, lastEnd := a.now, lastDelay := none })
  | .req eof _ =>
    if a.connDown then
      if o.resp ≠ .ff ∨ 0 < o.connects then
        (.fail "failfast" [V.ofNat idx, encResp o.resp, V.ofNat o.connects], a)
      else if a.reach ∧ max a.reachSince a.lastEnd + c.maxW ≤ a.now then
        (.fail "not-recovered" [V.ofNat idx, V.ofNat a.now, V.ofNat (max a.reachSince a.lastEnd)], a)
      else (.ok, a)
    else if a.established then
      if eof then
        (.ok, { a with connDown := true, established := false, lastEnd := a.now, lastDelay := none })
      else if o.resp ≠ .ok then (.fail "not-resumed" [V.ofNat idx, encResp o.resp], a)
      else (.ok, a)
    else (.ok, a)
  | .tick d _ =>
    let a := { a with now := a.now + d }
    if o.connects = 0 ∨ a.connDown = false then (.ok, a)
    else
      let delay := a.now - a.lastEnd
      if c.maxW < delay then (.fail "backoff-above-max" [V.ofNat idx, V.ofNat delay], a)
      else if (match a.lastDelay with
               | some p => decide (delay < p) || (decide (delay = p) && decide (p < c.maxW))
               | none => false) then
        (.fail "backoff-not-growing" [V.ofNat idx, V.ofNat delay], a)
      else if a.reach then
        (.ok, { a with established := true, connDown := false, lastDelay := none })
      else (.ok, { a with lastEnd := a.now, lastDelay := some delay })
  | .reach up => (.ok, { a with reach := up, reachSince := a.now })
  | .close _ => (.ok, { a with closed := true })

def specGo (c : Cfg) (a : PS) (idx : Nat) : List (Op × Obs) → Verdict
  | [] => .ok
  | (op, o) :: rest =>
    match specStep c a idx op o with
    | (.ok, a') => specGo c a' (idx + 1) rest
    | (f, _) => f

def spec (c : Cfg) (h : List (Op × Obs)) : Verdict := specGo c {} 0 h

/-! ### hypotheses: the channel is opened once, first, and closed at most once; traffic only
    between the two; the clock does not jump over the retry greenlet's wake instant -/

def opOk (s : St) (opened closed : Bool) : Op → Bool
  | .opn _ => !opened && !closed
  | .req _ _ => opened && !closed
  | .close _ => opened && !closed
  | .tick d _ => decide (0 < d) && (decide (s.mode ≠ some .down) || decide (s.now + d ≤ s.wakeAt))
  | .reach _ => true

def isOpn : Op → Bool
  | .opn _ => true
  | _ => false

def isClose : Op → Bool
  | .close _ => true
  | _ => false

def wfGo (p : Par) (s : St) (opened closed : Bool) : List Op → Bool
  | [] => true
  | op :: ops =>
    opOk s opened closed op &&
    wfGo p (stepSt p s op) (opened || isOpn op) (closed || isClose op) ops

def comp : TComp Cfg St Op Obs where
  decCfg := Res.decCfg
  init := fun _ => {}
  decOp := decOp
  step := step
  encObs := encObs
  decObs := decObs
  spec := spec
  wf := fun c ops => Res.cfgWF c && wfGo c.par {} false false ops

end Scales.Pool
