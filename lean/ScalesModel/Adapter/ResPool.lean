/-
  Adapter/ResPool.lean — C09, component `respool`: the resurrector over the real watermark pool
  and serial Thrift transport (Model/ResChain.lean), observed at quiescence after every operation.

  cfg:  <init µs> <max µs> ( w0 w1 … ) <lo> <hi>     the first three as for `resurrector`;
        lo = the pool's min_watermark, hi = its max_watermark (Int.MaxValue when not configured)
  ops:  open | req reply/eof | reach up/down | tick d | close
        (an optional trailing list of naturals is the schedule of the operation's tasks; the
         harness sends none: gevent's FIFO order.  The theorems hold for every schedule.)
  obs:  ( next down state res connects live resp ups pools poolstate )
-/
import ScalesModel.Core.Run
import ScalesModel.Model.ResChain
import ScalesModel.Adapter.Resurrector
namespace Scales.Pool
open Scales.Res (ChSt Ar Par nextWait)
open Scales.Chain

/-- the resurrector's configuration and the pool's watermarks -/
structure Cfg where
  r : Res.Cfg
  w : WM
  deriving Repr, DecidableEq

abbrev Cfg.par (c : Cfg) : Par := c.r.par
abbrev Cfg.maxW (c : Cfg) : Nat := c.r.maxW
abbrev Cfg.init (c : Cfg) : Nat := c.r.init

inductive Op where
  | opn (sched : List Nat)
  | req (eof : Bool) (sched : List Nat)
  | reach (up : Bool)
  | tick (d : Nat) (sched : List Nat)
  | close (sched : List Nat)
  deriving Repr, DecidableEq

/-- the quiescent states of the chain -/
inductive Mode where
  | idle      -- never opened
  | up        -- pool open and subscribed to; min_watermark ≥ 1: one cached transport with an open
              -- socket, subscribed to; min_watermark = 0: no transport, nothing cached, size 0
  | down      -- fail-fast mode, retry greenlet asleep
  | shutU     -- closed while up
  | shutD     -- closed while down
  deriving Repr, DecidableEq, Inhabited

def canon (w : WM) (m : Mode) (reach : Bool) : C :=
  match m with
  | .idle => { reach := reach }
  | .up =>
    if 1 ≤ w.lo then
      { reach := reach, rNext := true, rSub := true, pSt := .opened, pSize := 1, pCache := true,
        pAr := .ok, pG := .done, tSt := .opened, tSub := true, tAr := .ok }
    else
      { reach := reach, rNext := true, rSub := true, pSt := .opened, pSize := 0, pCache := false,
        pAr := .ok, pG := .done, tSt := .closed, tSub := false, tAr := .none }
  | .down => { reach := reach, rDown := true, rRes := .sleeping, pSt := .closed, tSt := .closed,
               pAr := .fail, pG := .done }
  | .shutU => { reach := reach, rNext := true, pSt := .closed, tSt := .closed, pSize := 1, pCache := true,
                pAr := .ok, pG := .done }
  | .shutD => { reach := reach, pSt := .closed, tSt := .closed, pAr := .fail, pG := .done }

/-- which quiescent state a finished run is in (`none`: not quiescent, or not one of them) -/
def classify (w : WM) (c : C) : Option Mode :=
  if c.tasks ≠ [] ∨ c.uncovered ∨ c.qG ≠ none then none
  else if c.rRes = .sleeping ∧ c.rDown ∧ ¬c.rNext ∧ ¬c.rSub ∧ c.tSt ≠ .opened then some .down
  else if c.rRes ≠ .none ∨ c.rDown then none
  else if c.rNext then
    if c.rSub ∧ c.pSt = .opened ∧ 1 ≤ w.lo ∧ c.pCache ∧ c.tSt = .opened ∧ c.tSub ∧ c.pSize = 1 then some .up
    else if c.rSub ∧ c.pSt = .opened ∧ w.lo = 0 ∧ ¬c.pCache ∧ c.tSt = .closed ∧ ¬c.tSub ∧ c.pSize = 0 then some .up
    else if ¬c.rSub ∧ c.pSt = .closed ∧ c.tSt ≠ .opened then some .shutU
    else none
  else if c.rSub then none
  else if c.pSt = .idle ∧ c.tSt = .idle then some .idle
  else if c.pSt = .closed ∧ c.tSt ≠ .opened then some .shutD
  else none

structure St where
  mode : Option Mode := some .idle     -- `none`: the model lost track (reported as not quiescent)
  last : C := {}                       -- the chain as the last operation left it
  reach : Bool := true
  now : Nat := 0
  wakeAt : Nat := 0
  wait : Nat := 0
  ups : Nat := 0
  pools : Nat := 0
  deriving Repr, DecidableEq

/-- run the operation's tasks: the given schedule first, then FIFO -/
def drain (w : WM) (c : C) (sched : List Nat) : C := runFIFO w (run w c sched) fuel

/-- take over the result of a run (`dp` pools were created, the clock advanced by `dt` before it);
    read the retry greenlet's new sleep, if it entered one -/
def settle (p : Par) (w : WM) (s : St) (c : C) (dp dt : Nat) : St :=
  let now := s.now + dt
  let s := { s with last := c, mode := classify w c, ups := s.ups + c.ups, pools := s.pools + dp, now := now }
  match c.slp with
  | .fresh => { s with wait := p.init, wakeAt := now + p.init }
  | .backoff => { s with wait := nextWait p s.wait, wakeAt := now + nextWait p s.wait }
  | .none => s

def stepSt (p : Par) (w : WM) (s : St) : Op → St
  | .reach up => { s with reach := up, last := { begin s.last with reach := up } }
  | op =>
    match s.mode with
    | none => s
    | some m =>
      let c := canon w m s.reach
      match op with
      | .opn sched => settle p w s (drain w (opOpen c) sched) (if c.rNext then 0 else 1) 0
      | .req eof sched => settle p w s (drain w (opReq c eof) sched) 0 0
      | .tick d sched =>
        if m = .down ∧ s.wakeAt ≤ s.now + d then settle p w s (drain w (opWake c) sched) 1 d
        else { s with now := s.now + d, last := begin s.last }
      | .close sched => settle p w s (drain w (opClose c) sched) 0 0
      | .reach _ => s

inductive ResView where
  | none | start | sleep (w : Nat) | opening
  deriving Repr, DecidableEq

structure Obs where
  next : Option Nat
  down : Bool
  state : ChSt
  res : ResView
  connects : Nat
  live : Nat
  resp : RespK
  ups : Nat
  pools : Nat
  pst : List ChSt
  quiet : Bool
  deriving Repr, DecidableEq

def obsOf (s : St) : Obs :=
  let c := s.last
  { next := if c.rNext then some (s.pools - 1) else none
    down := c.rDown
    state := if c.rDown then .closed else if c.rNext then c.pSt else .idle
    res := match c.rRes with
      | .none => .none | .start => .start | .sleeping => .sleep s.wait | .opening => .opening
    connects := c.connects
    live := if c.tSt = .opened then 1 else 0
    resp := c.resp
    ups := s.ups
    pools := s.pools
    pst := if s.pools = 0 then [] else [c.pSt]
    quiet := s.mode.isSome }

def step (cfg : Cfg) (s : St) (op : Op) : St × Obs :=
  let s' := stepSt cfg.par cfg.w s op
  (s', obsOf s')

/-! ### codecs -/

def decCfg : List V → Option Cfg
  | [i, m, t, lo, hi] => do pure ⟨⟨← i.nat?, ← m.nat?, ← t.natList?⟩, ⟨← lo.nat?, ← hi.nat?⟩⟩
  | _ => none

def decSched : List V → Option (List Nat)
  | [] => some []
  | [v] => v.natList?
  | _ => none

def decOp : List V → Option Op
  | .a "open" :: r => do pure (.opn (← decSched r))
  | .a "req" :: .a "reply" :: r => do pure (.req false (← decSched r))
  | .a "req" :: .a "eof" :: r => do pure (.req true (← decSched r))
  | [.a "reach", .a "up"] => some (.reach true)
  | [.a "reach", .a "down"] => some (.reach false)
  | .a "tick" :: d :: r => do pure (.tick (← d.nat?) (← decSched r))
  | .a "close" :: r => do pure (.close (← decSched r))
  | _ => none

def encResp : RespK → V
  | .none => .a "none"
  | .ok => .a "ok"
  | .err => .a "err"
  | .ff => .a "ff"
  | .pending => .a "pending"

def decResp : V → Option RespK
  | .a "none" => some .none
  | .a "ok" => some .ok
  | .a "err" => some .err
  | .a "ff" => some .ff
  | .a "pending" => some .pending
  | _ => none

def encRes : ResView → V
  | .none => .a "none"
  | .start => .a "start"
  | .sleep w => .l [.a "sleep", V.ofNat w]
  | .opening => .a "opening"

def decRes : V → Option ResView
  | .a "none" => some .none
  | .a "start" => some .start
  | .l [.a "sleep", w] => do pure (.sleep (← w.nat?))
  | .a "opening" => some .opening
  | _ => none

def encObs (o : Obs) : V :=
  if o.quiet then
    .l [Res.encOptNat o.next, V.ofBool o.down, Res.encChSt o.state, encRes o.res, V.ofNat o.connects,
        V.ofNat o.live, encResp o.resp, V.ofNat o.ups, V.ofNat o.pools, .l (o.pst.map Res.encChSt)]
  else .a "not-quiescent"

def decObs : V → Option Obs
  | .l [n, d, st, r, cn, lv, resp, ups, pools, .l pst] => do
    pure ⟨← Res.decOptNat n, ← d.bool?, ← Res.decChSt st, ← decRes r, ← cn.nat?, ← lv.nat?,
          ← decResp resp, ← ups.nat?, ← pools.nat?, ← pst.mapM Res.decChSt, true⟩
  | _ => none

/-! ### specification over a history

  Judged from the environment's inputs (reachability at each connect, the peer closing a
  connection instead of answering, clock, close) and from what the client did (connect attempts,
  the answer to each request) — nothing of the client's internal state, and nothing of the pool's
  configuration (whether a request travels on a kept connection or opens its own is read off the
  connect attempts it caused):

  * `failfast`       once a connect was refused or the connection broke, and until a connect
                     succeeds, every request is answered FailedFast and causes no connect;
  * `backoff-…`      while down, the delay before each reconnection attempt is at most the maximum
                     and larger than the delay before the previous one (equal once at the maximum);
  * `not-recovered`  still failing fast although the endpoint has been reachable for a full
                     maximum interval since the last failed attempt;
  * `not-resumed`    after a successful connect (and no refused connect or broken connection
                     since) a request to an answering peer succeeds — unless the connect it made
                     itself was refused, which is the endpoint going down;
  * `connect-after-close`  no connect attempt once closed.
-/

structure PS where
  now : Nat := 0
  reach : Bool := true
  reachSince : Nat := 0
  closed : Bool := false
  connDown : Bool := false      -- last connect refused / connection broken, no connect succeeded since
  established : Bool := false   -- a connect succeeded; no connect refused, no connection broken since
  lastEnd : Nat := 0
  lastDelay : Option Nat := none
  deriving Repr, DecidableEq

def specStep (c : Res.Cfg) (a : PS) (idx : Nat) (op : Op) (o : Obs) : Verdict × PS :=
  if o.quiet = false then (.fail "not-quiescent" [V.ofNat idx], a) else
  if a.closed then
    if 0 < o.connects then (.fail "connect-after-close" [V.ofNat idx, V.ofNat o.connects], a)
    else match op with
      | .tick d _ => (.ok, { a with now := a.now + d })
      | _ => (.ok, a)
  else
  match op with
  | .opn _ =>
    if o.connects = 0 then (.ok, a)
    else if a.reach then (.ok, { a with established := true, connDown := false })
    else (.ok, { a with connDown := true, established := false, lastEnd := a.now, lastDelay := none })
  | .req eof _ =>
    if a.connDown then
      if o.resp ≠ .ff ∨ 0 < o.connects then
        (.fail "failfast" [V.ofNat idx, encResp o.resp, V.ofNat o.connects], a)
      else if a.reach ∧ max a.reachSince a.lastEnd + c.maxW ≤ a.now then
        (.fail "not-recovered" [V.ofNat idx, V.ofNat a.now, V.ofNat (max a.reachSince a.lastEnd)], a)
      else (.ok, a)
    else if a.established then
      if 0 < o.connects ∧ a.reach = false then
        -- the request opened its own connection and was refused
        (.ok, { a with connDown := true, established := false, lastEnd := a.now, lastDelay := none })
      else if eof then
        (.ok, { a with connDown := true, established := false, lastEnd := a.now, lastDelay := none })
      else if o.resp ≠ .ok then (.fail "not-resumed" [V.ofNat idx, encResp o.resp], a)
      else (.ok, a)
    else (.ok, a)
  | .tick d _ =>
    let a := { a with now := a.now + d }
    if o.connects = 0 ∨ a.connDown = false then (.ok, a)
    else
      let delay := a.now - a.lastEnd
      if c.maxW < delay then (.fail "backoff-above-max" [V.ofNat idx, V.ofNat delay], a)
      else if (match a.lastDelay with
               | some p => decide (delay < p) || (decide (delay = p) && decide (p < c.maxW))
               | none => false) then
        (.fail "backoff-not-growing" [V.ofNat idx, V.ofNat delay], a)
      else if a.reach then
        (.ok, { a with established := true, connDown := false, lastDelay := none })
      else (.ok, { a with lastEnd := a.now, lastDelay := some delay })
  | .reach up => (.ok, { a with reach := up, reachSince := a.now })
  | .close _ => (.ok, { a with closed := true })

def specGo (c : Res.Cfg) (a : PS) (idx : Nat) : List (Op × Obs) → Verdict
  | [] => .ok
  | (op, o) :: rest =>
    match specStep c a idx op o with
    | (.ok, a') => specGo c a' (idx + 1) rest
    | (f, _) => f

def spec (c : Cfg) (h : List (Op × Obs)) : Verdict := specGo c.r {} 0 h

/-! ### hypotheses: the channel is opened once, first, and closed at most once; traffic only
    between the two; the clock does not jump over the retry greenlet's wake instant; the pool may
    hold at least one transport (`max_watermark ≥ 1`; with 0 every request is queued for ever) -/

def opOk (s : St) (opened closed : Bool) : Op → Bool
  | .opn _ => !opened && !closed
  | .req _ _ => opened && !closed
  | .close _ => opened && !closed
  | .tick d _ => decide (0 < d) && (decide (s.mode ≠ some .down) || decide (s.now + d ≤ s.wakeAt))
  | .reach _ => true

def isOpn : Op → Bool
  | .opn _ => true
  | _ => false

def isClose : Op → Bool
  | .close _ => true
  | _ => false

def wfGo (p : Par) (w : WM) (s : St) (opened closed : Bool) : List Op → Bool
  | [] => true
  | op :: ops =>
    opOk s opened closed op &&
    wfGo p w (stepSt p w s op) (opened || isOpn op) (closed || isClose op) ops

def cfgWF (c : Cfg) : Bool := Res.cfgWF c.r && decide (1 ≤ c.w.hi)

def comp : TComp Cfg St Op Obs where
  decCfg := decCfg
  init := fun _ => {}
  decOp := decOp
  step := step
  encObs := encObs
  decObs := decObs
  spec := spec
  wf := fun c ops => cfgWF c && wfGo c.par c.w {} false false ops

end Scales.Pool
